"""C18 — inside/outside tests and nearest-neighbour snapping are geometrically exact.

Tie (checked on every run).  Solids are CSG programs over integer boxes ("last box containing the point decides":
unions, differences, tori, nested / disjoint shells, random face-connected voxel sets).  The harness voxelises the
program, emits the boundary surface of the voxel set (two outward-wound triangles per exposed voxel face) as a watertight
manifold mesh — verified with trimesh (`is_watertight`, `is_winding_consistent`, volume == #voxels·|det|) — and puts it in
an integer pose (scale, flip, permute axes, translate; winding re-reversed for orientation-reversing poses).  The Lean
model gets the *program and the pose* (never the mesh) and answers exact membership for query points at half-integer
coordinates (doubled-integer protocol), so "inside" has no tolerance.  A second family are convex polytopes in general
position (hull of random integer points): the mesh is the hull triangulation, the model gets the exact integer face planes
(`memPoly`), query points are half-integer points lying on no face plane.

 (a) `navis.in_volume(points, vol)`   vs `c18.mem`, for every available back-end (`ncollpyde`; `scipy` convex hull for
     convex volumes only; `pyoctree` is not installed), `n_rays` ∈ {None,1,2,3,5,8}, ndarray / DataFrame / list input,
     Volume / trimesh input, `validate`; the voxelisation itself is cross-checked against `c18.mem` at every cell centre;
 (b) `navis.in_volume(x, vol, mode)` and `x.prune_by_volume` for TreeNeuron (sparse shuffled ids, connectors), Dotprops
     (connectors attached to their nearest point) and MeshNeuron (connectors attached to their nearest vertex) vs
     `c18.tree / c18.dots / c18.mesh`;
 (c) dict / list of volumes (points and neurons), shuffled order, duplicate names vs `c18.dict / c18.list / c18.dictpts`;
     `navis.intersection_matrix(..., attr='n_nodes')` vs `c18.imat`;
 (d) `TreeNeuron.snap / MeshNeuron.snap / Dotprops.snap` (nodes, vertices, points, connectors) on integer coordinates with
     unique nearest neighbours vs `c18.snap` (id and exact squared distance); with exact ties the Lean checker alone decides;
 (e) **volume histories**: ONE `navis.Volume` object is queried (points / DataFrame / TreeNeuron IN+OUT / NeuronList /
     `prune_by_volume` (also in place) / dict / list / `intersection_matrix`; every back-end and ray count), changed IN PLACE
     by every available mutator (`apply_translation`, `apply_scale`, `apply_transform`, `vol.vertices = …`, `vol.verts = …`,
     `vol.vertices *= k` / `+= t` / `np.multiply(…, out=vol.vertices)` / slice assignment, `resize(inplace=True)`, replacement
     of the whole mesh) and queried again, with `copy()` / `copy.copy` / `deepcopy` / pickle round trips / `vol * k` / `vol ± t` /
     `resize(inplace=False)` in between (derived objects are queried and changed too); after EVERY step the answer is judged
     against the exact membership in the object's *current* solid (`c18.hist`, which runs `VolCache.step` on the cache
     `Spec` generated from the current source).  A recording subclass of `ncollpyde.Volume` (and, in every fourth history,
     a brute-force stand-in for the not-installed `pyoctree.PyOctree`, so that `in_volume_pyoc` and its `volume.pyoctree`
     cache attribute execute) reports which geometry each structure was built from: "answered from the current mesh" is
     compared with the state machine and required by an oracle;
 (f) VoxelNeuron (voxel table and grid; units 1/3/anisotropic, offsets; in place, NeuronList) vs `c18.vox` / `checkVoxKept`;
     back-end selection (`c18.backend`) and refusal of `n_rays <= 0`; the `in_volume_pyoc` ray-consensus loop vs `c18.pyoc`
     (n-ray answer == bounding box AND conjunction of the single-ray answers with the same ray origins); points exactly ON the
     surface (face / edge / vertex): outside the property's quantifier — recorded, never judged.
 (g) `snap` on coordinate tables of EVERY dtype (int32 / int64 / float32 / float64; skeleton node tables, mesh vertices via
     constructor(process=False) and the `vertices` setter, dotprops points) with NON-INTEGER queries given in tenths — near-tie
     positions x.4 / x.5 / x.6 between two rows, x.9 offsets, negative coordinates; single point / list / float64 / float32 arrays;
     to= nodes / vertices / points / connectors — vs `c18.snapq` (the query cast as the source casts it, Gen/SnapCast.lean) and
     judged by `checkNearestQ` (true nearest row for the exact decimal query; squared distance as exact rational within 2^-12 relative + 2^-20: room for a float32 cast of the query, far below the ≥ 0.1 shift of a truncation).
 (h) `dotshist`: ONE Dotprops with connectors pruned TWICE — in_volume(big box, IN/OUT) then in_volume(small solid, IN/OUT), and
     subset_neuron with a boolean mask twice (mask / complement, also in place): the second prune meets the `point` column the first
     one wrote.  Second step vs `c18.dots` on the once-pruned cloud; Lean checkers `checkOwnConns` (each part carries exactly the
     connectors attached — by original point — to its retained points) and `checkPartition` (IN ∪ OUT of the second prune partition the
     connector ids of the once-pruned neuron); the `point` column must address each connector's own point.
The model functions for skeletons (`c18.tree / prune / nlist / dict / list`) are the `…As` functions evaluated on the *shape*
of `in_volume` extracted from the current source (Gen/InVolume.lean): they keep predicting navis when the source deviates,
while the oracles (exact membership decided by Lean) fail.
Oracles (the property on navis' own output, decided by the Lean checkers proved sound in Props/C18):
 * the mask is the exact membership (`checkMask`);
 * IN / OUT partition the nodes / points / vertices (`checkPartition`), each part carries exactly its own connectors
   (`checkOwnConns`), the rewritten `point` / `vertex_id` columns address the same point / vertex;
 * every volume of a dict / list is answered as if it were alone (compared with navis' own single-volume answers);
 * `snap` returns an id / row that is a true argmin with its exact distance (`checkNearest`).
The ray caster (ncollpyde) is external: its exactness is TESTED here against the exact model, not proved."""
import json, math, warnings, itertools
import numpy as np
import pandas as pd

warnings.filterwarnings('ignore')
import trimesh
import navis
from navis.intersection import intersect as _isect

navis.config.pbar_hide = True
navis.set_loggers('ERROR')

PERMS = ['xyz', 'xzy', 'yxz', 'yzx', 'zxy', 'zyx']
IDENT_POSE = [1, 1, 1, 0, 0, 0, 'xyz', 0, 0, 0]

SIG_MESH_STRADDLE = 'in_volume/MeshNeuron/straddling-face/vertices-in-neither-part'


# ---------------------------------------------------------------------------------------------------------------
# geometry: CSG → voxels → watertight mesh → pose
# ---------------------------------------------------------------------------------------------------------------
def voxelise(csg):
    """Set of unit voxels (lower corners) of the solid: the last box containing the cell decides."""
    if not csg:
        return set()
    lo = [min(b[1 + a] for b in csg) for a in range(3)]
    hi = [max(b[4 + a] for b in csg) for a in range(3)]
    vox = set()
    for i in range(lo[0], hi[0]):
        for j in range(lo[1], hi[1]):
            for k in range(lo[2], hi[2]):
                val = False
                for b in csg:
                    if b[1] <= i < b[4] and b[2] <= j < b[5] and b[3] <= k < b[6]:
                        val = bool(b[0])
                if val:
                    vox.add((i, j, k))
    return vox


def _connected6(cells):
    cells = set(cells)
    if not cells:
        return True
    seen, todo = set(), [next(iter(cells))]
    while todo:
        c = todo.pop()
        if c in seen:
            continue
        seen.add(c)
        for a in range(3):
            for s in (-1, 1):
                n = list(c); n[a] += s; n = tuple(n)
                if n in cells and n not in seen:
                    todo.append(n)
    return len(seen) == len(cells)


def is_manifold(vox):
    """The boundary surface of the voxel set is a 2-manifold iff around every lattice vertex both the filled and the
    empty cells of the 2x2x2 block are face-connected (rules out edge-only and corner-only contacts, of the solid and of
    its complement)."""
    verts = set()
    for (i, j, k) in vox:
        for d in itertools.product((0, 1), repeat=3):
            verts.add((i + d[0], j + d[1], k + d[2]))
    for (x, y, z) in verts:
        block = [(x - 1 + d[0], y - 1 + d[1], z - 1 + d[2]) for d in itertools.product((0, 1), repeat=3)]
        f = [c for c in block if c in vox]
        e = [c for c in block if c not in vox]
        if not _connected6(f) or not _connected6(e):
            return False
    return True


def voxel_surface(vox, rnd):
    """Boundary of a voxel set: for every voxel face not shared with another voxel two outward-wound triangles
    (random diagonal)."""
    verts, faces = {}, []

    def vid(p):
        if p not in verts:
            verts[p] = len(verts)
        return verts[p]

    for c in sorted(vox):
        for ax in range(3):
            for sg in (-1, 1):
                nb = list(c); nb[ax] += sg
                if tuple(nb) in vox:
                    continue
                u, v = (ax + 1) % 3, (ax + 2) % 3
                co = c[ax] + (1 if sg > 0 else 0)

                def P(du, dv):
                    p = [0, 0, 0]; p[ax] = co; p[u] = c[u] + du; p[v] = c[v] + dv
                    return tuple(p)
                q = [P(0, 0), P(1, 0), P(1, 1), P(0, 1)]     # counter-clockwise seen from +ax
                if sg < 0:
                    q = q[::-1]
                i = [vid(p) for p in q]
                if rnd.random() < 0.5:
                    faces += [[i[0], i[1], i[2]], [i[0], i[2], i[3]]]
                else:
                    faces += [[i[1], i[2], i[3]], [i[1], i[3], i[0]]]
    V = np.array(sorted(verts, key=verts.get), dtype=np.int64).reshape(-1, 3)
    return V, np.array(faces, dtype=np.int64).reshape(-1, 3)


def pose_parts(pose):
    s = np.array(pose[0:3], dtype=np.int64)
    f = np.array([-1 if x else 1 for x in pose[3:6]], dtype=np.int64)
    idx = ['xyz'.index(c) for c in pose[6]]
    t = np.array(pose[7:10], dtype=np.int64)
    return s, f, idx, t


def pose_verts(pose, V):
    s, f, idx, t = pose_parts(pose)
    W = V * (s * f)
    return W[:, idx] + t


def pose_det_sign(pose):
    s, f, idx, t = pose_parts(pose)
    inv = sum(1 for a in range(3) for b in range(a + 1, 3) if idx[a] > idx[b])
    return int(np.prod(f)) * (-1 if inv % 2 else 1)


def pose_str(pose):
    return ','.join(str(x) for x in pose)


def solid_str(geom):
    if geom.get('shape') == 'polytope':
        return 'H:' + ';'.join(','.join(str(x) for x in h) for h in polytope_parts(geom['verts'])[2])
    body = ';'.join(('+' if b[0] else '-') + ','.join(str(x) for x in b[1:]) for b in geom['csg'])
    if geom.get('pose') and list(geom['pose']) != IDENT_POSE:
        return f"P:{pose_str(geom['pose'])}@{body}"
    return body


_VOLCACHE = {}


class BadMesh(Exception):
    pass


def build_volume(geom, name='vol'):
    """navis.Volume of the posed solid + bookkeeping.  Raises BadMesh if the generated surface is not a proper volume
    (a generator problem, never a navis problem)."""
    if geom.get('shape') == 'polytope':
        try:
            V, F, planes = polytope_parts(geom['verts'])
        except BadMesh:
            raise
        except Exception as e:
            raise BadMesh(f'hull failed: {e}')
        tm = trimesh.Trimesh(V, F, process=False)
        if not (tm.is_watertight and tm.is_winding_consistent and tm.volume > 0):
            raise BadMesh('polytope mesh is not a volume')
        return navis.Volume(V.copy(), F.copy(), name=name), []
    key = json.dumps([geom['csg'], geom.get('pose'), geom.get('tri', 0)])
    if key not in _VOLCACHE:
        import random as _r
        vox = voxelise(geom['csg'])
        if not vox or not is_manifold(vox):
            raise BadMesh('empty or non-manifold voxel set')
        V, F = voxel_surface(vox, _r.Random(geom.get('tri', 0)))
        pose = geom.get('pose') or IDENT_POSE
        W = pose_verts(pose, V)
        if pose_det_sign(pose) < 0:
            F = F[:, ::-1]
        tm = trimesh.Trimesh(W.astype(float), F, process=False)
        det = int(np.prod(pose[0:3]))
        if not (tm.is_watertight and tm.is_winding_consistent and abs(tm.volume - len(vox) * det) < 1e-6):
            raise BadMesh(f'watertight={tm.is_watertight} winding={tm.is_winding_consistent} vol={tm.volume} '
                          f'expected={len(vox) * det}')
        _VOLCACHE[key] = (W.astype(float), F.copy(), sorted(vox))
        if len(_VOLCACHE) > 400:
            _VOLCACHE.pop(next(iter(_VOLCACHE)))
    W, F, vox = _VOLCACHE[key]
    return navis.Volume(W.copy(), F.copy(), name=name), vox


def posed_bbox2(geom):
    """Bounding box of the posed solid in doubled coordinates."""
    if geom.get('shape') == 'polytope':
        V = np.array(geom['verts'], dtype=np.int64)
        return 2 * V.min(axis=0), 2 * V.max(axis=0)
    csg = geom['csg']
    lo = [min(b[1 + a] for b in csg) for a in range(3)]
    hi = [max(b[4 + a] for b in csg) for a in range(3)]
    C = pose_verts(geom.get('pose') or IDENT_POSE, np.array([lo, hi], dtype=np.int64))
    return 2 * C.min(axis=0), 2 * C.max(axis=0)


def point_in_cell2(geom, cell, rnd):
    """A random half-integer point (doubled coordinates) of the posed image of unit cell `cell`."""
    s, f, idx, t = pose_parts(geom.get('pose') or IDENT_POSE)
    q = []
    for a in range(3):
        m = rnd.randrange(int(s[a]))
        q.append(int(f[a]) * (2 * int(s[a]) * cell[a] + 2 * m + 1))
    return [q[idx[0]] + 2 * int(t[0]), q[idx[1]] + 2 * int(t[1]), q[idx[2]] + 2 * int(t[2])]


def query_points2(geom, vox, rnd, n):
    """Half-integer query points (doubled, all odd): about half inside cells of the solid, the rest in and around the
    bounding box, a few far away."""
    lo, hi = posed_bbox2(geom)
    if geom.get('shape') == 'polytope':
        planes = polytope_parts(geom['verts'])[2]
        pts = []
        for _ in range(20 * n):
            if len(pts) >= n:
                break
            m = 5 if rnd.random() < 0.8 else 40
            p = [rnd.randrange(int(lo[a]) - m, int(hi[a]) + m, 2) | 1 for a in range(3)]
            if all(h[0] * p[0] + h[1] * p[1] + h[2] * p[2] != 2 * h[3] for h in planes):     # never on a face plane
                pts.append(p)
        return pts
    pts = []
    for _ in range(n):
        r = rnd.random()
        if r < 0.45 and vox:
            pts.append(point_in_cell2(geom, rnd.choice(vox), rnd))
        elif r < 0.93:
            pts.append([rnd.randrange(int(lo[a]) - 5, int(hi[a]) + 5, 2) | 1 for a in range(3)])
        else:
            pts.append([(rnd.randrange(-400, 400) * 2) | 1 for a in range(3)])
    return pts


def pts_str(pts):
    return ';'.join(f'{p[0]},{p[1]},{p[2]}' for p in pts)


def half(pts2):
    return np.array(pts2, dtype=float).reshape(-1, 3) / 2.0



# --- convex polytopes in general position (exact integer face planes) --------------------------------------------
def _cross(u, v):
    return [u[1] * v[2] - u[2] * v[1], u[2] * v[0] - u[0] * v[2], u[0] * v[1] - u[1] * v[0]]


_POLYCACHE = {}


def polytope_parts(verts):
    key = json.dumps(verts)
    if key not in _POLYCACHE:
        if len(_POLYCACHE) > 300:
            _POLYCACHE.clear()
        _POLYCACHE[key] = _polytope_parts(verts)
    V, F, planes = _POLYCACHE[key]
    return V.copy(), F.copy(), list(planes)


def _polytope_parts(verts):
    """Hull of integer points: (vertex array, outward-wound triangles, de-duplicated integer half-spaces [nx,ny,nz,d] with
    n·x < d inside).  Everything exact in Python integers except the hull combinatorics (scipy/Qhull), which trimesh
    re-verifies."""
    from scipy.spatial import ConvexHull
    P = np.array(verts, dtype=np.int64)
    hull = ConvexHull(P.astype(float))
    hv = sorted(int(i) for i in hull.vertices)
    remap = {old: new for new, old in enumerate(hv)}
    V = [[int(x) for x in P[i]] for i in hv]
    N = len(V)
    tot = [sum(v[a] for v in V) for a in range(3)]
    faces, planes = [], set()
    for simp in hull.simplices:
        i, j, k = (remap[int(t)] for t in simp)
        a, b, c = V[i], V[j], V[k]
        n = _cross([b[t] - a[t] for t in range(3)], [c[t] - a[t] for t in range(3)])
        side = sum(n[t] * (N * a[t] - tot[t]) for t in range(3))
        if side == 0 or n == [0, 0, 0]:
            raise BadMesh('degenerate polytope facet')
        if side < 0:
            n = [-x for x in n]
            j, k = k, j
        g = math.gcd(math.gcd(abs(n[0]), abs(n[1])), abs(n[2]))
        n = [x // g for x in n]
        planes.add((n[0], n[1], n[2], sum(n[t] * a[t] for t in range(3))))
        faces.append([i, j, k])
    return np.array(V, dtype=float), np.array(faces, dtype=np.int64), sorted(planes)


def gen_polytope(rnd, big=False):
    R = rnd.choice((2, 3, 4, 6) if big else (2, 3, 4))
    off = [rnd.randrange(-30, 31) for _ in range(3)] if rnd.random() < 0.6 else [0, 0, 0]
    for _ in range(100):
        k = rnd.randrange(4, 13)
        pts = distinct_points([[rnd.randrange(-R, R + 1) + off[a] for a in range(3)] for _ in range(k)])
        if len(pts) < 4:
            continue
        try:
            V, F, planes = polytope_parts(pts)
            tm = trimesh.Trimesh(V, F, process=False)
            if tm.is_watertight and tm.is_winding_consistent and tm.volume > 0.1:
                return {'shape': 'polytope', 'verts': [[int(x) for x in v] for v in V], 'pose': None, 'csg': None}
        except Exception:
            continue
    raise RuntimeError('no polytope generated')


def on_surface(geom, p2):
    """The (doubled) point lies on the surface of the volume — only possible for polytopes (a face plane through it) or for
    non-half-integer points of a box complex; such points are outside the property's quantifier."""
    if geom.get('shape') == 'polytope':
        return any(h[0] * p2[0] + h[1] * p2[1] + h[2] * p2[2] == 2 * h[3] for h in polytope_parts(geom['verts'])[2])
    return any(int(v) % 2 == 0 for v in p2)


def off_surfaces(geoms, pts):
    return [p for p in pts if not any(on_surface(g, p) for g in geoms)]


def surface_guard(ctx, geoms, pts):
    """True (and the case is skipped) if some query point / node / vertex of a hand-made or shrunk case sits on a surface."""
    if any(on_surface(g, p) for g in geoms for p in pts):
        ctx.count('skipped_point_on_surface')
        return True
    return False

# --- shape generators ------------------------------------------------------------------------------------------
def _rbox(rnd, lo, hi, minsize=1):
    b = []
    for a in range(3):
        x0 = rnd.randrange(lo, hi - minsize + 1)
        x1 = rnd.randrange(x0 + minsize, hi + 1)
        b.append((x0, x1))
    return [b[0][0], b[1][0], b[2][0], b[0][1], b[1][1], b[2][1]]


def gen_csg(rnd, shape, big=False):
    G = 6 if big else 4
    if shape == 'box':
        return [[1] + _rbox(rnd, 0, G)]
    if shape == 'L':
        a, b, h = rnd.randrange(2, G + 1), rnd.randrange(2, G + 1), rnd.randrange(1, 3)
        w1, w2 = rnd.randrange(1, a), rnd.randrange(1, b)
        return [[1, 0, 0, 0, a, w2, h], [1, 0, 0, 0, w1, b, h]]
    if shape == 'U':
        a, b, h = rnd.randrange(3, G + 2), rnd.randrange(2, G + 1), rnd.randrange(1, 3)
        w = rnd.randrange(1, b)
        return [[1, 0, 0, 0, a, w, h], [1, 0, 0, 0, 1, b, h], [1, a - 1, 0, 0, a, b, h]]
    if shape == 'torus':
        a, b, h = rnd.randrange(3, G + 2), rnd.randrange(3, G + 2), rnd.randrange(1, 3)
        x0, y0 = rnd.randrange(1, a - 1), rnd.randrange(1, b - 1)
        x1, y1 = rnd.randrange(x0 + 1, a), rnd.randrange(y0 + 1, b)
        return [[1, 0, 0, 0, a, b, h], [0, x0, y0, 0, x1, y1, h]]
    if shape == 'shell':
        d = [rnd.randrange(3, G + 2) for _ in range(3)]
        c = []
        for a in range(3):
            x0 = rnd.randrange(1, d[a] - 1); x1 = rnd.randrange(x0 + 1, d[a])
            c.append((x0, x1))
        return [[1, 0, 0, 0] + d, [0, c[0][0], c[1][0], c[2][0], c[0][1], c[1][1], c[2][1]]]
    if shape == 'nested':
        d = [rnd.randrange(5, 7) for _ in range(3)]
        inner = [1, 2, 2, 2, d[0] - 2, d[1] - 2, d[2] - 2]
        if rnd.random() < 0.5 and min(d) >= 5:
            inner = [1, 2, 2, 2, rnd.randrange(3, d[0] - 1), rnd.randrange(3, d[1] - 1), rnd.randrange(3, d[2] - 1)]
        return [[1, 0, 0, 0] + d, [0, 1, 1, 1, d[0] - 1, d[1] - 1, d[2] - 1], inner]
    if shape == 'disjoint':
        b1 = _rbox(rnd, 0, 3)
        gap = rnd.randrange(1, 4)
        b2 = _rbox(rnd, 0, 3)
        ax = rnd.randrange(3)
        sh = b1[3 + ax] + gap - b2[ax]
        b2[ax] += sh; b2[3 + ax] += sh
        return [[1] + b1, [1] + b2]
    if shape == 'grow':
        n = rnd.randrange(2, 14 if big else 9)
        vox = {(0, 0, 0)}
        while len(vox) < n:
            c = rnd.choice(sorted(vox)); a = rnd.randrange(3); s = rnd.choice((-1, 1))
            nb = list(c); nb[a] += s
            if all(-2 <= x <= 3 for x in nb):
                vox.add(tuple(nb))
        return [[1, i, j, k, i + 1, j + 1, k + 1] for (i, j, k) in sorted(vox)]
    if shape == 'csg':
        k = rnd.randrange(2, 5)
        out = [[1] + _rbox(rnd, 0, G + 1, 2)]
        for _ in range(k - 1):
            out.append([rnd.choice((0, 1, 1))] + _rbox(rnd, 0, G + 1))
        return out
    raise ValueError(shape)


SHAPES = ['box', 'L', 'U', 'torus', 'shell', 'nested', 'disjoint', 'grow', 'csg']
CONVEX = {'box', 'polytope'}
ALL_SHAPES = SHAPES + ['polytope']


def gen_pose(rnd, kind=None, minscale=1):
    kind = kind or rnd.choice(['ident', 'trans', 'flip', 'perm', 'scale', 'full', 'full', 'full'])
    pose = list(IDENT_POSE)
    if kind in ('trans', 'full'):
        m = rnd.choice((5, 30, 2000))
        pose[7:10] = [rnd.randrange(-m, m + 1) for _ in range(3)]
    if kind in ('flip', 'full'):
        pose[3:6] = [rnd.randrange(2) for _ in range(3)]
        if kind == 'flip' and not any(pose[3:6]):
            pose[3 + rnd.randrange(3)] = 1
    if kind in ('perm', 'full'):
        pose[6] = rnd.choice(PERMS[1:] if kind == 'perm' else PERMS)
    if kind in ('scale', 'full'):
        if rnd.random() < 0.5:
            k = rnd.choice((2, 3, 4)); pose[0:3] = [k, k, k]
        else:
            pose[0:3] = [rnd.choice((1, 2, 3, 5)) for _ in range(3)]
    pose[0:3] = [max(minscale, x) for x in pose[0:3]]
    return pose


def gen_geom(rnd, shape=None, big=False, pose_kind=None, minscale=1, poly=True):
    if shape == 'polytope' or (shape is None and poly and rnd.random() < 0.15):
        return gen_polytope(rnd, big)
    for _ in range(200):
        sh = shape or rnd.choice(SHAPES)
        csg = gen_csg(rnd, sh, big)
        vox = voxelise(csg)
        if vox and is_manifold(vox):
            return {'shape': sh, 'csg': csg, 'pose': gen_pose(rnd, pose_kind, minscale), 'tri': rnd.randrange(1 << 16)}
    raise RuntimeError('no manifold shape generated')


def geom_class(geom):
    if geom.get('shape') == 'polytope':
        return f"polytope/{len(geom['verts'])}v"
    p = geom.get('pose') or IDENT_POSE
    tags = []
    if p[0:3] != [1, 1, 1]:
        tags.append('scale')
    if any(p[3:6]):
        tags.append('flip')
    if p[6] != 'xyz':
        tags.append('perm')
    if p[7:10] != [0, 0, 0]:
        tags.append('trans')
    return geom.get('shape', '?') + '/' + ('+'.join(tags) or 'ident')


# ---------------------------------------------------------------------------------------------------------------
# small helpers
# ---------------------------------------------------------------------------------------------------------------
def ints(l):
    return ','.join(str(int(x)) for x in l)


def bits(mask):
    return ''.join('1' if bool(b) else '0' for b in mask)


def conn_ids(x):
    c = getattr(x, 'connectors', None)
    if c is None or len(c) == 0:
        return []
    return [int(v) for v in c.connector_id.values]


def _toint(v):
    try:
        return int(v)
    except (ValueError, TypeError):      # NaN from a failed re-indexing
        return -1


def is_int_list(s):
    return [int(x) for x in s.split(',') if x.strip() != '']


def safe(fn):
    try:
        return fn(), None
    except Exception as e:      # noqa
        return None, f'{type(e).__name__}: {str(e)[:160]}'


# ---------------------------------------------------------------------------------------------------------------
# (a) points
# ---------------------------------------------------------------------------------------------------------------
def run_points(ctx, case):
    geom = case['geom']
    try:
        vol, vox = build_volume(geom)
    except BadMesh as e:
        ctx.count('bad_mesh', str(e)[:40])
        return
    S = solid_str(geom)
    if surface_guard(ctx, [geom], case['pts']):
        return
    ctx.count('shape_pose', geom_class(geom))
    # the voxelisation the mesh was built from is the model's solid (every cell of the bounding box, one point each)
    if case.get('check_vox', True) and geom.get('shape') != 'polytope':
        csg = geom['csg']
        lo = [min(b[1 + a] for b in csg) - 1 for a in range(3)]
        hi = [max(b[4 + a] for b in csg) + 1 for a in range(3)]
        cells = [(i, j, k) for i in range(lo[0], hi[0]) for j in range(lo[1], hi[1]) for k in range(lo[2], hi[2])]
        import random as _r
        rr = _r.Random(1)
        cpts = [point_in_cell2(geom, c, rr) for c in cells]
        want = bits([c in set(vox) for c in cells])
        ctx.corr(want, ctx.ask(f'c18.mem {S} | {pts_str(cpts)}'), 'voxelisation of the CSG program == model membership at cell points', case)
    pts2 = case['pts']
    model = ctx.ask(f'c18.mem {S} | {pts_str(pts2)}')
    P = half(pts2)
    ctx.count('frac_inside', round(model.count('1') / max(1, len(model)), 1))
    variants = case.get('variants') or [['ncollpyde', None, 'ndarray', 'volume', False]]
    for backend, n_rays, inp, vkind, validate in variants:
        if backend == 'scipy' and geom.get('shape') not in CONVEX:
            continue
        x = P if inp == 'ndarray' else (pd.DataFrame(P, columns=['x', 'y', 'z']) if inp == 'frame' else P.tolist())
        v = vol if vkind == 'volume' else trimesh.Trimesh(np.asarray(vol.vertices), np.asarray(vol.faces), process=False)
        kw = {}
        if backend is not None:
            kw['backend'] = backend
        res, err = safe(lambda: navis.in_volume(x, v, n_rays=n_rays, validate=validate, **kw))
        tag = f'{backend}/n_rays={n_rays}/{inp}/{vkind}/validate={validate}'
        ctx.count('points_variant', f'{backend}/n_rays={n_rays}')
        if err:
            ctx.oracle(False, f'in_volume(points) raised [{tag}]: {err}', case)
            continue
        got = bits(res)
        ctx.corr(got, model, f'in_volume(points) mask vs exact membership [{tag}]', case)
        ok = ctx.ask(f'c18.chkmask {S} | {pts_str(pts2)} | {got}') == '1' if len(got) == len(pts2) else False
        ctx.oracle(ok, f'in_volume(points) is not the exact inside/outside mask [{tag}] got={got} exact={model}', case)
    if case.get('mode_out'):
        # documented behaviour: `mode` only applies to neurons; bare points always get the IN mask (model: inVolumePoints)
        res, err = safe(lambda: navis.in_volume(P, vol, mode='OUT'))
        ctx.corr(bits(res) if err is None else err, model, 'in_volume(points, mode=OUT) returns the plain mask', case)


# ---------------------------------------------------------------------------------------------------------------
# (b) neurons
# ---------------------------------------------------------------------------------------------------------------
def make_tree(nodes, conns, nid=1):
    ids = {n[0] for n in nodes}
    df = pd.DataFrame({'node_id': [int(n[0]) for n in nodes],
                       'parent_id': [int(n[1]) if n[1] in ids else -1 for n in nodes],
                       'x': [n[2] / 2 for n in nodes], 'y': [n[3] / 2 for n in nodes], 'z': [n[4] / 2 for n in nodes],
                       'radius': 0.01})
    df = df.astype({'node_id': np.int64, 'parent_id': np.int64})
    t = navis.TreeNeuron(df, id=nid, name=f'n{nid}')
    if conns is not None:
        t.connectors = pd.DataFrame({'connector_id': np.array([c[0] for c in conns], dtype=np.int64),
                                     'node_id': np.array([c[1] for c in conns], dtype=np.int64),
                                     'x': [float(c[2]) for c in conns], 'y': [float(c[3]) for c in conns],
                                     'z': [float(c[4]) for c in conns],
                                     'type': np.array([c[5] for c in conns], dtype=np.int64)})
    return t


def nodes_str(nodes):
    return ';'.join(f'{n[0]}:{n[2]},{n[3]},{n[4]}' for n in nodes)


def tconns_str(conns):
    return ';'.join(f'{c[0]}:{c[1]}' for c in (conns or []))


def run_tree(ctx, case):
    geom = case['geom']
    try:
        vol, vox = build_volume(geom)
    except BadMesh as e:
        ctx.count('bad_mesh', str(e)[:40]); return
    S = solid_str(geom)
    nodes, conns = case['nodes'], case['conns']
    if surface_guard(ctx, [geom], [n[2:5] for n in nodes]):
        return
    ctx.count('tree_shape', geom_class(geom).split('/')[0])
    all_ids = [n[0] for n in nodes]
    # hypothesis `Attached` of Props/C18.each_carries_own_connectors: every connector sits on an existing node (the generators
    # guarantee it; a hand-made / shrunk case outside it is only compared with the model, which follows the code there)
    attached = all(c[1] in set(all_ids) for c in (conns or []))
    if not attached:
        ctx.count('tree_dangling_connectors')
    res = {}
    exact = ctx.ask(f'c18.mem {S} | {pts_str([n[2:5] for n in nodes])}')       # Lean `mem` at every node
    for mode in ('IN', 'OUT'):
        calls = case.get('calls') or ['in_volume']
        for call in calls:
            # the model as the source is shaped now (Gen/InVolume.lean): in_volume / prune_by_volume / NeuronList loop
            cmd = {'prune_by_volume': 'prune', 'prune_inplace': 'prune', 'neuronlist': 'nlist'}.get(call, 'tree')
            model = ctx.ask(f'c18.{cmd} {mode} | {S} | {nodes_str(nodes)} | {tconns_str(conns)}')
            t = make_tree(nodes, conns)
            if call == 'in_volume':
                fn = lambda: navis.in_volume(t, vol, mode=mode, n_rays=case.get('n_rays'))
            elif call == 'prune_by_volume':
                fn = lambda: t.prune_by_volume(vol, mode=mode)
            elif call == 'prune_inplace':
                def fn():
                    t.prune_by_volume(vol, mode=mode, inplace=True)
                    return t
            elif call == 'in_volume_inplace':
                def fn():
                    navis.in_volume(t, vol, mode=mode, inplace=True)
                    return t
            elif call == 'neuronlist':
                fn = lambda: navis.in_volume(navis.NeuronList([t]), vol, mode=mode)[0]
            r, err = safe(fn)
            ctx.count('tree_call', call)
            if err:
                ctx.oracle(False, f'{call}(TreeNeuron, mode={mode}) raised: {err}', case)
                continue
            kept = [int(v) for v in r.nodes.node_id.values]
            kc = conn_ids(r)
            ctx.corr(f'{ints(sorted(kept))}|{ints(sorted(kc))}', _sort_tree(model),
                     f'{call}(TreeNeuron, mode={mode}) kept nodes|connectors vs model', case)
            want = [i for i, b in zip(all_ids, exact) if (b == '1') == (mode == 'IN')]
            ctx.oracle(sorted(kept) == sorted(want), f'{call}(TreeNeuron, mode={mode}) keeps nodes {sorted(kept)}; the nodes '
                                                     f'{mode.lower()}side the volume are {sorted(want)}', case)
            ok = not attached or ctx.ask(f'c18.chkconn {tconns_str(conns)} | {ints(kept)} | {ints(kc)}') == '1'
            ctx.oracle(ok, f'{call}(TreeNeuron, mode={mode}): kept connectors {sorted(kc)} are not exactly those attached '
                           f'to the kept nodes {sorted(kept)}', case)
            if call == calls[0]:
                res[mode] = (kept, kc)
    if 'IN' in res and 'OUT' in res:
        ok = ctx.ask(f"c18.chkpart {ints(all_ids)} | {ints(res['IN'][0])} | {ints(res['OUT'][0])}") == '1'
        ctx.oracle(ok, f"TreeNeuron: mode IN keeps {sorted(res['IN'][0])}, mode OUT keeps {sorted(res['OUT'][0])}: "
                       f"not a partition of the nodes {sorted(all_ids)}", case)
        call_c = [c[0] for c in (conns or [])]
        ok = not attached or ctx.ask(f"c18.chkpart {ints(call_c)} | {ints(res['IN'][1])} | {ints(res['OUT'][1])}") == '1'
        ctx.oracle(ok, f"TreeNeuron: connectors of IN {sorted(res['IN'][1])} and OUT {sorted(res['OUT'][1])} do not "
                       f"partition the connectors {sorted(call_c)}", case)
        ctx.count('tree_split', 'both' if res['IN'][0] and res['OUT'][0] else ('all-in' if res['IN'][0] else 'all-out'))


def _sort_tree(model):
    a, b = model.split('|')
    return f'{ints(sorted(is_int_list(a)))}|{ints(sorted(is_int_list(b)))}'


def pconns_str(conns):
    return ';'.join(f'{c[0]}:{c[1]},{c[2]},{c[3]}' for c in (conns or []))


def make_dots(pts2, conns):
    P = half(pts2)
    dp = navis.Dotprops(P, k=None, vect=np.tile([1., 0., 0.], (len(P), 1)), alpha=np.ones(len(P)), id=3)
    if conns is not None:
        dp.connectors = pd.DataFrame({'connector_id': np.array([c[0] for c in conns], dtype=np.int64),
                                      'x': [c[1] / 2 for c in conns], 'y': [c[2] / 2 for c in conns],
                                      'z': [c[3] / 2 for c in conns], 'type': 0})
    return dp


def run_dots(ctx, case):
    geom = case['geom']
    try:
        vol, vox = build_volume(geom)
    except BadMesh as e:
        ctx.count('bad_mesh', str(e)[:40]); return
    S = solid_str(geom)
    pts2, conns = case['pts'], case['conns']
    if surface_guard(ctx, [geom], pts2):
        return
    index = {tuple(p): i for i, p in enumerate(pts2)}
    res = {}
    for mode in ('IN', 'OUT'):
        model = ctx.ask(f'c18.dots {mode} | {S} | {pts_str(pts2)} | {pconns_str(conns)}')
        dp = make_dots(pts2, conns)
        call = case.get('call', 'in_volume')
        if call == 'in_volume':
            r, err = safe(lambda: navis.in_volume(dp, vol, mode=mode))
        elif call == 'neuronlist':
            r, err = safe(lambda: navis.in_volume(navis.NeuronList([dp]), vol, mode=mode)[0])
        elif call == 'inplace':         # (only TreeNeuron has `prune_by_volume`)
            def fn():
                navis.in_volume(dp, vol, mode=mode, inplace=True)
                return dp
            r, err = safe(fn)
        else:
            raise ValueError(call)
        ctx.count('dots_call', call)
        if err:
            ctx.oracle(False, f'{call}(Dotprops, mode={mode}) raised: {err}', case)
            continue
        kept = [index.get(tuple(int(round(2 * v)) for v in p), -1) for p in np.asarray(r.points).reshape(-1, 3)]
        if r.has_connectors:
            c = r.connectors
            pc = [_toint(v) for v in c['point'].values] if 'point' in c.columns else None
            kc = [int(v) for v in c.connector_id.values]
        else:
            pc, kc = [], []
        if pc is None:      # nothing was pruned: the column is only created when subsetting
            impl = f"{ints(kept)}|{ints(kc)}"
            mm = model.split('|')
            model_c = f"{mm[0]}|{ints([int(x.split(':')[0]) for x in mm[1].split(',') if x])}"
            ctx.corr(impl, model_c, f'{call}(Dotprops, mode={mode}) kept points|connectors vs model (nothing pruned)', case)
        else:
            impl = f"{ints(kept)}|{','.join(f'{a}:{b}' for a, b in zip(kc, pc))}"
            ctx.corr(impl, model, f'{call}(Dotprops, mode={mode}) kept points|connector:point vs model', case)
            # the rewritten `point` column addresses the connector's own (nearest) point in the pruned cloud
            att = {c[0]: _nearest_unique(pts2, c[1:4]) for c in (conns or [])}
            ok = all(0 <= j < len(kept) and kept[j] == att[cid] for cid, j in zip(kc, pc))
            ctx.oracle(ok, f'{call}(Dotprops, mode={mode}): `point` column {list(zip(kc, pc))} does not address the '
                           f'nearest points {att} among kept rows {kept}', case)
        att = {c[0]: _nearest_unique(pts2, c[1:4]) for c in (conns or [])}
        own = sorted(cid for cid, a in att.items() if a in set(kept))
        ctx.oracle(sorted(kc) == own, f'{call}(Dotprops, mode={mode}): kept connectors {sorted(kc)} != connectors whose '
                                      f'nearest point is kept {own}', case)
        res[mode] = (kept, kc)
    if len(res) == 2:
        ok = ctx.ask(f"c18.chkpart {ints(range(len(pts2)))} | {ints(res['IN'][0])} | {ints(res['OUT'][0])}") == '1'
        ctx.oracle(ok, f"Dotprops: IN keeps rows {res['IN'][0]}, OUT keeps rows {res['OUT'][0]}: not a partition of "
                       f"0..{len(pts2) - 1}", case)
        allc = [c[0] for c in (conns or [])]
        ok = ctx.ask(f"c18.chkpart {ints(allc)} | {ints(res['IN'][1])} | {ints(res['OUT'][1])}") == '1'
        ctx.oracle(ok, f"Dotprops: connectors of IN {res['IN'][1]} and OUT {res['OUT'][1]} do not partition {allc}", case)


def _d2(a, b):
    return sum((int(x) - int(y)) ** 2 for x, y in zip(a, b))


def _nearest_unique(data, p):
    ds = [_d2(p, q) for q in data]
    m = min(ds)
    assert ds.count(m) == 1, 'generator must produce unique nearest neighbours'
    return ds.index(m)


def make_mesh(verts2, faces, conns):
    m = navis.MeshNeuron((half(verts2), np.array(faces, dtype=np.int64).reshape(-1, 3)), id=5)
    if conns is not None:
        m.connectors = pd.DataFrame({'connector_id': np.array([c[0] for c in conns], dtype=np.int64),
                                     'x': [c[1] / 2 for c in conns], 'y': [c[2] / 2 for c in conns],
                                     'z': [c[3] / 2 for c in conns], 'type': 0})
    return m


def run_mesh(ctx, case):
    geom = case['geom']
    try:
        vol, vox = build_volume(geom)
    except BadMesh as e:
        ctx.count('bad_mesh', str(e)[:40]); return
    S = solid_str(geom)
    conns = case['conns']
    if surface_guard(ctx, [geom], case['verts']):
        return
    m0 = make_mesh(case['verts'], case['faces'], conns)
    # what navis actually holds after trimesh processing is what the model sees
    verts2 = [[int(round(2 * v)) for v in p] for p in np.asarray(m0.vertices)]
    faces = [[int(a) for a in f] for f in np.asarray(m0.faces)]
    index = {tuple(p): i for i, p in enumerate(verts2)}
    if len(index) != len(verts2) or not verts2:
        ctx.count('mesh_skipped', 'duplicate/empty vertices'); return
    att = {c[0]: _nearest_unique(verts2, c[1:4]) for c in (conns or [])}
    faces_s = ';'.join(f'{a},{b},{c}' for a, b, c in faces)
    res, straddle = {}, None
    for mode in ('IN', 'OUT'):
        model = ctx.ask(f'c18.mesh {mode} | {S} | {pts_str(verts2)} | {faces_s} | {pconns_str(conns)}')
        m_kept, m_subset, m_conns, m_nf, m_str = model.split('|')
        straddle = m_str == '1'
        m = make_mesh(case['verts'], case['faces'], conns)
        call = case.get('call', 'in_volume')
        if call == 'in_volume':
            r, err = safe(lambda: navis.in_volume(m, vol, mode=mode))
        elif call == 'neuronlist':
            r, err = safe(lambda: navis.in_volume(navis.NeuronList([m]), vol, mode=mode)[0])
        elif call == 'inplace':         # (only TreeNeuron has `prune_by_volume`)
            def fn():
                navis.in_volume(m, vol, mode=mode, inplace=True)
                return m
            r, err = safe(fn)
        else:
            raise ValueError(call)
        ctx.count('mesh_call', call)
        if err:
            ctx.oracle(False, f'{call}(MeshNeuron, mode={mode}) raised: {err}', case)
            continue
        rv = np.asarray(r.vertices).reshape(-1, 3)
        kept = [index.get(tuple(int(round(2 * v)) for v in p), -1) for p in rv]
        nf = len(np.asarray(r.faces).reshape(-1, 3))
        if r.has_connectors:
            c = r.connectors
            kc = [int(v) for v in c.connector_id.values]
            vid = [_toint(v) for v in c['vertex_id'].values] if 'vertex_id' in c.columns else None
        else:
            kc, vid = [], []
        if vid is None:
            impl = f'{ints(kept)}|{ints(kc)}|{nf}'
            mod = f"{m_kept}|{ints([int(x.split(':')[0]) for x in m_conns.split(',') if x])}|{m_nf}"
            ctx.corr(impl, mod, f'{call}(MeshNeuron, mode={mode}) vertices|connectors|#faces vs model (nothing pruned)', case)
        else:
            impl = f"{ints(kept)}|{','.join(f'{a}:{b}' for a, b in zip(kc, vid))}|{nf}"
            ctx.corr(impl, f'{m_kept}|{m_conns}|{m_nf}',
                     f'{call}(MeshNeuron, mode={mode}) vertices|connector:vertex_id|#faces vs model', case)
            ok = all(0 <= j < len(kept) and kept[j] == att[cid] for cid, j in zip(kc, vid))
            ctx.oracle(ok, f'{call}(MeshNeuron, mode={mode}): `vertex_id` {list(zip(kc, vid))} does not address the '
                           f'connectors\' own vertices {att} among kept vertices {kept}', case)
        own = sorted(cid for cid, a in att.items() if a in set(kept))
        ctx.oracle(sorted(kc) == own, f'{call}(MeshNeuron, mode={mode}): kept connectors {sorted(kc)} != connectors whose '
                                      f'nearest vertex survives in the pruned mesh {own}', case)
        res[mode] = (kept, kc)
    ctx.count('mesh_class', 'straddle' if straddle else 'no-straddle')
    if len(res) == 2:
        ok = ctx.ask(f"c18.chkpart {ints(range(len(verts2)))} | {ints(res['IN'][0])} | {ints(res['OUT'][0])}") == '1'
        lost = sorted(set(range(len(verts2))) - set(res['IN'][0]) - set(res['OUT'][0]))
        ctx.oracle(ok, f"MeshNeuron: IN keeps vertices {res['IN'][0]}, OUT keeps {res['OUT'][0]}: not a partition of "
                       f"0..{len(verts2) - 1} (in neither part: {lost})", case,
                   signature=SIG_MESH_STRADDLE if straddle else None)
        allc = [c[0] for c in (conns or [])]
        ok = ctx.ask(f"c18.chkpart {ints(allc)} | {ints(res['IN'][1])} | {ints(res['OUT'][1])}") == '1'
        ctx.oracle(ok, f"MeshNeuron: connectors of IN {res['IN'][1]} and OUT {res['OUT'][1]} do not partition {allc}", case,
                   signature=SIG_MESH_STRADDLE if straddle else None)


# ---------------------------------------------------------------------------------------------------------------
# (c) several volumes, intersection matrix
# ---------------------------------------------------------------------------------------------------------------
def vols_str(named):
    return '/'.join(f'{k}={solid_str(g)}' for k, g in named)


def run_multi(ctx, case):
    named = [(k, g) for k, g in case['vols']]
    try:
        built = [(k, build_volume(g, name=k)[0]) for k, g in named]
    except BadMesh as e:
        ctx.count('bad_mesh', str(e)[:40]); return
    how = case['how']           # 'dict' | 'list'
    if surface_guard(ctx, [g for _, g in named], case['pts'] if case['target'] == 'points' else [n[2:5] for n in case['nodes']]):
        return
    names = [k for k, _ in named]
    dup = len(set(names)) != len(names)
    ctx.count('multi', f"{how}/{len(named)}/{case['target']}" + ('/dup-names' if dup else ''))
    container = (lambda: {k: v for k, v in built}) if how == 'dict' else (lambda: [v for _, v in built])
    if how == 'dict' and dup:
        return
    if case['target'] == 'points':
        pts2 = case['pts']
        P = half(pts2)
        r, err = safe(lambda: navis.in_volume(P, container()))
        if dup:
            ctx.corr('ERR:dup' if err and 'Duplicate' in err else f'no error ({err})', 'ERR:dup',
                     'list of volumes with a duplicated name is refused', case)
            return
        if err:
            ctx.oracle(False, f'in_volume(points, {how} of volumes) raised: {err}', case); return
        model = ctx.ask(f'c18.dictpts {vols_str(named)} | {pts_str(pts2)}')
        impl = '/'.join(f'{k}:{bits(r[k])}' for k in r)
        ctx.corr(sorted(impl.split('/')), sorted(model.split('/')), f'in_volume(points, {how} of volumes) vs model', case)
        ctx.oracle(sorted(r.keys()) == sorted(names), f'in_volume(points, {how}): keys {sorted(r.keys())} != volume names '
                                                      f'{sorted(names)}', case)
        for k, v in built:
            single = bits(navis.in_volume(P, v))
            ctx.oracle(k in r and bits(r[k]) == single,
                       f'in_volume(points, {how} of {len(built)} volumes)[{k!r}] = {bits(r[k]) if k in r else None} differs '
                       f'from the single-volume answer {single}', case)
        return
    nodes, conns = case['nodes'], case['conns']
    for mode in case.get('modes', ['IN', 'OUT']):
        t = make_tree(nodes, conns)
        r, err = safe(lambda: navis.in_volume(t, container(), mode=mode))
        if dup:
            ctx.corr('ERR:dup' if err and 'Duplicate' in err else f'no error ({err})',
                     ctx.ask(f"c18.list {mode} | {vols_str(named)} | {nodes_str(nodes)} | {tconns_str(conns)}"),
                     'list of volumes with a duplicated name is refused', case)
            continue
        if err:
            ctx.oracle(False, f'in_volume(TreeNeuron, {how} of volumes, mode={mode}) raised: {err}', case); continue
        model = ctx.ask(f"c18.{how} {mode} | {vols_str(named)} | {nodes_str(nodes)} | {tconns_str(conns)}")

        def canon(ids, cids):
            return f'{ints(sorted(ids))}:{ints(sorted(cids))}'
        impl = sorted(f"{k}:{canon(r[k].nodes.node_id.values, conn_ids(r[k]))}" for k in r)
        mod = sorted(f"{e.split(':')[0]}:{canon(is_int_list(e.split(':')[1]), is_int_list(e.split(':')[2]))}"
                     for e in model.split('/') if e)
        ctx.corr(impl, mod, f'in_volume(TreeNeuron, {how} of volumes, mode={mode}) vs model', case)
        ctx.oracle(sorted(r.keys()) == sorted(names), f'in_volume(neuron, {how}, mode={mode}): keys {sorted(r.keys())} != '
                                                      f'volume names {sorted(names)}', case)
        for k, v in built:
            s = navis.in_volume(make_tree(nodes, conns), v, mode=mode)
            single = canon(s.nodes.node_id.values, conn_ids(s))
            got = canon(r[k].nodes.node_id.values, conn_ids(r[k])) if k in r else None
            ctx.oracle(got == single, f'in_volume(neuron, {how} of {len(built)} volumes, mode={mode})[{k!r}] = {got} differs '
                                      f'from the single-volume answer {single}', case)
        # the caller's neuron is not consumed by the loop (every volume sees the full neuron)
        ctx.oracle(len(t.nodes) == len(nodes), 'in_volume with several volumes modified the input neuron', case)


SIG_IMAT_DUP = 'intersection_matrix/list-of-volumes/duplicate-names/volume-silently-dropped'      # fixed (5cc1939): no longer suppressed


def run_imat(ctx, case):
    named = [(k, g) for k, g in case['vols']]
    try:
        built = [(k, build_volume(g, name=k)[0]) for k, g in named]
    except BadMesh as e:
        ctx.count('bad_mesh', str(e)[:40]); return
    trees = case['trees']
    if surface_guard(ctx, [g for _, g in named], [n[2:5] for t in trees for n in t[0]]):
        return
    how, mode, attr = case['how'], case['mode'], case.get('attr', 'n_nodes')
    names = [k for k, _ in named]
    dup = len(set(names)) != len(names)
    if dup and how == 'dict':
        return
    nl = navis.NeuronList([make_tree(n, c, nid=i + 1) for i, (n, c) in enumerate(trees)])
    x = nl[0] if (case.get('single') and len(trees) == 1) else nl
    vols = {k: v for k, v in built} if how == 'dict' else [v for _, v in built]
    kw = {} if mode == 'IN' and case.get('default_mode') else {'mode': mode}
    df, err = safe(lambda: navis.intersection_matrix(x, vols, attr=attr, **kw))
    ts = ' # '.join(f'{nodes_str(n)}~{tconns_str(c)}' for n, c in trees)
    if dup:         # a list with a duplicated Volume.name is refused (as by in_volume), never silently shortened
        ctx.count('imat', f'{how}/dup-names')
        ctx.corr('ERR:dup' if err and 'Duplicate' in err else f'no error ({err}); rows {list(df.index) if err is None else None}',
                 ctx.ask(f'c18.imatlist {mode} | {vols_str(named)} | {ts}'),
                 'intersection_matrix with a list of volumes sharing a name is refused', case)
        ctx.oracle(err is not None, f'intersection_matrix(list of volumes named {names}) answered rows '
                                    f'{list(df.index) if err is None else None}: a volume was silently dropped', case)
        return
    if err:
        ctx.oracle(False, f'intersection_matrix raised: {err}', case); return
    if attr is None:
        df = df.map(lambda n: len(n.nodes))
    if attr in ('n_nodes', None):
        model = ctx.ask(f"c18.{'imatlist' if how == 'list' else 'imat'} {mode} | {vols_str(named)} | {ts}")
        impl = sorted(f"{k}:{ints(df.loc[k].values)}" for k in df.index)
        ctx.corr(impl, sorted(model.split('/')), f'intersection_matrix(attr={attr}, mode={mode}, {how}) vs model', case)
    ctx.oracle(list(df.columns) == [i + 1 for i in range(len(trees))],
               f'intersection_matrix columns {list(df.columns)} are not the neuron ids', case)
    # every volume is answered under its own name
    ctx.oracle(sorted(df.index) == sorted(names),
               f'intersection_matrix rows {list(df.index)}: not one row per volume {names} (a volume was dropped)', case)
    # cell == number of nodes (connectors) exactly inside / outside that volume alone
    last = {k: g for k, g in named}
    for k in df.index:
        g = last[k]
        for i, (n, c) in enumerate(trees):
            if attr == 'n_connectors':
                if c is None:
                    continue
                kept = ctx.ask(f'c18.tree {mode} | {solid_str(g)} | {nodes_str(n)} | {tconns_str(c)}').split('|')[1]
                want = len(is_int_list(kept))
                got = df.loc[k, i + 1]
                got = 0 if got is None else int(got)
            else:
                m = ctx.ask(f'c18.mem {solid_str(g)} | {pts_str([x_[2:5] for x_ in n])}')
                want = m.count('1') if mode == 'IN' else m.count('0')
                got = int(df.loc[k, i + 1])
            ctx.oracle(got == want, f'intersection_matrix[{k!r}, neuron {i + 1}] = {got} but {want} '
                                    f'{"connectors sit on nodes" if attr == "n_connectors" else "nodes are"} {mode.lower()}side that volume',
                       case)
    ctx.count('imat', f'{how}/{mode}/{len(named)}x{len(trees)}/attr={attr}' + ('/dup-names' if dup else '') + ('/single' if x is not nl else ''))


# ---------------------------------------------------------------------------------------------------------------
# (d) snap
# ---------------------------------------------------------------------------------------------------------------
def run_snap(ctx, case):
    kind, to = case['ntype'], case['to']
    data, ids, qs = case['data'], case.get('ids'), case['queries']
    cdata, cids = case.get('cdata'), case.get('cids')
    single = case.get('single', False)
    D = np.array(data, dtype=float).reshape(-1, 3)
    if kind == 'tree':
        df = pd.DataFrame({'node_id': np.array(ids, dtype=np.int64), 'parent_id': np.array([-1] + ids[:-1], dtype=np.int64),
                           'x': D[:, 0], 'y': D[:, 1], 'z': D[:, 2], 'radius': 0.01})
        if case.get('int_coords'):
            df = df.astype({'x': np.int64, 'y': np.int64, 'z': np.int64})
        x = navis.TreeNeuron(df, id=1)
    elif kind == 'dots':
        x = navis.Dotprops(D, k=None, vect=np.tile([1., 0., 0.], (len(D), 1)), id=1)
    else:
        faces = case['faces']
        x = navis.MeshNeuron((D, np.array(faces, dtype=np.int64)), id=1)
        if len(x.vertices) != len(D) or not np.array_equal(np.asarray(x.vertices), D):
            ctx.count('snap_skipped', 'mesh vertices reprocessed'); return
    if cdata is not None:
        C = np.array(cdata, dtype=float).reshape(-1, 3)
        cdf = pd.DataFrame({'connector_id': np.array(cids, dtype=np.int64), 'x': C[:, 0], 'y': C[:, 1], 'z': C[:, 2], 'type': 0})
        if kind == 'tree':
            cdf['node_id'] = [ids[_nearest_unique(data, c) if _unique(data, c) else 0] for c in cdata]
        x.connectors = cdf
    if to == 'connectors':
        tdata, tids = cdata, (cids if kind == 'tree' else None)
    else:
        tdata, tids = data, (ids if kind == 'tree' else None)
    ctx.count('snap', f'{kind}/{to}/{"single" if single else "multi"}')
    locs = qs[0] if single else qs
    r, err = safe(lambda: x.snap(locs, to=to))
    if err:
        ctx.oracle(False, f'{kind}.snap(to={to}) raised: {err}', case); return
    got_id, got_d = r
    got_id = [int(got_id)] if single else [int(v) for v in np.asarray(got_id)]
    got_d = [float(got_d)] if single else [float(v) for v in np.asarray(got_d)]
    qq = [qs[0]] if single else qs
    model = ctx.ask(f"c18.snap {pts_str(tdata)} | {ints(tids) if tids else ''} | {pts_str(qq)}").split(';')
    for q, gi, gd, mo in zip(qq, got_id, got_d, model):
        mi, md2 = (int(v) for v in mo.split(':'))
        impl = f'{gi}:{gd!r}'
        ctx.corr(impl, f'{mi}:{math.sqrt(md2)!r}', f'{kind}.snap(to={to}) (id, distance) vs model argmin', case)
        # property on navis' own answer: the id/row it returns is a true nearest neighbour, the distance is exact
        if tids:
            rows = [i for i, v in enumerate(tids) if v == gi]
            row = rows[0] if len(rows) == 1 else -1
        else:
            row = gi
        d2 = round(gd * gd)
        exact = row >= 0 and gd == math.sqrt(d2)
        ok = exact and ctx.ask(f'c18.chknear {pts_str(tdata)} | {q[0]},{q[1]},{q[2]} | {row} | {d2}') == '1'
        ctx.oracle(ok, f'{kind}.snap({q}, to={to}) returned ({gi}, {gd}) which is not (nearest {to[:-1]}, exact distance); '
                       f'nearest is {mi} at sqrt({md2})', case)


def _unique(data, p):
    ds = [_d2(p, q) for q in data]
    return ds.count(min(ds)) == 1


# ---------------------------------------------------------------------------------------------------------------
# (e) volume histories: ONE Volume object queried, changed in place, queried again (+ copies / pickles in between)
# ---------------------------------------------------------------------------------------------------------------
SIG_PYOC_STALE = 'in_volume_pyoc/stale-pyoctree-attribute/in-place-change-other-than-resize'      # fixed (d29361d): no longer suppressed

_REC = {'key': None, 'used': [], 'built': 0}


class _RecNcollVolume(_isect.ncollpyde.Volume if _isect.ncollpyde is not None else object):
    """ncollpyde.Volume that remembers which geometry (harness key) it was built from and reports every use."""

    def __init__(self, *a, **k):
        super().__init__(*a, **k)
        self._rec_key = _REC['key']
        _REC['built'] += 1
        _REC.setdefault('kinds', []).append('ncollpyde')
        _REC.setdefault('rays', []).append(k.get('n_rays'))

    def contains(self, *a, **k):
        _REC['used'].append(self._rec_key)
        return super().contains(*a, **k)


class _RecNcollModule:
    Volume = _RecNcollVolume

    def __getattr__(self, name):
        return getattr(_isect.ncollpyde, name)


class _Hit:
    __slots__ = ('p', 's', 'triLabel')

    def __init__(self, p, s, t):
        self.p, self.s, self.triLabel = p, s, t


class PyOctree:
    """Stand-in for `pyoctree.pyoctree.PyOctree` (the package is not installed): brute-force intersection of the *line*
    through the two ray points with every triangle (pyoctree rays are bidirectional, see navis' own comment).  Exact
    geometry, no acceleration; remembers the geometry key it was built from."""

    def __init__(self, vertices, faces):
        self.V = np.array(vertices, dtype=float)
        self.F = np.array(faces, dtype=np.int64)
        self._rec_key = _REC['key']
        _REC['built'] += 1
        _REC.setdefault('kinds', []).append('pyoctree')

    def rayIntersection(self, ray):
        _REC['used'].append(self._rec_key)
        o = np.asarray(ray[0], dtype=float); d = np.asarray(ray[1], dtype=float) - o
        a, b, c = self.V[self.F[:, 0]], self.V[self.F[:, 1]], self.V[self.F[:, 2]]
        e1, e2 = b - a, c - a
        h = np.cross(d, e2)
        det = (e1 * h).sum(axis=1)
        ok = np.abs(det) > 1e-12
        inv = np.where(ok, 1.0 / np.where(ok, det, 1.0), 0.0)
        sv = o - a
        u = (sv * h).sum(axis=1) * inv
        qv = np.cross(sv, e1)
        v = (qv * d).sum(axis=1) * inv
        t = (e2 * qv).sum(axis=1) * inv
        hit = ok & (u >= 0) & (v >= 0) & (u + v <= 1)
        return [_Hit(o + t[i] * d, float(t[i]), int(i)) for i in np.nonzero(hit)[0]]


class _PyocModule:
    PyOctree = PyOctree


class _Patched:
    """Install the recording ncollpyde proxy (and, if asked, the pyoctree stand-in) for the duration of one history."""

    def __init__(self, shim):
        self.shim = shim

    def __enter__(self):
        from navis.intersection import ray as _ray
        self.ray = _ray
        self.saved = (_ray.ncollpyde, _ray.pyoctree, _isect.pyoctree)
        if _ray.ncollpyde is not None:
            _ray.ncollpyde = _RecNcollModule()
        if self.shim:
            _ray.pyoctree = _PyocModule()
            _isect.pyoctree = _ray.pyoctree
        return self

    def __exit__(self, *a):
        self.ray.ncollpyde, self.ray.pyoctree, _isect.pyoctree = self.saved


def pose_matrix(pose):
    s, f, idx, t = pose_parts(pose)
    M = np.eye(4)
    M[:3, :3] = 0
    for a in range(3):
        M[a, idx[a]] = int(s[idx[a]]) * int(f[idx[a]])
        M[a, 3] = int(t[a])
    return M


def pose_box_key(pose, boxes):
    """Python mirror of Lean `Pose.solid`: every box corner through the pose, corners re-sorted per axis."""
    out = []
    for sg, lo, hi in boxes:
        a = pose_verts(pose, np.array([lo, hi], dtype=np.int64))
        out.append((sg, tuple(int(x) for x in a.min(axis=0)), tuple(int(x) for x in a.max(axis=0))))
    return out


def geom_boxes(geom):
    return pose_box_key(geom.get('pose') or IDENT_POSE, [(int(b[0]), tuple(b[1:4]), tuple(b[4:7])) for b in geom['csg']])


def _int_verts(vol):
    V = np.asarray(vol.vertices, dtype=float)
    W = np.rint(V).astype(np.int64)
    if not np.array_equal(W.astype(float), V):
        raise BadMesh('history left the integer lattice')
    return W


def apply_mutator(vol, name, how, pose, geom2):
    """One in-place change of the Volume object, exactly as a user would write it."""
    s, f, idx, t = pose_parts(pose) if pose else (None, None, None, None)
    if name == 'apply_translation':
        vol.apply_translation([int(x) for x in t])
    elif name == 'apply_scale':
        vol.apply_scale(int(s[0]))
    elif name == 'apply_transform':
        vol.apply_transform(pose_matrix(pose))
    elif name in ('vertices.setter', 'verts.setter') and geom2 is None:
        W = pose_verts(pose, _int_verts(vol)).astype(float)
        if name == 'verts.setter':
            vol.verts = W
        else:
            vol.vertices = W
        if pose_det_sign(pose) < 0:                 # keep the surface outward-wound (a valid volume)
            vol.faces = np.asarray(vol.faces)[:, ::-1].copy()
    elif name == 'vertices.setter':                 # replace the whole mesh by another solid
        v2, _ = build_volume(geom2)
        vol.vertices = np.asarray(v2.vertices).copy()
        vol.faces = np.asarray(v2.faces).copy()
    elif name == 'vertices[in-place-array-op]':
        if how == 'imul':
            vol.vertices *= np.array([int(x) for x in s], dtype=float)
        elif how == 'imul_scalar':
            vol.vertices *= int(s[0])
        elif how == 'iadd':
            vol.vertices += np.array([int(x) for x in t], dtype=float)
        elif how == 'np_out':
            np.multiply(vol.vertices, int(s[0]), out=vol.vertices)
        elif how == 'slice':
            vol.vertices[:, :] = np.asarray(vol.vertices) + np.array([int(x) for x in t], dtype=float)
        else:
            raise ValueError(how)
    elif name == 'resize':
        vol.resize(int(s[0]), method='origin', inplace=True)
    else:
        raise ValueError(name)


def apply_derive(vol, kind, pose):
    import copy as _copy, pickle as _pickle
    s, f, idx, t = pose_parts(pose) if pose else (None, None, None, None)
    if kind == 'copy':
        return vol.copy()
    if kind == 'copy.copy':
        return _copy.copy(vol)
    if kind == 'deepcopy':
        return _copy.deepcopy(vol)
    if kind == 'mul':
        return vol * int(s[0])
    if kind == 'mul_axes':
        return vol * [int(x) for x in s]
    if kind == 'add':
        return vol + [int(x) for x in t]
    if kind == 'sub':
        return vol - [-int(x) for x in t]
    if kind == 'resize_copy':
        return vol.resize(int(s[0]), method='origin', inplace=False)
    if kind == 'pickle':
        return _pickle.loads(_pickle.dumps(vol))
    raise ValueError(kind)


def _chain_tree(pts2, nid=1):
    nodes = [[i + 1, i, p[0], p[1], p[2]] for i, p in enumerate(pts2)]
    return make_tree(nodes, None, nid=nid)


def hist_query(vol, how, backend, n_rays, pts2):
    """One navis call on the volume; canonical result: mask over `pts2` as a bit string (or `#k` = a count)."""
    P = half(pts2)
    kw = {'n_rays': n_rays}
    if backend is not None:
        kw['backend'] = backend
    ids = list(range(1, len(pts2) + 1))
    if how == 'points':
        return bits(navis.in_volume(P, vol, **kw))
    if how == 'frame':
        return bits(navis.in_volume(pd.DataFrame(P, columns=['x', 'y', 'z']), vol, **kw))
    if how in ('tree_in', 'tree_out', 'nl_in'):
        t = _chain_tree(pts2)
        if how == 'nl_in':
            r = navis.in_volume(navis.NeuronList([t]), vol, mode='IN', **kw)[0]
        else:
            r = navis.in_volume(t, vol, mode='IN' if how == 'tree_in' else 'OUT', **kw)
        kept = set(int(v) for v in r.nodes.node_id.values)
        return bits([(i in kept) == (how != 'tree_out') for i in ids])
    if how in ('prune_in', 'prune_out', 'prune_inplace'):
        t = _chain_tree(pts2)
        if how == 'prune_inplace':
            t.prune_by_volume(vol, mode='IN', inplace=True); r = t
        else:
            r = t.prune_by_volume(vol, mode='IN' if how == 'prune_in' else 'OUT')
        kept = set(int(v) for v in r.nodes.node_id.values)
        return bits([(i in kept) == (how != 'prune_out') for i in ids])
    if how == 'dict':
        return bits(navis.in_volume(P, {'a': vol}, **kw)['a'])
    if how == 'list':
        r = navis.in_volume(P, [vol], **kw)
        return bits(r[next(iter(r))])
    if how == 'imat':
        df = navis.intersection_matrix(navis.NeuronList([_chain_tree(pts2)]), {'v': vol}, attr='n_nodes', **kw)
        return '#%d' % int(df.values[0, 0])
    raise ValueError(how)


def run_hist(ctx, case):
    geom = case['geom']
    try:
        vol0, _ = build_volume(geom, name='h0')
        for st in case['steps']:
            if st[0] == 'm' and st[5] is not None:
                build_volume(st[5])
    except BadMesh as e:
        ctx.count('bad_mesh', str(e)[:40]); return
    shim = bool(case.get('shim'))
    # per object: the list of boxes of its current solid — the Python mirror of what the model holds (`Pose.solid`)
    keys = [geom_boxes(geom)]
    objs = [vol0]
    lineage = [[]]          # in-place mutators applied to the object (and, before it was derived, to its ancestors)
    lines, qsteps = [], []
    spec_attr = {b.split('=')[0]: b.split('=')[1].split('/')[0] for b in ctx.ask('c18.cachespec x').split('|')[0].split(',')}
    with _Patched(shim):
        for k, st in enumerate(case['steps']):
            op = st[0]
            if op == 'q':
                _, i, how, backend, n_rays, pts2 = st
                if any(int(v) % 2 == 0 for p in pts2 for v in p):
                    ctx.count('skipped_point_on_surface'); return
                eff_b = 'ncollpyde' if backend in (None, 'default') else (backend if isinstance(backend, str) else
                                                                           next(b for b in backend if b != 'pyoctree' or shim))
                eff_r = 0 if eff_b == 'scipy' else (n_rays if n_rays is not None else (3 if eff_b == 'ncollpyde' else 1))
                _REC['key'], _REC['used'], _REC['built'] = json.dumps(keys[i]), [], 0
                res, err = safe(lambda: hist_query(objs[i], how, None if backend == 'default' else backend, n_rays, pts2))
                fresh = None if not _REC['used'] else all(u == _REC['key'] for u in _REC['used'])
                qsteps.append((k, st, eff_b, res, err, fresh, _REC['built'], list(lineage[i])))
                lines.append(f'q {i} {eff_b} {eff_r} {pts_str(pts2)}')
                ctx.count('hist_query', f'{how}/{eff_b}/n_rays={n_rays}')
            elif op == 'm':
                _, i, name, how, pose, geom2 = st
                try:
                    apply_mutator(objs[i], name, how, pose, geom2)
                except BadMesh as e:
                    ctx.count('bad_mesh', str(e)[:40]); return
                if geom2 is not None:
                    keys[i] = geom_boxes(geom2)
                    lines.append(f'm {i} {name} S:{solid_str(geom2)}')
                else:
                    keys[i] = pose_box_key(pose, keys[i])
                    lines.append(f'm {i} {name} P:{pose_str(pose)}')
                lineage[i].append(name)
                ctx.count('hist_mutator', name + (f'/{how}' if how else '') + ('/replace' if geom2 is not None else ''))
            elif op == 'c':
                _, i, kind, pose = st
                d, derr = safe(lambda: apply_derive(objs[i], kind, pose))
                if derr:        # e.g. a Volume that cannot be pickled: not this property's business; the history ends here
                    ctx.count('hist_derive_failed', f'{kind}: {derr[:60]}')
                    break
                if not isinstance(d, navis.Volume):
                    # e.g. `unpickled.copy()` / `unpickled.resize(k)`: an unpickled Volume has lost the per-instance method
                    # wrappers that turn trimesh results back into navis.Volume, so its copies are plain trimesh.Trimesh
                    # (not this property's business; recorded).  Continue with the same mesh as a navis.Volume.
                    ctx.count('hist_derived_not_a_Volume', f'{kind}: {type(d).__name__}')
                    d = navis.Volume(np.asarray(d.vertices).copy(), np.asarray(d.faces).copy(), name='derived')
                objs.append(d)
                keys.append(pose_box_key(pose or IDENT_POSE, keys[i]))
                lineage.append(list(lineage[i]) if kind == 'pickle' else [])
                lines.append(f'p {i}' if kind == 'pickle' else f'c {i} P:{pose_str(pose or IDENT_POSE)}')
                ctx.count('hist_derive', kind)
            else:
                raise ValueError(op)
    model = ctx.ask('c18.hist ' + solid_str(geom) + ' | ' + ' | '.join(lines)).split(';')
    mq = [m for m in model if m]
    if len(mq) != len(qsteps):
        ctx.corr(f'{len(qsteps)} queries', f'{len(mq)} answers', 'volume history: model answered every query', case); return
    seen_mut = set()
    for (k, st, eff_b, res, err, fresh, built, muts), mo in zip(qsteps, mq):
        i = st[1]
        where = f"history step {k}: {st[2]}(object {i}, backend={st[3]}, n_rays={st[4]}) after " \
                f"{[s[2] for s in case['steps'][:k] if s[0] == 'm' and s[1] == i] or 'no change'}"
        if mo == 'none' or err:
            ctx.oracle(False, f'{where} raised: {err}', case)
            continue
        m_fresh, m_used, m_cur = mo.split(':')
        cnt = res.startswith('#')
        stale_cache_possible = spec_attr.get(eff_b, '-') != '-'
        ctx.count('hist_fresh_flag', f'{eff_b}/model={m_fresh}/navis={ {None: "?", True: "1", False: "0"}[fresh] }')
        ctx.count('hist_structures_built', f'{eff_b}/{built}')
        sig = None      # (the stale `volume.pyoctree` finding is fixed: d29361d — a stale octree is a violation again)
        # (1) navis' answer vs the model's answer on the geometry the generated spec says is used, (2) the property: the
        # answer is the inside/outside mask of the CURRENT geometry of this object (decided by Lean `mem`)
        if eff_b != 'pyoctree':      # in_volume_pyoc rounds intersections to integers: its masks are not judged (freshness is)
            want_used = ('#%d' % m_used.count('1')) if cnt else m_used
            want_cur = ('#%d' % m_cur.count('1')) if cnt else m_cur
            ctx.corr(res, want_used, f'{where}: answer vs model (geometry the generated cache spec says is used)', case)
            why = (f'; it is the mask of the geometry an earlier ray-casting structure was built from ({want_used}): stale cache'
                   if res == want_used and want_used != want_cur else '')
            ctx.oracle(res == want_cur, f'{where}: answer {res} is not the inside/outside mask of the current geometry '
                                        f'({want_cur}){why}', case)
        # (3) the state machine extracted from the source predicts which geometry navis answered from, (4) the property:
        # the structure the answer came from was built from the mesh as it is now
        if fresh is not None:
            ctx.corr('1' if fresh else '0', m_fresh,
                     f'{where}: structure built from the current mesh? (navis, observed) vs state machine on the generated spec',
                     case, signature=sig)
            ctx.oracle(fresh, f'{where}: the answer was computed from a ray-casting structure built for an EARLIER geometry of '
                              f'this Volume object (stale cache)', case, signature=sig)
    ctx.count('hist_len', len(case['steps']))
    pat = 'no'
    last = {}
    for st in case['steps']:
        if st[0] == 'q':
            key = (st[1], json.dumps(st[3]), st[4])
            if last.get(key) == 'mutated':
                pat = 'yes'
            last[key] = 'queried'
        elif st[0] == 'm':
            for key in list(last):
                if key[0] == st[1]:
                    last[key] = 'mutated'
    ctx.count('hist_query_mutate_query_same_rays', pat)


def fixed_hists():
    """Systematic part of the history stream: for EVERY in-place mutator `query, mutate, query` (same ray count), and for every
    copy-like derivation `query, derive, mutate the original, query both` — on an L-shaped solid, independent of the PRNG."""
    geom = {'shape': 'L', 'csg': [[1, 0, 0, 0, 3, 1, 1], [1, 0, 0, 0, 1, 2, 1]], 'pose': [1, 1, 1, 0, 0, 0, 'xyz', 2, 0, 0], 'tri': 7}
    geom2 = {'shape': 'box', 'csg': [[1, 0, 0, 0, 1, 1, 2]], 'pose': [1, 1, 1, 0, 0, 0, 'xyz', -3, 0, 0], 'tri': 3}
    P = lambda **k: [k.get('s', 1)] * 3 + [0, 0, 0, 'xyz'] + k.get('t', [0, 0, 0])
    # points: centres of the cells of the solid before the change and of a few positions it is moved / scaled to
    cells = [(2, 0, 0), (3, 0, 0), (4, 0, 0), (2, 1, 0), (9, 0, 0), (10, 0, 0), (4, 0, 1), (9, 1, 0), (5, 1, 0), (-3, 0, 0), (-3, 0, 1),
             (6, 1, 1), (7, 0, 1), (8, 2, 1), (-4, 0, 0), (0, 0, 0), (5, 0, 0), (8, 0, 0)]
    pts = [[2 * c[0] + 1, 2 * c[1] + 1, 2 * c[2] + 1] for c in cells]
    muts = [('apply_translation', None, P(t=[7, 0, 0]), None), ('apply_scale', None, P(s=2), None),
            ('apply_transform', None, [1, 1, 1, 1, 0, 0, 'xyz', 12, 0, 0], None), ('apply_transform', None, [2, 1, 1, 0, 0, 0, 'yxz', 1, 2, 0], None),
            ('vertices.setter', None, P(t=[7, 0, 0]), None), ('vertices.setter', None, [1, 1, 1, 0, 1, 0, 'xyz', 0, 1, 0], None),
            ('verts.setter', None, P(s=2), None),
            ('vertices[in-place-array-op]', 'imul', [2, 1, 3, 0, 0, 0, 'xyz', 0, 0, 0], None),
            ('vertices[in-place-array-op]', 'imul_scalar', P(s=2), None), ('vertices[in-place-array-op]', 'iadd', P(t=[7, 0, 0]), None),
            ('vertices[in-place-array-op]', 'np_out', P(s=3), None), ('vertices[in-place-array-op]', 'slice', P(t=[-6, 0, 0]), None),
            ('resize', None, P(s=2), None), ('vertices.setter', None, None, geom2)]
    for j, (name, how, pose, g2) in enumerate(muts):
        for qhow, backend, nr in [('points', 'default', None), ('tree_out', 'ncollpyde', 2), ('prune_in', 'default', None)][j % 3:][:2]:
            yield {'geom': geom, 'shim': False,
                   'steps': [['q', 0, qhow, backend, nr, pts], ['m', 0, name, how, pose or list(IDENT_POSE), g2], ['q', 0, qhow, backend, nr, pts],
                             ['q', 0, 'points', 'default', 5, pts]]}
        yield {'geom': geom, 'shim': True,
               'steps': [['q', 0, 'points', 'pyoctree', None, pts], ['m', 0, name, how, pose or list(IDENT_POSE), g2],
                         ['q', 0, 'points', 'pyoctree', None, pts], ['q', 0, 'points', 'ncollpyde', None, pts]]}
    for kind, pose in [('copy', None), ('copy.copy', None), ('deepcopy', None), ('pickle', None), ('mul', P(s=2)),
                       ('mul_axes', [1, 2, 1, 0, 0, 0, 'xyz', 0, 0, 0]), ('add', P(t=[7, 0, 0])), ('sub', P(t=[-2, 0, 0])),
                       ('resize_copy', P(s=3))]:
        for shim, b in ((False, 'default'), (True, 'pyoctree')):
            yield {'geom': geom, 'shim': shim,
                   'steps': [['q', 0, 'points', b, None, pts], ['c', 0, kind, pose], ['q', 1, 'points', b, None, pts],
                             ['m', 0, 'apply_translation', None, P(t=[7, 0, 0]), None], ['q', 0, 'points', b, None, pts],
                             ['q', 1, 'points', b, None, pts], ['m', 1, 'resize', None, P(s=2), None], ['q', 1, 'points', b, None, pts],
                             ['q', 0, 'points', b, None, pts]]}


# -- generator ------------------------------------------------------------------------------------------------------
def _compose(A, T, pose):
    M = pose_matrix(pose)
    L = M[:3, :3].astype(np.int64); t = M[:3, 3].astype(np.int64)
    return L @ A, L @ T + t


def _cell_point2(A, T, cell, rnd):
    c0 = A @ np.array(cell, dtype=np.int64) + T
    c1 = A @ (np.array(cell, dtype=np.int64) + 1) + T
    lo, hi = np.minimum(c0, c1), np.maximum(c0, c1)
    return [int(2 * lo[a] + 2 * rnd.randrange(int(hi[a] - lo[a])) + 1) for a in range(3)]


def gen_hist(rnd, q, shim=False):
    geom = gen_geom(rnd, shape=rnd.choice(['box', 'box', 'L', 'U', 'torus', 'shell', 'nested', 'disjoint', 'grow', 'csg']),
                    poly=False, pose_kind=rnd.choice(['ident', 'trans', 'full']))
    geom['pose'][0:3] = [min(x, 2) for x in geom['pose'][0:3]]          # keep coordinates small: histories multiply scales

    def base(g):
        A, T = _compose(np.eye(3, dtype=np.int64), np.zeros(3, dtype=np.int64), g['pose'])
        return {'vox': sorted(voxelise(g['csg'])), 'A': A, 'T': T, 'convex': g['shape'] == 'box'}
    # per object: list of versions (old geometries are where a stale structure answers differently)
    objs = [[base(geom)]]
    steps = []
    main_rays = rnd.choice([None, None, 1, 2, 3, 5])
    hows = ['points', 'points', 'points', 'frame', 'tree_in', 'tree_out', 'nl_in', 'prune_in', 'prune_out', 'prune_inplace',
            'dict', 'list', 'imat']

    def points(i):
        vs = objs[i]
        pts = []
        for _ in range(rnd.randrange(6, 14 if q else 30)):
            r = rnd.random()
            v = vs[-1] if r < 0.4 else rnd.choice(vs)
            if r < 0.85 and v['vox']:
                pts.append(_cell_point2(v['A'], v['T'], rnd.choice(v['vox']), rnd))
            else:
                c = _cell_point2(vs[-1]['A'], vs[-1]['T'], rnd.choice(vs[-1]['vox']), rnd)
                pts.append([c[a] + 2 * rnd.randrange(-6, 7) for a in range(3)])
        return pts

    def query(i):
        cur = objs[i][-1]
        how = rnd.choice(hows)
        if shim and rnd.random() < 0.6:
            backend, how = 'pyoctree', rnd.choice(['points', 'points', 'tree_in', 'dict'])
        elif cur['convex'] and rnd.random() < 0.15:
            backend = rnd.choice(['scipy', ['pyoctree', 'scipy']]) if not shim else 'scipy'
            how = 'points'
        else:
            backend = rnd.choice(['default', 'default', 'ncollpyde', ['ncollpyde', 'pyoctree']] + ([] if shim else [['pyoctree', 'ncollpyde']]))
        n_rays = main_rays if rnd.random() < 0.7 else rnd.choice([None, 1, 2, 3, 5, 8])
        if how.startswith('prune'):
            backend, n_rays = 'default', None
        if backend == 'pyoctree' and n_rays is not None:
            n_rays = min(n_rays, 2)
        return ['q', i, how, backend, n_rays, points(i)]

    def mutate(i):
        cur = objs[i][-1]
        scale_now = int(abs(cur['A']).max())
        kinds = ['apply_translation', 'apply_translation', 'apply_transform', 'vertices.setter', 'verts.setter',
                 'vertices[in-place-array-op]', 'vertices[in-place-array-op]', 'resize', 'replace']
        if scale_now <= 8:
            kinds += ['apply_scale']
        name = rnd.choice(kinds)
        how, geom2 = None, None
        tr = lambda: [rnd.choice((-1, 1)) * rnd.randrange(1, rnd.choice((4, 12, 60))) if rnd.random() < 0.7 else 0 for _ in range(3)]
        pose = list(IDENT_POSE)
        small = scale_now <= 8
        if name == 'apply_translation':
            pose[7:10] = tr()
        elif name == 'apply_scale':
            pose[0:3] = [rnd.choice((2, 3))] * 3
        elif name in ('apply_transform', 'vertices.setter', 'verts.setter'):
            pose = gen_pose(rnd, rnd.choice(['trans', 'flip', 'perm', 'full']))
            pose[0:3] = [min(x, 2) if small else 1 for x in pose[0:3]]
            pose[7:10] = [max(-60, min(60, x)) for x in pose[7:10]]
        elif name == 'vertices[in-place-array-op]':
            how = rnd.choice(['imul', 'imul_scalar', 'iadd', 'np_out', 'slice'] if small else ['iadd', 'slice'])
            if how == 'imul':
                pose[0:3] = [rnd.choice((1, 2, 3)) for _ in range(3)]
            elif how in ('imul_scalar', 'np_out'):
                pose[0:3] = [rnd.choice((2, 3))] * 3
            else:
                pose[7:10] = tr()
        elif name == 'resize':
            pose[0:3] = [rnd.choice((2, 3) if small else (1,))] * 3
        else:
            name = 'vertices.setter'
            geom2 = gen_geom(rnd, poly=False, pose_kind=rnd.choice(['ident', 'trans']))
        if geom2 is None and pose == IDENT_POSE:      # never an identity change
            name, how = 'apply_translation', None
            pose[7] = 3
        if geom2 is not None:
            objs[i].append(base(geom2))
        else:
            A, T = _compose(cur['A'], cur['T'], pose)
            objs[i].append({'vox': cur['vox'], 'A': A, 'T': T, 'convex': cur['convex']})
        return ['m', i, name, how, pose, geom2]

    def derive(i):
        cur = objs[i][-1]
        small = int(abs(cur['A']).max()) <= 8
        kind = rnd.choice(['copy', 'copy.copy', 'deepcopy', 'pickle', 'pickle', 'add', 'sub'] + (['mul', 'mul_axes', 'resize_copy'] if small else []))
        pose = list(IDENT_POSE)
        if kind in ('mul', 'resize_copy'):
            pose[0:3] = [rnd.choice((2, 3))] * 3
        elif kind == 'mul_axes':
            pose[0:3] = [rnd.choice((1, 2, 3)) for _ in range(3)]
        elif kind in ('add', 'sub'):
            pose[7:10] = [rnd.randrange(-9, 10) for _ in range(3)]
        A, T = _compose(cur['A'], cur['T'], pose)
        # a derived object starts with the history of its parent (a structure carried over would be built from one of those)
        objs.append([dict(v) for v in objs[i][:-1]] + [{'vox': cur['vox'], 'A': A, 'T': T, 'convex': cur['convex']}])
        return ['c', i, kind, pose]

    n = rnd.randrange(3, 8 if q else 14)
    if rnd.random() < 0.85:
        steps.append(query(0))
    for _ in range(n):
        i = rnd.randrange(len(objs)) if rnd.random() < 0.5 else 0
        r = rnd.random()
        if r < 0.42:
            steps.append(mutate(i))
            if rnd.random() < 0.75:
                steps.append(query(i))
        elif r < 0.8:
            steps.append(query(i))
        elif len(objs) < 4:
            steps.append(derive(i))
            if rnd.random() < 0.6:
                steps.append(query(len(objs) - 1))
            if rnd.random() < 0.4:
                steps.append(query(i))
    if steps[-1][0] != 'q':
        steps.append(query(steps[-1][1] if steps[-1][0] == 'm' else len(objs) - 1))
    return {'geom': geom, 'steps': steps, 'shim': shim}


# ---------------------------------------------------------------------------------------------------------------
# (f) VoxelNeuron, back-end selection / ray counts, snap with ties, points ON the surface (recorded only)
# ---------------------------------------------------------------------------------------------------------------
def make_vox(case):
    cells = np.array(case['cells'], dtype=np.int64).reshape(-1, 3)
    vals = np.array(case['values'], dtype=float)
    if case.get('from') == 'grid':
        shape = cells.max(axis=0) + 1 + np.array(case.get('pad', [0, 0, 0]))
        g = np.zeros(tuple(int(x) for x in shape), dtype=float)
        g[cells[:, 0], cells[:, 1], cells[:, 2]] = vals
        return navis.VoxelNeuron(g, units=case['units'], offset=case['offset'], id=9)
    n = navis.VoxelNeuron(cells.copy(), units=case['units'], offset=case['offset'], id=9)
    n.values = vals
    return n


def run_vox(ctx, case):
    geom = case['geom']
    try:
        vol, vox = build_volume(geom)
    except BadMesh as e:
        ctx.count('bad_mesh', str(e)[:40]); return
    S = solid_str(geom)
    u, o = case['units'], case['offset']
    cells, vals = case['cells'], case['values']
    if case.get('from') == 'grid':        # a grid lists its voxels in row-major order
        order = sorted(range(len(cells)), key=lambda i: cells[i])
        cells, vals = [cells[i] for i in order], [vals[i] for i in order]
    centres = [[2 * c[a] * u[a] + u[a] + 2 * o[a] for a in range(3)] for c in cells]
    if surface_guard(ctx, [geom], centres):
        return
    ctx.count('vox', f"{case.get('from', 'table')}/{case['call']}/units={u}")
    res = {}
    for mode in ('IN', 'OUT'):
        args = f"{mode} | {S} | {pts_str(cells)} | {ints(vals)} | {ints(u)} | {ints(o)}"
        model = ctx.ask('c18.vox ' + args)
        n = make_vox(case)
        if case['call'] == 'in_volume':
            r, err = safe(lambda: navis.in_volume(n, vol, mode=mode, n_rays=case.get('n_rays')))
        elif case['call'] == 'inplace':
            def fn():
                navis.in_volume(n, vol, mode=mode, inplace=True)
                return n
            r, err = safe(fn)
        else:
            r, err = safe(lambda: navis.in_volume(navis.NeuronList([n]), vol, mode=mode)[0])
        if err:
            ctx.oracle(False, f"{case['call']}(VoxelNeuron, mode={mode}) raised: {err}", case); continue
        kc = [[int(x) for x in c] for c in np.asarray(r.voxels).reshape(-1, 3)]
        kv = [int(x) for x in np.asarray(r.values)]
        ctx.corr(f'{pts_str(kc)}|{ints(kv)}', model, f"{case['call']}(VoxelNeuron, mode={mode}) kept voxels|values vs model", case)
        ok = len(kc) == len(kv) and ctx.ask(f'c18.chkvox {args} | {pts_str(kc)} | {ints(kv)}') == '1'
        ctx.oracle(ok, f"{case['call']}(VoxelNeuron, mode={mode}): kept (voxel, value) rows {list(zip(map(tuple, kc), kv))} are not "
                       f"exactly the rows whose voxel centre is {mode.lower()}side the volume", case)
        if case['call'] != 'inplace':
            ctx.oracle(len(n.voxels) == len(cells), 'in_volume(VoxelNeuron) modified its input', case)
        res[mode] = kc
    if len(res) == 2:
        both = sorted(map(tuple, res['IN'] + res['OUT']))
        ctx.oracle(both == sorted(map(tuple, cells)), f"VoxelNeuron: IN keeps {res['IN']}, OUT keeps {res['OUT']}: not a partition "
                                                      f"of the voxels {cells}", case)
        ctx.count('vox_split', 'both' if res['IN'] and res['OUT'] else ('all-in' if res['IN'] else 'all-out'))


def run_backend(ctx, case):
    """Which back-end `in_volume` picks for a request, and what the ray-count preamble does with `n_rays`."""
    geom = case['geom']
    try:
        vol, vox = build_volume(geom)
    except BadMesh as e:
        ctx.count('bad_mesh', str(e)[:40]); return
    if surface_guard(ctx, [geom], case['pts']):
        return
    P = half(case['pts'])
    req, n_rays, shim = case['backend'], case['n_rays'], bool(case.get('shim'))
    avail = ['ncollpyde'] + (['pyoctree'] if shim else [])
    reqs = [req] if isinstance(req, str) else list(req)
    m_b = ctx.ask(f"c18.backend {','.join(avail)} | {','.join(reqs)}")
    dflt = {'ncollpyde': 3, 'pyoctree': 1}.get(m_b)
    m_r = ctx.ask(f"c18.rays {dflt} | {n_rays}") if dflt is not None else 'n/a'
    with _Patched(shim):
        _REC['key'], _REC['used'], _REC['built'], _REC['kinds'], _REC['rays'] = 'k', [], 0, [], []
        res, err = safe(lambda: navis.in_volume(P, vol, backend=req, n_rays=n_rays))
        kinds, rays = list(_REC.get('kinds', [])), list(_REC.get('rays', []))
    ctx.count('backend_request', f"{req}/shim={shim} -> {m_b}/rays {n_rays}->{m_r}")
    if m_b == 'ERR:none-available':
        ctx.corr('ERR' if err and 'None of the specified backends' in err else f'no error: {err}', 'ERR',
                 'in_volume refuses when no requested back-end is available', case)
        return
    if m_r == 'ERR:value':
        ctx.corr('ERR' if err else 'no error', 'ERR', 'n_rays <= 0 is refused', case)
        return
    if err:
        ctx.oracle(False, f'in_volume(points, backend={req}, n_rays={n_rays}) raised: {err}', case); return
    obs = (kinds[0] if kinds else 'scipy')
    ctx.corr(obs, m_b, 'back-end that answered (observed: which structure was built) vs first available requested back-end', case)
    if obs == 'ncollpyde' and rays:       # recorded only: the property is about the answer, not about how many rays produce it
        ctx.count('ncollpyde_rays_as_requested', str(rays[0]) == m_r)
    if m_b != 'pyoctree' and (m_b != 'scipy' or geom.get('shape') in CONVEX):
        model = ctx.ask(f'c18.mem {solid_str(geom)} | {pts_str(case["pts"])}')
        ctx.oracle(bits(res) == model, f'in_volume(points, backend={req}, n_rays={n_rays}) = {bits(res)} is not the exact mask {model}', case)


def run_snaptie(ctx, case):
    """snap with exact ties: navis may return any nearest row — decided by the Lean checker alone."""
    kind, to = case['ntype'], case['to']
    data, ids, qs = case['data'], case.get('ids'), case['queries']
    D = np.array(data, dtype=float).reshape(-1, 3)
    if kind == 'tree':
        df = pd.DataFrame({'node_id': np.array(ids, dtype=np.int64), 'parent_id': np.array([-1] + ids[:-1], dtype=np.int64),
                           'x': D[:, 0], 'y': D[:, 1], 'z': D[:, 2], 'radius': 0.01})
        x = navis.TreeNeuron(df, id=1)
        if to == 'connectors':
            x.connectors = pd.DataFrame({'connector_id': np.array(ids, dtype=np.int64) + 1000, 'node_id': np.array(ids, dtype=np.int64),
                                         'x': D[:, 0], 'y': D[:, 1], 'z': D[:, 2], 'type': 0})
    elif kind == 'dots':
        x = navis.Dotprops(D, k=None, vect=np.tile([1., 0., 0.], (len(D), 1)), id=1)
    else:
        x = navis.MeshNeuron((D, np.array([[j, j + 1, j + 2] for j in range(len(D) - 2)], dtype=np.int64)), id=1)
        if len(x.vertices) != len(D) or not np.array_equal(np.asarray(x.vertices), D):
            ctx.count('snap_skipped', 'mesh vertices reprocessed'); return
    if case.get('bad_to'):
        r, err = safe(lambda: x.snap(qs, to=case['bad_to']))
        ctx.corr('ERR' if err and 'ValueError' in err else f'no error ({err})', 'ERR', f'{kind}.snap(to={case["bad_to"]!r}) is refused', case)
        return
    ctx.count('snap_tie', f'{kind}/{to}')
    r, err = safe(lambda: x.snap(qs, to=to))
    if err:
        ctx.oracle(False, f'{kind}.snap(to={to}) raised: {err}', case); return
    tids = ([i + 1000 for i in ids] if to == 'connectors' else ids) if kind == 'tree' else None
    nties = 0
    for q, gi, gd in zip(qs, [int(v) for v in np.asarray(r[0])], [float(v) for v in np.asarray(r[1])]):
        row = tids.index(gi) if tids and gi in tids else (gi if not tids else -1)
        d2 = round(gd * gd)
        ok = row >= 0 and gd == math.sqrt(d2) and ctx.ask(f'c18.chknear {pts_str(data)} | {q[0]},{q[1]},{q[2]} | {row} | {d2}') == '1'
        ctx.oracle(ok, f'{kind}.snap({q}, to={to}) returned ({gi}, {gd}): not a nearest {to[:-1]} with its exact distance '
                       f'(ties allowed)', case)
        ds = [_d2(q, p) for p in data]
        nties += ds.count(min(ds)) > 1
    ctx.count('snap_tie_queries_with_tie', nties)


def run_pyocrays(ctx, case):
    """`in_volume_pyoc` (run on the brute-force stand-in for pyoctree): the n-ray answer is the bounding-box test AND the
    conjunction of the single-ray answers obtained with the same ray origins (same numpy random state) — the consensus loop,
    tied to `pyocLoop` without judging the geometric exactness of the rounding in that function."""
    geom = case['geom']
    try:
        vol, vox = build_volume(geom)
    except BadMesh as e:
        ctx.count('bad_mesh', str(e)[:40]); return
    if surface_guard(ctx, [geom], case['pts']):
        return
    P = half(case['pts'])
    k, sd = case['n_rays'], case['seed']
    with _Patched(True):
        _REC['key'], _REC['used'], _REC['built'] = 'k', [], 0
        st = np.random.get_state()
        try:
            np.random.seed(sd)
            full, err = safe(lambda: navis.in_volume(P, vol, backend='pyoctree', n_rays=k))
            singles = []
            for i in range(k):
                np.random.seed(sd); np.random.rand(3 * i)
                r, e2 = safe(lambda: navis.in_volume(P, vol, backend='pyoctree', n_rays=1))
                err = err or e2
                singles.append(r)
        finally:
            np.random.set_state(st)
    if err:
        ctx.oracle(False, f'in_volume(points, backend=pyoctree, n_rays={k}) raised: {err}', case); return
    V = np.asarray(vol.vertices)
    bb = bits(((P <= V.max(axis=0)) & (P >= V.min(axis=0))).all(axis=1))
    model = ctx.ask(f"c18.pyoc {bb} | {';'.join(bits(x) for x in singles)}")
    ctx.corr(bits(full), model, f'in_volume_pyoc with {k} rays vs bounding box AND conjunction of its single-ray answers', case)
    ctx.count('pyoc_rays', f'n_rays={k}/in={bits(full).count("1")}/bbox={bb.count("1")}')
    exact = ctx.ask(f'c18.mem {solid_str(geom)} | {pts_str(case["pts"])}')
    ctx.count('pyoc_vs_exact (not judged)', 'equal' if exact == bits(full) else 'differs')


SIG_MESH_SNAP_TRUNC = 'MeshNeuron.snap/integer-dtype-vertices/query-truncated-to-integers'      # fixed (f2bf081): no longer suppressed


def run_snapdt(ctx, case):
    """snap on coordinate tables of every dtype with NON-INTEGER queries (in tenths; near-tie positions x.4 / x.5 / x.6):
    node / row and distance against the exact argmin (Lean `checkNearestQ`: 100·dist² in integers, distance as exact rational)."""
    kind, to, dt = case['ntype'], case['to'], np.dtype(case['dtype'])
    data, ids, q10s = case['data'], case.get('ids'), case['queries10']
    D = np.array(data, dtype=np.int64).reshape(-1, 3).astype(dt)
    is_int = dt.kind in 'iu'
    if kind == 'tree':
        df = pd.DataFrame({'node_id': np.array(ids, dtype=np.int64), 'parent_id': np.array([-1] + ids[:-1], dtype=np.int64),
                           'x': D[:, 0], 'y': D[:, 1], 'z': D[:, 2], 'radius': 0.01})
        x = navis.TreeNeuron(df, id=1)
        have = x.nodes.x.dtype
        cls = 'TreeNeuron'
    elif kind == 'dots':
        x = navis.Dotprops(D, k=None, vect=np.tile([1., 0., 0.], (len(D), 1)), id=1)
        have = x.points.dtype
        cls = 'Dotprops'
    else:
        F = np.array([[j, j + 1, j + 2] for j in range(len(D) - 2)], dtype=np.int64)
        if case.get('how') == 'setter':
            x = navis.MeshNeuron((D.astype(float), F), id=1, process=False)
            x.vertices = D
        else:
            x = navis.MeshNeuron((D, F), id=1, process=False)
        have = x.vertices.dtype
        cls = 'MeshNeuron'
    if have != dt:                       # navis converted the table on construction: record what it holds now
        ctx.count('snapdt_dtype_converted', f'{kind}: {dt} -> {have}')
        is_int = have.kind in 'iu'
    target, tids = data, (ids if kind == 'tree' else None)
    if to == 'connectors':
        C = np.array(case['cdata'], dtype=float).reshape(-1, 3)
        cdf = pd.DataFrame({'connector_id': np.array(case['cids'], dtype=np.int64), 'x': C[:, 0], 'y': C[:, 1], 'z': C[:, 2], 'type': 0})
        if kind == 'tree':
            cdf['node_id'] = ids[0]
        x.connectors = cdf
        target, tids = case['cdata'], (case['cids'] if kind == 'tree' else None)
    Q = np.array(q10s, dtype=np.int64).reshape(-1, 3) / 10.0
    single = case.get('single', False)
    locs = {'list': Q.tolist(), 'f64': Q, 'f32': Q.astype(np.float32)}[case.get('qkind', 'f64')]
    if single:
        locs = locs[0]
    ctx.count('snapdt', f'{kind}/{to}/{have}/{case.get("qkind", "f64")}/{"single" if single else "multi"}')
    r, err = safe(lambda: x.snap(locs, to=to))
    if err:
        ctx.oracle(False, f'{kind}.snap(to={to}) on a {have} table raised: {err}', case); return
    got_id = [int(r[0])] if single else [int(v) for v in np.asarray(r[0])]
    got_d = [float(r[1])] if single else [float(v) for v in np.asarray(r[1])]
    qq = q10s[:1] if single else q10s
    model = ctx.ask(f"c18.snapq {cls} {1 if is_int else 0} | {pts_str(target)} | {ints(tids) if tids else ''} | {pts_str(qq)}").split(';')
    for q, gi, gd, mo in zip(qq, got_id, got_d, model):
        mi, mdd, nties = (int(v) for v in mo.split(':'))
        frac = any(int(v) % 10 for v in q)
        sig = None      # (MeshNeuron.snap on integer vertices is repaired: f2bf081 — judged like every other table)
        if nties == 1:        # the model casts the query the way the source does (Gen/SnapCast.lean)
            ctx.corr(gi, mi, f'{kind}.snap(to={to}) on a {have} table: id vs model argmin (query cast as in the source)', case,
                     signature=sig)
        row = (tids.index(gi) if gi in tids else -1) if tids else gi
        num, den = gd.as_integer_ratio() if math.isfinite(gd) else (0, 0)
        ok = row >= 0 and ctx.ask(f'c18.chknearq {pts_str(target)} | {q[0]},{q[1]},{q[2]} | {row} | {num} | {den}') == '1'
        ctx.oracle(ok, f'{kind}.snap({[v / 10 for v in q]}, to={to}) on a {have} coordinate table returned ({gi}, {gd}): not the '
                       f'nearest {to[:-1]} with its Euclidean distance' + (' (query truncated to integers?)' if is_int and frac else ''),
                   case, signature=sig)
        ctx.count('snapdt_query', ('fractional' if frac else 'integer') + ('/tie' if nties > 1 else ''))


def run_dotshist(ctx, case):
    """Two-step history on ONE Dotprops with connectors: the first prune creates the `point` column of the connector table, the
    second prune (boolean mask again) must still keep exactly the connectors attached to the retained points.  Variants:
    in_volume(big) then in_volume(small) in both modes; subset_neuron with a boolean mask twice (mask and its complement)."""
    pts2, conns = case['pts'], case['conns']
    index = {tuple(p): i for i, p in enumerate(pts2)}
    att = {c[0]: _nearest_unique(pts2, c[1:4]) for c in conns}       # connector -> original point index
    conn_s = ';'.join(f'{cid}:{a}' for cid, a in att.items())         # as (cid, node) rows for the Lean checkers

    def observe(r):
        kept = [index.get(tuple(int(round(2 * v)) for v in p), -1) for p in np.asarray(r.points).reshape(-1, 3)]
        if r.has_connectors and len(r.connectors):
            kc = [int(v) for v in r.connectors.connector_id.values]
            pc = [_toint(v) for v in r.connectors['point'].values] if 'point' in r.connectors.columns else None
        else:
            kc, pc = [], []
        return kept, kc, pc

    def judge(tag, r, want_kept):
        kept, kc, pc = observe(r)
        ctx.oracle(sorted(kept) == sorted(want_kept), f'{tag}: kept points {sorted(kept)}, expected {sorted(want_kept)}', case)
        ok = ctx.ask(f'c18.chkconn {conn_s} | {ints(kept)} | {ints(kc)}') == '1'
        ctx.oracle(ok, f'{tag}: kept connectors {sorted(kc)} are not exactly those attached to the retained points '
                       f'{sorted(cid for cid, a in att.items() if a in set(kept))} (retained points {sorted(kept)})', case)
        if pc is not None:
            ok = all(0 <= j < len(kept) and kept[j] == att[cid] for cid, j in zip(kc, pc))
            ctx.oracle(ok, f'{tag}: `point` column {list(zip(kc, pc))} does not address each connector\'s own point {att} among '
                           f'the retained points {kept}', case)
        return kept, kc

    if case['variant'] == 'volumes':
        gb, gs = case['big'], case['small']
        try:
            vb, _ = build_volume(gb, name='big'); vs, _ = build_volume(gs, name='small')
        except BadMesh as e:
            ctx.count('bad_mesh', str(e)[:40]); return
        if surface_guard(ctx, [gb, gs], pts2):
            return
        mb = ctx.ask(f'c18.mem {solid_str(gb)} | {pts_str(pts2)}')
        ms = ctx.ask(f'c18.mem {solid_str(gs)} | {pts_str(pts2)}')
        for m1 in ('IN', 'OUT'):
            first = [i for i in range(len(pts2)) if (mb[i] == '1') == (m1 == 'IN')]
            parts = {}
            for m2 in ('IN', 'OUT'):
                dp = make_dots(pts2, conns)
                r, err = safe(lambda: navis.in_volume(navis.in_volume(dp, vb, mode=m1), vs, mode=m2))
                if err:
                    ctx.oracle(False, f'in_volume(in_volume(Dotprops, big, {m1}), small, {m2}) raised: {err}', case); continue
                want = [i for i in first if (ms[i] == '1') == (m2 == 'IN')]
                # model: the second step is in_volume on the Dotprops the first step produced
                m_first = ctx.ask(f'c18.dots {m1} | {solid_str(gb)} | {pts_str(pts2)} | {pconns_str(conns)}')
                k1 = is_int_list(m_first.split('|')[0])
                c1 = [c for c in conns if att[c[0]] in set(k1)]
                model = ctx.ask(f'c18.dots {m2} | {solid_str(gs)} | {pts_str([pts2[i] for i in k1])} | {pconns_str(c1)}')
                kept, kc, pc = observe(r)
                if pc is not None:
                    impl = f"{ints([k1.index(i) if i in k1 else -1 for i in kept])}|{','.join(f'{a}:{b}' for a, b in zip(kc, pc))}"
                    ctx.corr(impl, model, f'second in_volume(mode={m2}) after in_volume(big, {m1}): kept points|connector:point vs model', case)
                parts[m2] = judge(f'in_volume(in_volume(Dotprops, big, {m1}), small, {m2})', r, want)
                ctx.count('dotshist', f'volumes/{m1}/{m2}/conns-kept={len(parts[m2][1])}')
            if len(parts) == 2:
                after1 = [cid for cid, a in att.items() if a in set(first)]
                ok = ctx.ask(f"c18.chkpart {ints(after1)} | {ints(parts['IN'][1])} | {ints(parts['OUT'][1])}") == '1'
                ctx.oracle(ok, f"second prune: connectors of IN {parts['IN'][1]} and OUT {parts['OUT'][1]} do not partition the "
                               f"connectors {after1} of the once-pruned Dotprops (first mode {m1})", case)
    else:
        m1 = [bool(b) for b in case['mask1']]
        first = [i for i, b in enumerate(m1) if b]
        m2 = [bool(b) for b in case['mask2']][:len(first)]
        m2 += [False] * (len(first) - len(m2))
        parts = {}
        for name, mk in (('mask', m2), ('complement', [not b for b in m2])):
            dp = make_dots(pts2, conns)
            def fn():
                d1 = navis.subset_neuron(dp, np.array(m1, dtype=bool), inplace=case.get('inplace', False))
                d1 = dp if case.get('inplace', False) else d1
                return navis.subset_neuron(d1, np.array(mk, dtype=bool))
            r, err = safe(fn)
            if err:
                ctx.oracle(False, f'subset_neuron(subset_neuron(Dotprops, mask), {name}) raised: {err}', case); continue
            want = [i for i, b in zip(first, mk) if b]
            parts[name] = judge(f'subset_neuron(subset_neuron(Dotprops, mask1), {name} of mask2)', r, want)
            ctx.count('dotshist', f'masks/{name}/conns-kept={len(parts[name][1])}')
        if len(parts) == 2:
            after1 = [cid for cid, a in att.items() if a in set(first)]
            ok = ctx.ask(f"c18.chkpart {ints(after1)} | {ints(parts['mask'][1])} | {ints(parts['complement'][1])}") == '1'
            ctx.oracle(ok, f"second subset: connectors of mask {parts['mask'][1]} and of its complement {parts['complement'][1]} do not "
                           f"partition the connectors {after1} of the once-subset Dotprops", case)


def run_boundary(ctx, case):
    """Points exactly ON the surface (face interior / edge / vertex) are outside the property's quantifier: whatever navis
    answers is accepted; recorded so that the evidence shows the rule in force.  Only crash-freedom and shape are required."""
    geom = case['geom']
    try:
        vol, vox = build_volume(geom)
    except BadMesh as e:
        ctx.count('bad_mesh', str(e)[:40]); return
    P = half(case['pts'])
    res, err = safe(lambda: navis.in_volume(P, vol, n_rays=case.get('n_rays')))
    ctx.oracle(err is None and len(res) == len(P), f'in_volume on surface points raised / wrong shape: {err}', case)
    if err is None:
        for cls, b in zip(case['classes'], res):
            ctx.count('on_surface_answer', f'{cls}={"in" if b else "out"}')


# ---------------------------------------------------------------------------------------------------------------
# case generators
# ---------------------------------------------------------------------------------------------------------------
def gen_ids(rnd, n):
    kind = rnd.choice(['seq', 'shuffled', 'sparse', 'sparse', 'big', 'zero'])
    if kind == 'seq':
        ids = list(range(1, n + 1))
    elif kind == 'shuffled':
        ids = list(range(1, n + 1)); rnd.shuffle(ids)
    elif kind == 'sparse':
        ids = rnd.sample(range(1, 10 * n + 10), n)
    elif kind == 'big':
        base = rnd.choice((2 ** 31, 2 ** 40))
        ids = [base + v for v in rnd.sample(range(0, 50 * n), n)]
    else:
        ids = rnd.sample(range(0, 3 * n + 3), n)
        if 0 not in ids:
            ids[rnd.randrange(n)] = 0
    return ids


def gen_tree_on(rnd, geom, vox, n, split='mixed'):
    """n nodes at half-integer positions, random parent among earlier rows, rows then shuffled; connectors on nodes."""
    if split == 'inside' and vox:
        pos = [point_in_cell2(geom, rnd.choice(vox), rnd) for _ in range(n)]
    elif split == 'outside':
        lo, hi = posed_bbox2(geom)
        pos = [[int(hi[a]) + 3 + 2 * rnd.randrange(5) for a in range(3)] for _ in range(n)]
        pos = [[v | 1 for v in p] for p in pos]
    else:
        pos = query_points2(geom, vox, rnd, n)
    n = len(pos)
    ids = gen_ids(rnd, n)
    nodes = []
    for i in range(n):
        par = -1 if i == 0 or rnd.random() < 0.1 else ids[rnd.randrange(i)]
        nodes.append([ids[i], par] + pos[i])
    if rnd.random() < 0.6:
        rnd.shuffle(nodes)
    r = rnd.random()
    if r < 0.15:
        conns = None
    else:
        k = 0 if r < 0.25 else rnd.randrange(1, 2 * n + 1)
        cids = rnd.sample(range(100, 100 + 10 * k + 10), k)
        conns = [[cids[j], rnd.choice(ids), rnd.randrange(-5, 5), rnd.randrange(-5, 5), rnd.randrange(-5, 5), rnd.randrange(2)]
                 for j in range(k)]
    return nodes, conns


def gen_pconns(rnd, data2, k):
    """k connectors with positions (doubled) having a unique nearest row in data2."""
    out, cids = [], rnd.sample(range(100, 100 + 10 * k + 10), k)
    for j in range(k):
        for _ in range(50):
            base = rnd.choice(data2)
            p = [base[a] + rnd.randrange(-3, 4) for a in range(3)]
            if _unique(data2, p):
                out.append([cids[j]] + p)
                break
    return out


def distinct_points(pts):
    seen, out = set(), []
    for p in pts:
        if tuple(p) not in seen:
            seen.add(tuple(p)); out.append(p)
    return out


def gen_cases(ctx):
    rnd = ctx.rng
    q = ctx.quick()
    big = not q
    nr_all = [None, 1, 2, 3, 5, 8]

    # (e) volume histories (one Volume object: query, change in place, query again; copies / pickles in between);
    # every fourth history runs with the pyoctree stand-in so that `in_volume_pyoc` and its cache attribute execute
    if not ctx.search_mode:
        for h in fixed_hists():
            yield 'hist', h
    for i in range(ctx.budget(60, 700)):
        yield 'hist', gen_hist(rnd, q, shim=(i % 4 == 3))


    # (f1) VoxelNeuron
    for i in range(ctx.budget(50, 500)):
        geom = gen_geom(rnd, poly=False)
        lo, hi = posed_bbox2(geom)
        u = rnd.choice([[1, 1, 1], [1, 1, 1], [3, 3, 3], [1, 3, 1], [3, 1, 5]])
        frm = 'grid' if i % 4 == 3 else 'table'
        o = [rnd.randrange(-4, 5) for _ in range(3)]
        cells = []
        gvox = sorted(voxelise(geom['csg']))
        for _ in range(rnd.randrange(1, 14 if q else 40)):
            if rnd.random() < 0.55:     # the voxel containing a point of the solid (its centre is usually inside too)
                p2 = point_in_cell2(geom, rnd.choice(gvox), rnd)
                c = [((p2[a] - 1) // 2 - o[a]) // u[a] for a in range(3)]
            else:
                c = []
                for a in range(3):
                    c0 = (int(lo[a]) // 2 - o[a]) // u[a] - 2
                    c1 = (int(hi[a]) // 2 - o[a]) // u[a] + 2
                    c.append(rnd.randrange(c0, c1 + 1))
            cells.append(c)
        cells = distinct_points(cells)
        if frm == 'grid':               # grid indices are non-negative: shift the indices, compensate with the offset
            mn = [min(c[a] for c in cells) for a in range(3)]
            cells = [[c[a] - mn[a] for a in range(3)] for c in cells]
            o = [o[a] + mn[a] * u[a] for a in range(3)]
        vals = rnd.sample(range(1, 1000), len(cells))
        yield 'vox', {'geom': geom, 'cells': cells, 'values': vals, 'units': u, 'offset': o, 'from': frm,
                      'pad': [rnd.randrange(0, 2) for _ in range(3)],
                      'call': ['in_volume', 'in_volume', 'inplace', 'neuronlist'][i % 4], 'n_rays': rnd.choice(nr_all)}

    # (f2) back-end selection and ray counts
    reqs = ['ncollpyde', 'pyoctree', 'scipy', ['ncollpyde', 'pyoctree'], ['pyoctree', 'ncollpyde'], ['pyoctree', 'scipy'],
            ['scipy', 'ncollpyde'], ['pyoctree'], ['pyoctree', 'pyoctree', 'ncollpyde']]
    for i in range(ctx.budget(40, 300)):
        geom = gen_geom(rnd, shape='box' if i % 2 else None, poly=False)
        vox = sorted(voxelise(geom['csg']))
        yield 'backend', {'geom': geom, 'pts': query_points2(geom, vox, rnd, 10), 'backend': reqs[i % len(reqs)],
                          'n_rays': rnd.choice([None, None, 1, 2, 3, 5, 8, 0, -1]), 'shim': i % 3 == 2}

    # (f3) snap with exact ties (lattice data, queries at lattice midpoints) and refused `to=` values
    for i in range(ctx.budget(60, 500)):
        kind, to = [('tree', 'nodes'), ('tree', 'connectors'), ('dots', 'points'), ('mesh', 'vertices'), ('mesh', 'vertex')][i % 5]
        span = rnd.choice((2, 3, 4))
        data = distinct_points([[2 * rnd.randrange(-span, span) for _ in range(3)] for _ in range(rnd.randrange(3, 12))])
        if len(data) < 3:
            continue
        qs = []
        for _ in range(rnd.randrange(1, 6)):
            a, b = rnd.sample(data, 2)
            qs.append([(a[k] + b[k]) // 2 for k in range(3)] if rnd.random() < 0.7 else [rnd.randrange(-2 * span, 2 * span) for _ in range(3)])
        case = {'ntype': kind, 'to': to, 'data': data, 'ids': gen_ids(rnd, len(data)) if kind == 'tree' else None, 'queries': qs}
        if i % 17 == 16:
            case['bad_to'] = rnd.choice(['node', 'synapses', 'point', ''])
        yield 'snaptie', case


    # (f5) in_volume_pyoc ray consensus (pyoctree stand-in)
    for i in range(ctx.budget(25, 200)):
        geom = gen_geom(rnd, poly=False, minscale=2)
        vox = sorted(voxelise(geom['csg']))
        yield 'pyocrays', {'geom': geom, 'pts': query_points2(geom, vox, rnd, 12), 'n_rays': rnd.choice((1, 2, 2, 3, 4)),
                           'seed': rnd.randrange(1 << 30)}


    # (f6) snap: every coordinate dtype × non-integer queries (tenths), near-tie positions, single / array / float32 queries
    dts = ['int32', 'int64', 'float32', 'float64']
    sd_combos = [('tree', 'nodes'), ('tree', 'connectors'), ('dots', 'points'), ('mesh', 'vertices'), ('dots', 'connectors'),
                 ('mesh', 'connectors')]
    for i in range(ctx.budget(96, 800)):
        kind, to = sd_combos[i % len(sd_combos)]
        dt = dts[(i // len(sd_combos)) % 4]
        span = rnd.choice((3, 6, 40))
        data = distinct_points([[rnd.randrange(-span, span + 1) for _ in range(3)] for _ in range(rnd.randrange(3, 10))])
        if len(data) < 3:
            continue
        case = {'ntype': kind, 'to': to, 'dtype': dt, 'data': data, 'ids': gen_ids(rnd, len(data)) if kind == 'tree' else None,
                'single': rnd.random() < 0.3, 'qkind': rnd.choice(['list', 'f64', 'f64', 'f32']), 'how': rnd.choice(['ctor', 'setter'])}
        target = data
        if to == 'connectors':
            target = distinct_points([[rnd.randrange(-span, span + 1) for _ in range(3)] for _ in range(rnd.randrange(2, 7))])
            case['cdata'] = target
            case['cids'] = rnd.sample(range(500, 500 + 20 * len(target)), len(target))
        qs = []
        for _ in range(rnd.randrange(1, 6)):
            r = rnd.random()
            if r < 0.45 and len(target) >= 2:      # around the midpoint of two rows: x.4 / x.5 / x.6 (exact ties included)
                a, b = rnd.sample(target, 2)
                q = [5 * (a[k] + b[k]) for k in range(3)]
                q[rnd.randrange(3)] += rnd.choice((-1, 0, 1))
            elif r < 0.9:                          # anywhere near a row, fractional
                a = rnd.choice(target)
                q = [10 * a[k] + rnd.randrange(-25, 26) for k in range(3)]
            else:                                  # just below the next integer on every axis (truncation moves it by ~1 per axis)
                a = rnd.choice(target)
                q = [10 * a[k] + rnd.choice((-9, 9)) for k in range(3)]
            qs.append(q)
        case['queries10'] = qs
        yield 'snapdt', case


    # (f7) Dotprops with connectors pruned TWICE (the second prune finds the `point` column of the first)
    for i in range(ctx.budget(40, 300)):
        if i % 2 == 0:
            small = gen_geom(rnd, poly=False, pose_kind='trans')
            sp = small['pose']
            big = {'shape': 'box', 'csg': [[1, -2, -2, -2, 8, 8, 8]], 'pose': [1, 1, 1, 0, 0, 0, 'xyz'] + list(sp[7:10]), 'tri': rnd.randrange(1 << 16)}
            vox = sorted(voxelise(small['csg']))
            pts = distinct_points(query_points2(small, vox, rnd, rnd.randrange(6, 16)) +
                                  [point_in_cell2(small, rnd.choice(vox), rnd) for _ in range(4)])
            pts = off_surfaces([big, small], pts)
            if len(pts) < 4:
                continue
            yield 'dotshist', {'variant': 'volumes', 'big': big, 'small': small, 'pts': pts, 'conns': gen_pconns(rnd, pts, rnd.randrange(3, 10))}
        else:
            n = rnd.randrange(5, 14)
            pts = distinct_points([[(2 * rnd.randrange(-8, 9)) | 1 for _ in range(3)] for _ in range(n)])
            n = len(pts)
            mask1 = [rnd.random() < 0.7 for _ in range(n)]
            if sum(mask1) < 3:
                mask1 = [True] * n
            mask2 = [rnd.random() < 0.5 for _ in range(n)]
            yield 'dotshist', {'variant': 'masks', 'pts': pts, 'conns': gen_pconns(rnd, pts, rnd.randrange(3, 10)),
                               'mask1': mask1, 'mask2': mask2, 'inplace': rnd.random() < 0.3}

    # (f4) points exactly on the surface: recorded, not judged
    for i in range(ctx.budget(10, 60)):
        geom = gen_geom(rnd, shape='box', pose_kind='trans')
        b = geom['csg'][0]
        t = geom['pose'][7:10]
        lo2 = [2 * (b[1 + a] + t[a]) for a in range(3)]; hi2 = [2 * (b[4 + a] + t[a]) for a in range(3)]
        mid = [(lo2[a] + hi2[a]) // 2 | 1 for a in range(3)]
        mid = [min(max(mid[a], lo2[a] + 1), hi2[a] - 1) for a in range(3)]
        pts = [[lo2[0], mid[1], mid[2]], [hi2[0], mid[1], mid[2]], [lo2[0], lo2[1], mid[2]], [hi2[0], mid[1], hi2[2]], lo2, hi2]
        yield 'boundary', {'geom': geom, 'pts': pts, 'classes': ['face', 'face', 'edge', 'edge', 'vertex', 'vertex'],
                           'n_rays': rnd.choice(nr_all)}

    # (a) points: every shape first, then random
    for i in range(ctx.budget(120, 1200)):
        shape = ALL_SHAPES[i % len(ALL_SHAPES)] if i < 3 * len(ALL_SHAPES) else None
        geom = gen_geom(rnd, shape, big=big and rnd.random() < 0.5)
        vox = sorted(voxelise(geom['csg'] or []))
        pts = query_points2(geom, vox, rnd, rnd.choice((12, 40, 90) if q else (20, 80, 200)))
        variants = [['ncollpyde', nr, 'ndarray', 'volume', False] for nr in (nr_all if i % 3 == 0 else [rnd.choice(nr_all), None])]
        variants.append([None, None, rnd.choice(['frame', 'list']), rnd.choice(['volume', 'trimesh']), rnd.random() < 0.3])
        variants.append([['pyoctree', 'ncollpyde'], rnd.choice(nr_all), 'ndarray', 'volume', False])
        if geom['shape'] in CONVEX:
            variants.append(['scipy', None, 'ndarray', 'volume', False])
            variants.append([['pyoctree', 'scipy'], None, 'list', 'volume', False])
        yield 'points', {'geom': geom, 'pts': pts, 'variants': variants, 'mode_out': i % 7 == 0, 'check_vox': True}

    # (b1) TreeNeuron
    calls_all = ['in_volume', 'prune_by_volume', 'prune_inplace', 'in_volume_inplace', 'neuronlist']
    for i in range(ctx.budget(120, 1200)):
        geom = gen_geom(rnd, ALL_SHAPES[i % len(ALL_SHAPES)] if i < 2 * len(ALL_SHAPES) else None)
        vox = sorted(voxelise(geom['csg'] or []))
        split = ['mixed', 'mixed', 'mixed', 'inside', 'outside'][i % 5]
        nodes, conns = gen_tree_on(rnd, geom, vox, rnd.randrange(1, 12 if q else 30), split)
        calls = ['in_volume'] + ([rnd.choice(calls_all[1:])] if i % 2 == 0 else [])
        yield 'tree', {'geom': geom, 'nodes': nodes, 'conns': conns, 'calls': calls, 'n_rays': rnd.choice(nr_all)}

    # (b2) Dotprops
    for i in range(ctx.budget(60, 600)):
        geom = gen_geom(rnd)
        vox = sorted(voxelise(geom['csg'] or []))
        pts = distinct_points(query_points2(geom, vox, rnd, rnd.randrange(1, 12 if q else 30)))
        if i % 6 == 0 and vox:
            pts = distinct_points([point_in_cell2(geom, rnd.choice(vox), rnd) for _ in range(4)])
        conns = None if i % 5 == 4 else gen_pconns(rnd, pts, rnd.randrange(0, 8))
        yield 'dots', {'geom': geom, 'pts': pts, 'conns': conns,
                       'call': ['in_volume', 'inplace', 'in_volume', 'neuronlist'][i % 4]}

    # (b3) MeshNeuron: small tetrahedra (and loose triangles) spread over the scene
    for i in range(ctx.budget(70, 700)):
        want_clean = i % 2 == 0
        geom = gen_geom(rnd, minscale=2 if want_clean else 1, pose_kind='full' if want_clean else None, poly=False)
        vox = sorted(voxelise(geom['csg'] or []))
        s, f, idx, t = pose_parts(geom['pose'])
        verts, faces = [], []
        for _ in range(rnd.randrange(1, 5 if q else 9)):
            if want_clean and vox and rnd.random() < 0.6:
                # a tetrahedron inside one posed cell: anchor at the cell's lowest half-integer point
                c = rnd.choice(vox)
                q2 = [int(f[a]) * (2 * int(s[a]) * c[a] + 1) for a in range(3)]        # m = 0 corner, pre-perm
                step = [2 * int(f[a]) for a in range(3)]
                pre = [q2, [q2[0] + step[0], q2[1], q2[2]], [q2[0], q2[1] + step[1], q2[2]], [q2[0], q2[1], q2[2] + step[2]]]
                tet = [[p[idx[0]] + 2 * int(t[0]), p[idx[1]] + 2 * int(t[1]), p[idx[2]] + 2 * int(t[2])] for p in pre]
            else:
                a = query_points2(geom, vox, rnd, 1)[0]
                if want_clean:
                    lo, hi = posed_bbox2(geom)
                    a = [int(hi[k]) + 5 + 2 * rnd.randrange(4) | 1 for k in range(3)]
                d = rnd.choice((2, 2, 4))
                tet = [a, [a[0] + d, a[1], a[2]], [a[0], a[1] + d, a[2]], [a[0], a[1], a[2] + d]]
            if any(tuple(p) in {tuple(v) for v in verts} for p in tet):
                continue
            o = len(verts)
            verts += tet
            faces += [[o, o + 2, o + 1], [o, o + 1, o + 3], [o, o + 3, o + 2], [o + 1, o + 2, o + 3]]
        if not verts:
            continue
        conns = None if i % 5 == 4 else gen_pconns(rnd, verts, rnd.randrange(0, 6))
        yield 'mesh', {'geom': geom, 'verts': verts, 'faces': faces, 'conns': conns,
                       'call': ['in_volume', 'in_volume', 'inplace', 'neuronlist'][(i // 2) % 4]}

    # (c) several volumes
    for i in range(ctx.budget(60, 600)):
        k = rnd.choice((1, 2, 2, 3, 4))
        pose = gen_pose(rnd)
        vols = []
        for j in range(k):
            g = gen_geom(rnd)
            if g['shape'] != 'polytope':
                g['pose'] = pose if rnd.random() < 0.7 else gen_pose(rnd)
            vols.append(g)
        if rnd.random() < 0.25 and k > 1:
            vols[1] = json.loads(json.dumps(vols[0]))      # the same volume under two names
        names = rnd.sample(['LH', 'MB', 'AL', 'CA', 'v0', 'v1', 'x_y', 'Z9'], k)
        how = rnd.choice(['dict', 'list'])
        if how == 'list' and k > 1 and rnd.random() < 0.3:
            names[-1] = names[0]
        named = list(zip(names, vols))
        rnd.shuffle(named)
        g0 = vols[0]
        vox0 = sorted(voxelise(g0['csg'] or []))
        if i % 3 == 0:
            yield 'multi', {'vols': named, 'how': how, 'target': 'points',
                            'pts': off_surfaces(vols, query_points2(g0, vox0, rnd, 25))}
        else:
            nodes, conns = gen_tree_on(rnd, g0, vox0, rnd.randrange(2, 12))
            nodes = [n for n in nodes if not any(on_surface(g, n[2:5]) for g in vols)]
            left = {n[0] for n in nodes}
            conns = None if conns is None else [c for c in conns if c[1] in left]
            if not nodes:
                continue
            yield 'multi', {'vols': named, 'how': how, 'target': 'tree', 'nodes': nodes, 'conns': conns}
    for i in range(ctx.budget(25, 200)):
        k = rnd.choice((1, 2, 3)) if i % 5 != 4 else rnd.choice((2, 3))       # every fifth case: a list with a duplicated name
        pose = gen_pose(rnd)
        vols = []
        for j in range(k):
            g = gen_geom(rnd)
            if g['shape'] != 'polytope':
                g['pose'] = pose
            vols.append(g)
        names = rnd.sample(['LH', 'MB', 'AL', 'CA', 'v0', 'v1'], k)
        trees = []
        for j in range(rnd.randrange(1, 4)):
            g = rnd.choice(vols)
            nodes, conns = gen_tree_on(rnd, g, sorted(voxelise(g['csg'] or [])), rnd.randrange(1, 10))
            nodes = [n for n in nodes if not any(on_surface(v, n[2:5]) for v in vols)]
            left = {n[0] for n in nodes}
            conns = None if conns is None else [c for c in conns if c[1] in left]
            if nodes:
                trees.append([nodes, conns])
        if not trees:
            continue
        how = rnd.choice(['dict', 'list'])
        if i % 5 == 4:
            how = 'list'
            names[-1] = names[0]
        yield 'imat', {'vols': list(zip(names, vols)), 'how': how, 'mode': rnd.choice(['IN', 'OUT']),
                       'default_mode': rnd.random() < 0.5, 'trees': trees, 'attr': ['n_nodes', 'n_nodes', None, 'n_connectors'][i % 4],
                       'single': rnd.random() < 0.5}

    # (d) snap
    combos = [('tree', 'nodes'), ('tree', 'connectors'), ('dots', 'points'), ('dots', 'connectors'),
              ('mesh', 'vertices'), ('mesh', 'connectors')]
    vecs = [(1, 2, 2), (2, 3, 6), (1, 4, 8), (4, 4, 7), (2, 6, 9), (6, 6, 7), (0, 3, 4), (0, 0, 5), (0, 0, 0), (1, 1, 1), (2, 0, 1)]
    for i in range(ctx.budget(150, 1500)):
        kind, to = combos[i % len(combos)]
        n = rnd.randrange(1, 9 if q else 25)
        span = rnd.choice((6, 20, 1000))
        data = distinct_points([[rnd.randrange(-span, span) for _ in range(3)] for _ in range(n)])
        n = len(data)
        ids = gen_ids(rnd, n) if kind == 'tree' else None
        case = {'ntype': kind, 'to': to, 'data': data, 'ids': ids, 'single': rnd.random() < 0.3, 'int_coords': kind == 'tree' and i % 5 == 0}
        if kind == 'mesh':
            if n < 3:
                continue
            faces = [[j, j + 1, j + 2] for j in range(n - 2)]
            case['faces'] = faces
        target = data
        if to == 'connectors':
            m = rnd.randrange(1, 8)
            cdata = distinct_points([[rnd.randrange(-span, span) for _ in range(3)] for _ in range(m)])
            case['cdata'] = cdata
            case['cids'] = rnd.sample(range(500, 500 + 20 * len(cdata)), len(cdata))
            target = cdata
        qs = []
        for _ in range(rnd.randrange(1, 6)):
            for _ in range(60):
                base = rnd.choice(target)
                v = list(rnd.choice(vecs)); rnd.shuffle(v)
                mul = rnd.choice((1, 1, 2, 3))
                p = [base[a] + mul * v[a] * rnd.choice((-1, 1)) for a in range(3)]
                if _unique(target, p) and (to != 'connectors' or kind != 'mesh' or True):
                    qs.append(p); break
        if not qs:
            continue
        case['queries'] = qs
        yield 'snap', case


RUNNERS = {'dotshist': run_dotshist, 'snapdt': run_snapdt, 'pyocrays': run_pyocrays, 'vox': run_vox, 'backend': run_backend, 'snaptie': run_snaptie, 'boundary': run_boundary, 'hist': run_hist, 'points': run_points, 'tree': run_tree, 'dots': run_dots, 'mesh': run_mesh, 'multi': run_multi,
           'imat': run_imat, 'snap': run_snap}


def nontrivial(kind, case):
    if kind == 'points':
        return len(case['pts']) >= 4
    if kind in ('tree',):
        return len(case['nodes']) >= 2
    if kind == 'dots':
        return len(case['pts']) >= 2
    if kind == 'mesh':
        return len(case['verts']) >= 4
    if kind == 'multi':
        return len(case['vols']) >= 2
    if kind == 'imat':
        return True
    if kind == 'snap':
        return len(case['data']) >= 2 or bool(case.get('cdata'))
    if kind == 'dotshist':
        return len(case['conns']) >= 2
    if kind == 'hist':
        seen = set()
        for st in case['steps']:
            if st[0] == 'm':
                seen.add(st[1])
            elif st[0] == 'q' and st[1] in seen:
                return True
        return False
    return True


def run(ctx):
    ctx.extra['rule'] = (
        'geometry: CSG program over integer boxes (box, L, U, torus, shell with cavity, nested shells, disjoint boxes, random '
        'face-connected voxel growth, random add/carve programs) rejected unless the voxel boundary is a 2-manifold; integer pose '
        '(convex polytopes = hulls of 4-12 random integer points with exact integer face planes form a second family); pose: '
        '(scale 1..5 per axis, flips, axis permutation, translation up to 2000); mesh verified watertight/winding-consistent/'
        'volume by trimesh. streams: points (masks; back-ends, n_rays, input kinds), tree / dots / mesh (IN and OUT pruning with '
        'connectors; sparse, shuffled, >2^31 and 0 ids; all-inside / all-outside / mixed), multi (dict / list of 1-4 volumes, '
        'shuffled, duplicated names, same volume twice), imat, snap (TreeNeuron/Dotprops/MeshNeuron × nodes/points/vertices/'
        'connectors, integer coordinates, unique nearest neighbour, single and (N,3) queries), snaptie (exact ties, `vertex` alias, '
        'refused `to=`), hist (volume histories of 4-25 steps on 1-4 Volume objects: query / in-place mutator / copy-like '
        'derivation / pickle; query points drawn from the cells of the current AND of every earlier geometry of the object so '
        'that a stale structure answers differently), vox (VoxelNeuron), backend, pyocrays, boundary (recorded only). '
        'non-trivial: ≥4 query points / ≥2 nodes or points / ≥4 vertices / ≥2 volumes / ≥2 candidate rows / a history with a '
        'query after an in-place change of the same object; distinct = distinct JSON digest')
    ctx.extra['assumptions'] = [
        'query points, nodes, points and mesh-neuron vertices sit at half-integer coordinates (never on the surface); all '
        'coordinates are exactly representable doubles',
        'ncollpyde ray casting is external: its agreement with exact membership is tested on these cases, not proved',
        'pyoctree is not installed: in_volume_pyoc runs on a brute-force stand-in for pyoctree.PyOctree (line/triangle '
        'intersections, no acceleration) in the history, backend and pyocrays streams; its masks are NOT judged for geometric '
        'exactness (the function rounds crossing points to integers), only its cache freshness, back-end selection and ray '
        'consensus are; the scipy convex-hull fallback is only compared on convex volumes',
        'volume histories use box complexes in integer poses only (every mutator is an integer signed scaled permutation + '
        'translation or a replacement of the mesh), so the current solid is known exactly after every step',
        'the recording ncollpyde proxy is installed as navis.intersection.ray.ncollpyde for the duration of one history; if '
        'navis stops constructing its structure there the freshness flag is simply absent and only the masks are judged',
        'snap is only compared on inputs with a unique nearest neighbour (kd-tree tie order is not an observable)',
        'prevent_fragments=True (adds connecting nodes on purpose) is outside the partition statement and not generated',
        'MeshNeuron vertex / connector partition oracles are strict on meshes without straddling faces; with straddling faces the '
        'loss of vertices (and of the connectors sitting on them) is the open finding ' + SIG_MESH_STRADDLE + '; the vertex_id '
        'and own-connector oracles are strict on every mesh',
    ]
    ctx.extra['backends_available'] = {'ncollpyde': _isect.ncollpyde is not None, 'pyoctree': _isect.pyoctree is not None,
                                       'scipy': True}
    driver_is_current(ctx)
    for kind, case in gen_cases(ctx):
        c = dict(case, kind=kind)
        ctx.case(c, nontrivial=nontrivial(kind, case))
        RUNNERS[kind](ctx, c)


def driver_is_current(ctx):
    """The driver evaluates the model on facts GENERATED from the navis source (cache spec, shape of in_volume).  A driver
    binary left over from a different source tree (its rebuild failed for an unrelated reason) would mis-predict navis: that
    is an infrastructure problem (exit 2), never a violation."""
    from harness import common as _C
    from translator import gen_volcache, gen_involume
    meta = gen_volcache.generate(_C.REPO)[2]
    want_spec = '|'.join([
        ','.join(f"{b}={v['cache_attr'] or '-'}/{1 if v['rays_keyed'] else 0}" for b, v in meta['backends'].items()),
        ','.join(f"{m}={'+'.join(c)}" for m, c in meta['mutators'].items()),
        '+'.join(meta['pickle_drops'])])
    sh = gen_involume.shape(_C.REPO)
    want_shape = ','.join('-' if sh[f] is None else ('1' if sh[f] else '0') for f in gen_involume.FIELDS)
    got_spec, got_shape = ctx.ask('c18.cachespec x'), ctx.ask('c18.shape x')
    from translator import gen_snapcast
    want_casts = ','.join(f"{c}={v['class']}" for c, v in gen_snapcast.generate(_C.REPO)[2]['casts'].items())
    if ctx.ask('c18.snapcasts x') != want_casts:
        raise RuntimeError(f"the Lean driver was built from a different navis source tree (snap casts {ctx.ask('c18.snapcasts x')!r} "
                           f'vs {want_casts!r}): rebuild navisdrv')
    if got_spec != want_spec or got_shape != want_shape:
        raise RuntimeError('the Lean driver was built from a different navis source tree than the one under test '
                           f'(cache spec {got_spec!r} vs {want_spec!r}; shape {got_shape!r} vs {want_shape!r}): rebuild navisdrv')


def replay(ctx, rp):
    driver_is_current(ctx)
    case = rp['case']
    ctx.case(case)
    RUNNERS[case['kind']](ctx, case)


# ---------------------------------------------------------------------------------------------------------------
# shrinking: drop list elements while an oracle still fails
# ---------------------------------------------------------------------------------------------------------------
class _Probe:
    def __init__(self, ctx):
        self.ctx, self.fails, self.search_mode = ctx, [], False

    def count(self, *a, **k):
        pass

    def ask(self, line):
        return self.ctx.ask(line)

    def corr(self, *a, **k):
        return True

    def oracle(self, ok, what, case, signature=None, **k):
        if not ok and not (signature and self.ctx.match_known(signature)):
            self.fails.append(what)
        return ok


def _still_fails(ctx, case):
    p = _Probe(ctx)
    try:
        RUNNERS[case['kind']](p, case)
    except Exception:
        return False
    return bool(p.fails)


def _shrink_hist(ctx, failure, case):
    """Drop query / mutator steps (derivations stay: later steps address objects by position), then query points."""
    def fails_list(c):
        p = _Probe(ctx)
        try:
            RUNNERS['hist'](p, c)
        except Exception:
            return []
        return p.fails
    need_mask = any('is not the inside/outside mask' in f for f in fails_list(case))

    def _still_fails(_ctx, c):            # keep a *wrong answer* in the shrunk history when the original had one
        fl = fails_list(c)
        return bool(fl) and (not need_mask or any('is not the inside/outside mask' in f for f in fl))
    changed, rounds = True, 0
    while changed and rounds < 10:
        changed, rounds = False, rounds + 1
        i = len(case['steps']) - 1
        while i >= 0:
            if case['steps'][i][0] in ('q', 'm') and len(case['steps']) > 1:
                cand = dict(case); cand['steps'] = case['steps'][:i] + case['steps'][i + 1:]
                if _still_fails(ctx, cand):
                    case, changed = cand, True
            i -= 1
        # unused trailing derivations
        while len(case['steps']) > 1 and case['steps'][-1][0] == 'c':
            cand = dict(case); cand['steps'] = case['steps'][:-1]
            if _still_fails(ctx, cand):
                case, changed = cand, True
            else:
                break
    for k, st in enumerate(case['steps']):
        if st[0] != 'q':
            continue
        j = 0
        while j < len(case['steps'][k][5]) and len(case['steps'][k][5]) > 1:
            st = case['steps'][k]
            cand = dict(case)
            cand['steps'] = case['steps'][:k] + [st[:5] + [st[5][:j] + st[5][j + 1:]]] + case['steps'][k + 1:]
            if _still_fails(ctx, cand):
                case = cand
            else:
                j += 1
    fl = fails_list(case)
    fl = [f for f in fl if 'is not the inside/outside mask' in f] + fl
    out = dict(failure)
    out['case'] = case
    out['what'] = fl[0] if fl else failure['what']
    return out


def shrink(ctx, failure):
    case = json.loads(json.dumps(failure['case']))
    if case.get('kind') not in RUNNERS or not _still_fails(ctx, case):
        return None
    if case['kind'] == 'hist':
        return _shrink_hist(ctx, failure, case)
    fields = [f for f in ('pts', 'nodes', 'conns', 'queries', 'queries10', 'vols', 'trees', 'variants', 'calls') if isinstance(case.get(f), list)]
    changed, rounds = True, 0
    while changed and rounds < 30:
        changed, rounds = False, rounds + 1
        for f in fields:
            i = 0
            while i < len(case[f]) and len(case[f]) > (1 if f in ('vols', 'trees', 'queries', 'queries10', 'variants', 'calls', 'pts', 'nodes') else 0):
                cand = dict(case); cand[f] = case[f][:i] + case[f][i + 1:]
                if f == 'nodes' and isinstance(cand.get('conns'), list):      # keep connectors attached to existing nodes
                    left = {n[0] for n in cand['nodes']}
                    cand['conns'] = [c for c in cand['conns'] if c[1] in left]
                if _still_fails(ctx, cand):
                    case, changed = cand, True
                else:
                    i += 1
    if case['kind'] == 'snap' and case.get('ntype') != 'mesh':      # rows of the searched table (ids stay aligned)
        tf, idf = ('cdata', 'cids') if case['to'] == 'connectors' else ('data', 'ids')
        i = 0
        while i < len(case[tf]) and len(case[tf]) > 1:
            cand = dict(case); cand[tf] = case[tf][:i] + case[tf][i + 1:]
            if case.get(idf):
                cand[idf] = case[idf][:i] + case[idf][i + 1:]
            ok = all(_unique(cand[tf], q) for q in cand['queries'])
            if ok and _still_fails(ctx, cand):
                case = cand
            else:
                i += 1
    p = _Probe(ctx)
    RUNNERS[case['kind']](p, case)
    out = dict(failure)
    out['case'] = case
    out['what'] = p.fails[0] if p.fails else failure['what']
    return out
