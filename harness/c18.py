"""C18 — inside/outside tests and nearest-neighbour snapping are geometrically exact.

Tie (checked on every run).  Solids are CSG programs over integer boxes ("last box containing the point decides":
unions, differences, tori, nested / disjoint shells, random face-connected voxel sets).  The harness voxelises the
program, emits the boundary surface of the voxel set (two outward-wound triangles per exposed voxel face) as a watertight
manifold mesh — verified with trimesh (`is_watertight`, `is_winding_consistent`, volume == #voxels·|det|) — and puts it in
an integer pose (scale, flip, permute axes, translate; winding re-reversed for orientation-reversing poses).  The Lean
model gets the *program and the pose* (never the mesh) and answers exact membership for query points at half-integer
coordinates (doubled-integer protocol), so "inside" has no tolerance.  A second family are convex polytopes in general
position (hull of random integer points): the mesh is the hull triangulation, the model gets the exact integer face planes
(`memPoly`), query points are half-integer points lying on no face plane.

 (a) `navis.in_volume(points, vol)`   vs `c18.mem`, for every available back-end (`ncollpyde`; `scipy` convex hull for
     convex volumes only; `pyoctree` is not installed), `n_rays` ∈ {None,1,2,3,5,8}, ndarray / DataFrame / list input,
     Volume / trimesh input, `validate`; the voxelisation itself is cross-checked against `c18.mem` at every cell centre;
 (b) `navis.in_volume(x, vol, mode)` and `x.prune_by_volume` for TreeNeuron (sparse shuffled ids, connectors), Dotprops
     (connectors attached to their nearest point) and MeshNeuron (connectors attached to their nearest vertex) vs
     `c18.tree / c18.dots / c18.mesh`;
 (c) dict / list of volumes (points and neurons), shuffled order, duplicate names vs `c18.dict / c18.list / c18.dictpts`;
     `navis.intersection_matrix(..., attr='n_nodes')` vs `c18.imat`;
 (d) `TreeNeuron.snap / MeshNeuron.snap / Dotprops.snap` (nodes, vertices, points, connectors) on integer coordinates with
     unique nearest neighbours vs `c18.snap` (id and exact squared distance).
Oracles (the property on navis' own output, decided by the Lean checkers proved sound in Props/C18):
 * the mask is the exact membership (`checkMask`);
 * IN / OUT partition the nodes / points / vertices (`checkPartition`), each part carries exactly its own connectors
   (`checkOwnConns`), the rewritten `point` / `vertex_id` columns address the same point / vertex;
 * every volume of a dict / list is answered as if it were alone (compared with navis' own single-volume answers);
 * `snap` returns an id / row that is a true argmin with its exact distance (`checkNearest`).
The ray caster (ncollpyde) is external: its exactness is TESTED here against the exact model, not proved."""
import json, math, warnings, itertools
import numpy as np
import pandas as pd

warnings.filterwarnings('ignore')
import trimesh
import navis
from navis.intersection import intersect as _isect

navis.config.pbar_hide = True
navis.set_loggers('ERROR')

PERMS = ['xyz', 'xzy', 'yxz', 'yzx', 'zxy', 'zyx']
IDENT_POSE = [1, 1, 1, 0, 0, 0, 'xyz', 0, 0, 0]

SIG_MESH_STRADDLE = 'in_volume/MeshNeuron/straddling-face/vertices-in-neither-part'


# ---------------------------------------------------------------------------------------------------------------
# geometry: CSG → voxels → watertight mesh → pose
# ---------------------------------------------------------------------------------------------------------------
def voxelise(csg):
    """Set of unit voxels (lower corners) of the solid: the last box containing the cell decides."""
    if not csg:
        return set()
    lo = [min(b[1 + a] for b in csg) for a in range(3)]
    hi = [max(b[4 + a] for b in csg) for a in range(3)]
    vox = set()
    for i in range(lo[0], hi[0]):
        for j in range(lo[1], hi[1]):
            for k in range(lo[2], hi[2]):
                val = False
                for b in csg:
                    if b[1] <= i < b[4] and b[2] <= j < b[5] and b[3] <= k < b[6]:
                        val = bool(b[0])
                if val:
                    vox.add((i, j, k))
    return vox


def _connected6(cells):
    cells = set(cells)
    if not cells:
        return True
    seen, todo = set(), [next(iter(cells))]
    while todo:
        c = todo.pop()
        if c in seen:
            continue
        seen.add(c)
        for a in range(3):
            for s in (-1, 1):
                n = list(c); n[a] += s; n = tuple(n)
                if n in cells and n not in seen:
                    todo.append(n)
    return len(seen) == len(cells)


def is_manifold(vox):
    """The boundary surface of the voxel set is a 2-manifold iff around every lattice vertex both the filled and the
    empty cells of the 2x2x2 block are face-connected (rules out edge-only and corner-only contacts, of the solid and of
    its complement)."""
    verts = set()
    for (i, j, k) in vox:
        for d in itertools.product((0, 1), repeat=3):
            verts.add((i + d[0], j + d[1], k + d[2]))
    for (x, y, z) in verts:
        block = [(x - 1 + d[0], y - 1 + d[1], z - 1 + d[2]) for d in itertools.product((0, 1), repeat=3)]
        f = [c for c in block if c in vox]
        e = [c for c in block if c not in vox]
        if not _connected6(f) or not _connected6(e):
            return False
    return True


def voxel_surface(vox, rnd):
    """Boundary of a voxel set: for every voxel face not shared with another voxel two outward-wound triangles
    (random diagonal)."""
    verts, faces = {}, []

    def vid(p):
        if p not in verts:
            verts[p] = len(verts)
        return verts[p]

    for c in sorted(vox):
        for ax in range(3):
            for sg in (-1, 1):
                nb = list(c); nb[ax] += sg
                if tuple(nb) in vox:
                    continue
                u, v = (ax + 1) % 3, (ax + 2) % 3
                co = c[ax] + (1 if sg > 0 else 0)

                def P(du, dv):
                    p = [0, 0, 0]; p[ax] = co; p[u] = c[u] + du; p[v] = c[v] + dv
                    return tuple(p)
                q = [P(0, 0), P(1, 0), P(1, 1), P(0, 1)]     # counter-clockwise seen from +ax
                if sg < 0:
                    q = q[::-1]
                i = [vid(p) for p in q]
                if rnd.random() < 0.5:
                    faces += [[i[0], i[1], i[2]], [i[0], i[2], i[3]]]
                else:
                    faces += [[i[1], i[2], i[3]], [i[1], i[3], i[0]]]
    V = np.array(sorted(verts, key=verts.get), dtype=np.int64).reshape(-1, 3)
    return V, np.array(faces, dtype=np.int64).reshape(-1, 3)


def pose_parts(pose):
    s = np.array(pose[0:3], dtype=np.int64)
    f = np.array([-1 if x else 1 for x in pose[3:6]], dtype=np.int64)
    idx = ['xyz'.index(c) for c in pose[6]]
    t = np.array(pose[7:10], dtype=np.int64)
    return s, f, idx, t


def pose_verts(pose, V):
    s, f, idx, t = pose_parts(pose)
    W = V * (s * f)
    return W[:, idx] + t


def pose_det_sign(pose):
    s, f, idx, t = pose_parts(pose)
    inv = sum(1 for a in range(3) for b in range(a + 1, 3) if idx[a] > idx[b])
    return int(np.prod(f)) * (-1 if inv % 2 else 1)


def pose_str(pose):
    return ','.join(str(x) for x in pose)


def solid_str(geom):
    if geom.get('shape') == 'polytope':
        return 'H:' + ';'.join(','.join(str(x) for x in h) for h in polytope_parts(geom['verts'])[2])
    body = ';'.join(('+' if b[0] else '-') + ','.join(str(x) for x in b[1:]) for b in geom['csg'])
    if geom.get('pose') and list(geom['pose']) != IDENT_POSE:
        return f"P:{pose_str(geom['pose'])}@{body}"
    return body


_VOLCACHE = {}


class BadMesh(Exception):
    pass


def build_volume(geom, name='vol'):
    """navis.Volume of the posed solid + bookkeeping.  Raises BadMesh if the generated surface is not a proper volume
    (a generator problem, never a navis problem)."""
    if geom.get('shape') == 'polytope':
        try:
            V, F, planes = polytope_parts(geom['verts'])
        except BadMesh:
            raise
        except Exception as e:
            raise BadMesh(f'hull failed: {e}')
        tm = trimesh.Trimesh(V, F, process=False)
        if not (tm.is_watertight and tm.is_winding_consistent and tm.volume > 0):
            raise BadMesh('polytope mesh is not a volume')
        return navis.Volume(V.copy(), F.copy(), name=name), []
    key = json.dumps([geom['csg'], geom.get('pose'), geom.get('tri', 0)])
    if key not in _VOLCACHE:
        import random as _r
        vox = voxelise(geom['csg'])
        if not vox or not is_manifold(vox):
            raise BadMesh('empty or non-manifold voxel set')
        V, F = voxel_surface(vox, _r.Random(geom.get('tri', 0)))
        pose = geom.get('pose') or IDENT_POSE
        W = pose_verts(pose, V)
        if pose_det_sign(pose) < 0:
            F = F[:, ::-1]
        tm = trimesh.Trimesh(W.astype(float), F, process=False)
        det = int(np.prod(pose[0:3]))
        if not (tm.is_watertight and tm.is_winding_consistent and abs(tm.volume - len(vox) * det) < 1e-6):
            raise BadMesh(f'watertight={tm.is_watertight} winding={tm.is_winding_consistent} vol={tm.volume} '
                          f'expected={len(vox) * det}')
        _VOLCACHE[key] = (W.astype(float), F.copy(), sorted(vox))
        if len(_VOLCACHE) > 400:
            _VOLCACHE.pop(next(iter(_VOLCACHE)))
    W, F, vox = _VOLCACHE[key]
    return navis.Volume(W.copy(), F.copy(), name=name), vox


def posed_bbox2(geom):
    """Bounding box of the posed solid in doubled coordinates."""
    if geom.get('shape') == 'polytope':
        V = np.array(geom['verts'], dtype=np.int64)
        return 2 * V.min(axis=0), 2 * V.max(axis=0)
    csg = geom['csg']
    lo = [min(b[1 + a] for b in csg) for a in range(3)]
    hi = [max(b[4 + a] for b in csg) for a in range(3)]
    C = pose_verts(geom.get('pose') or IDENT_POSE, np.array([lo, hi], dtype=np.int64))
    return 2 * C.min(axis=0), 2 * C.max(axis=0)


def point_in_cell2(geom, cell, rnd):
    """A random half-integer point (doubled coordinates) of the posed image of unit cell `cell`."""
    s, f, idx, t = pose_parts(geom.get('pose') or IDENT_POSE)
    q = []
    for a in range(3):
        m = rnd.randrange(int(s[a]))
        q.append(int(f[a]) * (2 * int(s[a]) * cell[a] + 2 * m + 1))
    return [q[idx[0]] + 2 * int(t[0]), q[idx[1]] + 2 * int(t[1]), q[idx[2]] + 2 * int(t[2])]


def query_points2(geom, vox, rnd, n):
    """Half-integer query points (doubled, all odd): about half inside cells of the solid, the rest in and around the
    bounding box, a few far away."""
    lo, hi = posed_bbox2(geom)
    if geom.get('shape') == 'polytope':
        planes = polytope_parts(geom['verts'])[2]
        pts = []
        for _ in range(20 * n):
            if len(pts) >= n:
                break
            m = 5 if rnd.random() < 0.8 else 40
            p = [rnd.randrange(int(lo[a]) - m, int(hi[a]) + m, 2) | 1 for a in range(3)]
            if all(h[0] * p[0] + h[1] * p[1] + h[2] * p[2] != 2 * h[3] for h in planes):     # never on a face plane
                pts.append(p)
        return pts
    pts = []
    for _ in range(n):
        r = rnd.random()
        if r < 0.45 and vox:
            pts.append(point_in_cell2(geom, rnd.choice(vox), rnd))
        elif r < 0.93:
            pts.append([rnd.randrange(int(lo[a]) - 5, int(hi[a]) + 5, 2) | 1 for a in range(3)])
        else:
            pts.append([(rnd.randrange(-400, 400) * 2) | 1 for a in range(3)])
    return pts


def pts_str(pts):
    return ';'.join(f'{p[0]},{p[1]},{p[2]}' for p in pts)


def half(pts2):
    return np.array(pts2, dtype=float).reshape(-1, 3) / 2.0



# --- convex polytopes in general position (exact integer face planes) --------------------------------------------
def _cross(u, v):
    return [u[1] * v[2] - u[2] * v[1], u[2] * v[0] - u[0] * v[2], u[0] * v[1] - u[1] * v[0]]


_POLYCACHE = {}


def polytope_parts(verts):
    key = json.dumps(verts)
    if key not in _POLYCACHE:
        if len(_POLYCACHE) > 300:
            _POLYCACHE.clear()
        _POLYCACHE[key] = _polytope_parts(verts)
    V, F, planes = _POLYCACHE[key]
    return V.copy(), F.copy(), list(planes)


def _polytope_parts(verts):
    """Hull of integer points: (vertex array, outward-wound triangles, de-duplicated integer half-spaces [nx,ny,nz,d] with
    n·x < d inside).  Everything exact in Python integers except the hull combinatorics (scipy/Qhull), which trimesh
    re-verifies."""
    from scipy.spatial import ConvexHull
    P = np.array(verts, dtype=np.int64)
    hull = ConvexHull(P.astype(float))
    hv = sorted(int(i) for i in hull.vertices)
    remap = {old: new for new, old in enumerate(hv)}
    V = [[int(x) for x in P[i]] for i in hv]
    N = len(V)
    tot = [sum(v[a] for v in V) for a in range(3)]
    faces, planes = [], set()
    for simp in hull.simplices:
        i, j, k = (remap[int(t)] for t in simp)
        a, b, c = V[i], V[j], V[k]
        n = _cross([b[t] - a[t] for t in range(3)], [c[t] - a[t] for t in range(3)])
        side = sum(n[t] * (N * a[t] - tot[t]) for t in range(3))
        if side == 0 or n == [0, 0, 0]:
            raise BadMesh('degenerate polytope facet')
        if side < 0:
            n = [-x for x in n]
            j, k = k, j
        g = math.gcd(math.gcd(abs(n[0]), abs(n[1])), abs(n[2]))
        n = [x // g for x in n]
        planes.add((n[0], n[1], n[2], sum(n[t] * a[t] for t in range(3))))
        faces.append([i, j, k])
    return np.array(V, dtype=float), np.array(faces, dtype=np.int64), sorted(planes)


def gen_polytope(rnd, big=False):
    R = rnd.choice((2, 3, 4, 6) if big else (2, 3, 4))
    off = [rnd.randrange(-30, 31) for _ in range(3)] if rnd.random() < 0.6 else [0, 0, 0]
    for _ in range(100):
        k = rnd.randrange(4, 13)
        pts = distinct_points([[rnd.randrange(-R, R + 1) + off[a] for a in range(3)] for _ in range(k)])
        if len(pts) < 4:
            continue
        try:
            V, F, planes = polytope_parts(pts)
            tm = trimesh.Trimesh(V, F, process=False)
            if tm.is_watertight and tm.is_winding_consistent and tm.volume > 0.1:
                return {'shape': 'polytope', 'verts': [[int(x) for x in v] for v in V], 'pose': None, 'csg': None}
        except Exception:
            continue
    raise RuntimeError('no polytope generated')


def on_surface(geom, p2):
    """The (doubled) point lies on the surface of the volume — only possible for polytopes (a face plane through it) or for
    non-half-integer points of a box complex; such points are outside the property's quantifier."""
    if geom.get('shape') == 'polytope':
        return any(h[0] * p2[0] + h[1] * p2[1] + h[2] * p2[2] == 2 * h[3] for h in polytope_parts(geom['verts'])[2])
    return any(int(v) % 2 == 0 for v in p2)


def off_surfaces(geoms, pts):
    return [p for p in pts if not any(on_surface(g, p) for g in geoms)]


def surface_guard(ctx, geoms, pts):
    """True (and the case is skipped) if some query point / node / vertex of a hand-made or shrunk case sits on a surface."""
    if any(on_surface(g, p) for g in geoms for p in pts):
        ctx.count('skipped_point_on_surface')
        return True
    return False

# --- shape generators ------------------------------------------------------------------------------------------
def _rbox(rnd, lo, hi, minsize=1):
    b = []
    for a in range(3):
        x0 = rnd.randrange(lo, hi - minsize + 1)
        x1 = rnd.randrange(x0 + minsize, hi + 1)
        b.append((x0, x1))
    return [b[0][0], b[1][0], b[2][0], b[0][1], b[1][1], b[2][1]]


def gen_csg(rnd, shape, big=False):
    G = 6 if big else 4
    if shape == 'box':
        return [[1] + _rbox(rnd, 0, G)]
    if shape == 'L':
        a, b, h = rnd.randrange(2, G + 1), rnd.randrange(2, G + 1), rnd.randrange(1, 3)
        w1, w2 = rnd.randrange(1, a), rnd.randrange(1, b)
        return [[1, 0, 0, 0, a, w2, h], [1, 0, 0, 0, w1, b, h]]
    if shape == 'U':
        a, b, h = rnd.randrange(3, G + 2), rnd.randrange(2, G + 1), rnd.randrange(1, 3)
        w = rnd.randrange(1, b)
        return [[1, 0, 0, 0, a, w, h], [1, 0, 0, 0, 1, b, h], [1, a - 1, 0, 0, a, b, h]]
    if shape == 'torus':
        a, b, h = rnd.randrange(3, G + 2), rnd.randrange(3, G + 2), rnd.randrange(1, 3)
        x0, y0 = rnd.randrange(1, a - 1), rnd.randrange(1, b - 1)
        x1, y1 = rnd.randrange(x0 + 1, a), rnd.randrange(y0 + 1, b)
        return [[1, 0, 0, 0, a, b, h], [0, x0, y0, 0, x1, y1, h]]
    if shape == 'shell':
        d = [rnd.randrange(3, G + 2) for _ in range(3)]
        c = []
        for a in range(3):
            x0 = rnd.randrange(1, d[a] - 1); x1 = rnd.randrange(x0 + 1, d[a])
            c.append((x0, x1))
        return [[1, 0, 0, 0] + d, [0, c[0][0], c[1][0], c[2][0], c[0][1], c[1][1], c[2][1]]]
    if shape == 'nested':
        d = [rnd.randrange(5, 7) for _ in range(3)]
        inner = [1, 2, 2, 2, d[0] - 2, d[1] - 2, d[2] - 2]
        if rnd.random() < 0.5 and min(d) >= 5:
            inner = [1, 2, 2, 2, rnd.randrange(3, d[0] - 1), rnd.randrange(3, d[1] - 1), rnd.randrange(3, d[2] - 1)]
        return [[1, 0, 0, 0] + d, [0, 1, 1, 1, d[0] - 1, d[1] - 1, d[2] - 1], inner]
    if shape == 'disjoint':
        b1 = _rbox(rnd, 0, 3)
        gap = rnd.randrange(1, 4)
        b2 = _rbox(rnd, 0, 3)
        ax = rnd.randrange(3)
        sh = b1[3 + ax] + gap - b2[ax]
        b2[ax] += sh; b2[3 + ax] += sh
        return [[1] + b1, [1] + b2]
    if shape == 'grow':
        n = rnd.randrange(2, 14 if big else 9)
        vox = {(0, 0, 0)}
        while len(vox) < n:
            c = rnd.choice(sorted(vox)); a = rnd.randrange(3); s = rnd.choice((-1, 1))
            nb = list(c); nb[a] += s
            if all(-2 <= x <= 3 for x in nb):
                vox.add(tuple(nb))
        return [[1, i, j, k, i + 1, j + 1, k + 1] for (i, j, k) in sorted(vox)]
    if shape == 'csg':
        k = rnd.randrange(2, 5)
        out = [[1] + _rbox(rnd, 0, G + 1, 2)]
        for _ in range(k - 1):
            out.append([rnd.choice((0, 1, 1))] + _rbox(rnd, 0, G + 1))
        return out
    raise ValueError(shape)


SHAPES = ['box', 'L', 'U', 'torus', 'shell', 'nested', 'disjoint', 'grow', 'csg']
CONVEX = {'box', 'polytope'}
ALL_SHAPES = SHAPES + ['polytope']


def gen_pose(rnd, kind=None, minscale=1):
    kind = kind or rnd.choice(['ident', 'trans', 'flip', 'perm', 'scale', 'full', 'full', 'full'])
    pose = list(IDENT_POSE)
    if kind in ('trans', 'full'):
        m = rnd.choice((5, 30, 2000))
        pose[7:10] = [rnd.randrange(-m, m + 1) for _ in range(3)]
    if kind in ('flip', 'full'):
        pose[3:6] = [rnd.randrange(2) for _ in range(3)]
        if kind == 'flip' and not any(pose[3:6]):
            pose[3 + rnd.randrange(3)] = 1
    if kind in ('perm', 'full'):
        pose[6] = rnd.choice(PERMS[1:] if kind == 'perm' else PERMS)
    if kind in ('scale', 'full'):
        if rnd.random() < 0.5:
            k = rnd.choice((2, 3, 4)); pose[0:3] = [k, k, k]
        else:
            pose[0:3] = [rnd.choice((1, 2, 3, 5)) for _ in range(3)]
    pose[0:3] = [max(minscale, x) for x in pose[0:3]]
    return pose


def gen_geom(rnd, shape=None, big=False, pose_kind=None, minscale=1, poly=True):
    if shape == 'polytope' or (shape is None and poly and rnd.random() < 0.15):
        return gen_polytope(rnd, big)
    for _ in range(200):
        sh = shape or rnd.choice(SHAPES)
        csg = gen_csg(rnd, sh, big)
        vox = voxelise(csg)
        if vox and is_manifold(vox):
            return {'shape': sh, 'csg': csg, 'pose': gen_pose(rnd, pose_kind, minscale), 'tri': rnd.randrange(1 << 16)}
    raise RuntimeError('no manifold shape generated')


def geom_class(geom):
    if geom.get('shape') == 'polytope':
        return f"polytope/{len(geom['verts'])}v"
    p = geom.get('pose') or IDENT_POSE
    tags = []
    if p[0:3] != [1, 1, 1]:
        tags.append('scale')
    if any(p[3:6]):
        tags.append('flip')
    if p[6] != 'xyz':
        tags.append('perm')
    if p[7:10] != [0, 0, 0]:
        tags.append('trans')
    return geom.get('shape', '?') + '/' + ('+'.join(tags) or 'ident')


# ---------------------------------------------------------------------------------------------------------------
# small helpers
# ---------------------------------------------------------------------------------------------------------------
def ints(l):
    return ','.join(str(int(x)) for x in l)


def bits(mask):
    return ''.join('1' if bool(b) else '0' for b in mask)


def conn_ids(x):
    c = getattr(x, 'connectors', None)
    if c is None or len(c) == 0:
        return []
    return [int(v) for v in c.connector_id.values]


def _toint(v):
    try:
        return int(v)
    except (ValueError, TypeError):      # NaN from a failed re-indexing
        return -1


def is_int_list(s):
    return [int(x) for x in s.split(',') if x.strip() != '']


def safe(fn):
    try:
        return fn(), None
    except Exception as e:      # noqa
        return None, f'{type(e).__name__}: {str(e)[:160]}'


# ---------------------------------------------------------------------------------------------------------------
# (a) points
# ---------------------------------------------------------------------------------------------------------------
def run_points(ctx, case):
    geom = case['geom']
    try:
        vol, vox = build_volume(geom)
    except BadMesh as e:
        ctx.count('bad_mesh', str(e)[:40])
        return
    S = solid_str(geom)
    if surface_guard(ctx, [geom], case['pts']):
        return
    ctx.count('shape_pose', geom_class(geom))
    # the voxelisation the mesh was built from is the model's solid (every cell of the bounding box, one point each)
    if case.get('check_vox', True) and geom.get('shape') != 'polytope':
        csg = geom['csg']
        lo = [min(b[1 + a] for b in csg) - 1 for a in range(3)]
        hi = [max(b[4 + a] for b in csg) + 1 for a in range(3)]
        cells = [(i, j, k) for i in range(lo[0], hi[0]) for j in range(lo[1], hi[1]) for k in range(lo[2], hi[2])]
        import random as _r
        rr = _r.Random(1)
        cpts = [point_in_cell2(geom, c, rr) for c in cells]
        want = bits([c in set(vox) for c in cells])
        ctx.corr(want, ctx.ask(f'c18.mem {S} | {pts_str(cpts)}'), 'voxelisation of the CSG program == model membership at cell points', case)
    pts2 = case['pts']
    model = ctx.ask(f'c18.mem {S} | {pts_str(pts2)}')
    P = half(pts2)
    ctx.count('frac_inside', round(model.count('1') / max(1, len(model)), 1))
    variants = case.get('variants') or [['ncollpyde', None, 'ndarray', 'volume', False]]
    for backend, n_rays, inp, vkind, validate in variants:
        if backend == 'scipy' and geom.get('shape') not in CONVEX:
            continue
        x = P if inp == 'ndarray' else (pd.DataFrame(P, columns=['x', 'y', 'z']) if inp == 'frame' else P.tolist())
        v = vol if vkind == 'volume' else trimesh.Trimesh(np.asarray(vol.vertices), np.asarray(vol.faces), process=False)
        kw = {}
        if backend is not None:
            kw['backend'] = backend
        res, err = safe(lambda: navis.in_volume(x, v, n_rays=n_rays, validate=validate, **kw))
        tag = f'{backend}/n_rays={n_rays}/{inp}/{vkind}/validate={validate}'
        ctx.count('points_variant', f'{backend}/n_rays={n_rays}')
        if err:
            ctx.oracle(False, f'in_volume(points) raised [{tag}]: {err}', case)
            continue
        got = bits(res)
        ctx.corr(got, model, f'in_volume(points) mask vs exact membership [{tag}]', case)
        ok = ctx.ask(f'c18.chkmask {S} | {pts_str(pts2)} | {got}') == '1' if len(got) == len(pts2) else False
        ctx.oracle(ok, f'in_volume(points) is not the exact inside/outside mask [{tag}] got={got} exact={model}', case)
    if case.get('mode_out'):
        # documented behaviour: `mode` only applies to neurons; bare points always get the IN mask (model: inVolumePoints)
        res, err = safe(lambda: navis.in_volume(P, vol, mode='OUT'))
        ctx.corr(bits(res) if err is None else err, model, 'in_volume(points, mode=OUT) returns the plain mask', case)


# ---------------------------------------------------------------------------------------------------------------
# (b) neurons
# ---------------------------------------------------------------------------------------------------------------
def make_tree(nodes, conns, nid=1):
    ids = {n[0] for n in nodes}
    df = pd.DataFrame({'node_id': [int(n[0]) for n in nodes],
                       'parent_id': [int(n[1]) if n[1] in ids else -1 for n in nodes],
                       'x': [n[2] / 2 for n in nodes], 'y': [n[3] / 2 for n in nodes], 'z': [n[4] / 2 for n in nodes],
                       'radius': 0.01})
    df = df.astype({'node_id': np.int64, 'parent_id': np.int64})
    t = navis.TreeNeuron(df, id=nid, name=f'n{nid}')
    if conns is not None:
        t.connectors = pd.DataFrame({'connector_id': np.array([c[0] for c in conns], dtype=np.int64),
                                     'node_id': np.array([c[1] for c in conns], dtype=np.int64),
                                     'x': [float(c[2]) for c in conns], 'y': [float(c[3]) for c in conns],
                                     'z': [float(c[4]) for c in conns],
                                     'type': np.array([c[5] for c in conns], dtype=np.int64)})
    return t


def nodes_str(nodes):
    return ';'.join(f'{n[0]}:{n[2]},{n[3]},{n[4]}' for n in nodes)


def tconns_str(conns):
    return ';'.join(f'{c[0]}:{c[1]}' for c in (conns or []))


def run_tree(ctx, case):
    geom = case['geom']
    try:
        vol, vox = build_volume(geom)
    except BadMesh as e:
        ctx.count('bad_mesh', str(e)[:40]); return
    S = solid_str(geom)
    nodes, conns = case['nodes'], case['conns']
    if surface_guard(ctx, [geom], [n[2:5] for n in nodes]):
        return
    ctx.count('tree_shape', geom_class(geom).split('/')[0])
    all_ids = [n[0] for n in nodes]
    # hypothesis `Attached` of Props/C18.each_carries_own_connectors: every connector sits on an existing node (the generators
    # guarantee it; a hand-made / shrunk case outside it is only compared with the model, which follows the code there)
    attached = all(c[1] in set(all_ids) for c in (conns or []))
    if not attached:
        ctx.count('tree_dangling_connectors')
    res = {}
    for mode in ('IN', 'OUT'):
        model = ctx.ask(f'c18.tree {mode} | {S} | {nodes_str(nodes)} | {tconns_str(conns)}')
        calls = case.get('calls') or ['in_volume']
        for call in calls:
            t = make_tree(nodes, conns)
            if call == 'in_volume':
                fn = lambda: navis.in_volume(t, vol, mode=mode, n_rays=case.get('n_rays'))
            elif call == 'prune_by_volume':
                fn = lambda: t.prune_by_volume(vol, mode=mode)
            elif call == 'prune_inplace':
                def fn():
                    t.prune_by_volume(vol, mode=mode, inplace=True)
                    return t
            elif call == 'in_volume_inplace':
                def fn():
                    navis.in_volume(t, vol, mode=mode, inplace=True)
                    return t
            elif call == 'neuronlist':
                fn = lambda: navis.in_volume(navis.NeuronList([t]), vol, mode=mode)[0]
            r, err = safe(fn)
            ctx.count('tree_call', call)
            if err:
                ctx.oracle(False, f'{call}(TreeNeuron, mode={mode}) raised: {err}', case)
                continue
            kept = [int(v) for v in r.nodes.node_id.values]
            kc = conn_ids(r)
            ctx.corr(f'{ints(sorted(kept))}|{ints(sorted(kc))}', _sort_tree(model),
                     f'{call}(TreeNeuron, mode={mode}) kept nodes|connectors vs model', case)
            ok = not attached or ctx.ask(f'c18.chkconn {tconns_str(conns)} | {ints(kept)} | {ints(kc)}') == '1'
            ctx.oracle(ok, f'{call}(TreeNeuron, mode={mode}): kept connectors {sorted(kc)} are not exactly those attached '
                           f'to the kept nodes {sorted(kept)}', case)
            if call == calls[0]:
                res[mode] = (kept, kc)
    if 'IN' in res and 'OUT' in res:
        ok = ctx.ask(f"c18.chkpart {ints(all_ids)} | {ints(res['IN'][0])} | {ints(res['OUT'][0])}") == '1'
        ctx.oracle(ok, f"TreeNeuron: mode IN keeps {sorted(res['IN'][0])}, mode OUT keeps {sorted(res['OUT'][0])}: "
                       f"not a partition of the nodes {sorted(all_ids)}", case)
        call_c = [c[0] for c in (conns or [])]
        ok = not attached or ctx.ask(f"c18.chkpart {ints(call_c)} | {ints(res['IN'][1])} | {ints(res['OUT'][1])}") == '1'
        ctx.oracle(ok, f"TreeNeuron: connectors of IN {sorted(res['IN'][1])} and OUT {sorted(res['OUT'][1])} do not "
                       f"partition the connectors {sorted(call_c)}", case)
        ctx.count('tree_split', 'both' if res['IN'][0] and res['OUT'][0] else ('all-in' if res['IN'][0] else 'all-out'))


def _sort_tree(model):
    a, b = model.split('|')
    return f'{ints(sorted(is_int_list(a)))}|{ints(sorted(is_int_list(b)))}'


def pconns_str(conns):
    return ';'.join(f'{c[0]}:{c[1]},{c[2]},{c[3]}' for c in (conns or []))


def make_dots(pts2, conns):
    P = half(pts2)
    dp = navis.Dotprops(P, k=None, vect=np.tile([1., 0., 0.], (len(P), 1)), alpha=np.ones(len(P)), id=3)
    if conns is not None:
        dp.connectors = pd.DataFrame({'connector_id': np.array([c[0] for c in conns], dtype=np.int64),
                                      'x': [c[1] / 2 for c in conns], 'y': [c[2] / 2 for c in conns],
                                      'z': [c[3] / 2 for c in conns], 'type': 0})
    return dp


def run_dots(ctx, case):
    geom = case['geom']
    try:
        vol, vox = build_volume(geom)
    except BadMesh as e:
        ctx.count('bad_mesh', str(e)[:40]); return
    S = solid_str(geom)
    pts2, conns = case['pts'], case['conns']
    if surface_guard(ctx, [geom], pts2):
        return
    index = {tuple(p): i for i, p in enumerate(pts2)}
    res = {}
    for mode in ('IN', 'OUT'):
        model = ctx.ask(f'c18.dots {mode} | {S} | {pts_str(pts2)} | {pconns_str(conns)}')
        dp = make_dots(pts2, conns)
        call = case.get('call', 'in_volume')
        if call == 'in_volume':
            r, err = safe(lambda: navis.in_volume(dp, vol, mode=mode))
        else:
            r, err = safe(lambda: dp.prune_by_volume(vol, mode=mode))
        if err:
            ctx.oracle(False, f'{call}(Dotprops, mode={mode}) raised: {err}', case)
            continue
        kept = [index.get(tuple(int(round(2 * v)) for v in p), -1) for p in np.asarray(r.points).reshape(-1, 3)]
        if r.has_connectors:
            c = r.connectors
            pc = [_toint(v) for v in c['point'].values] if 'point' in c.columns else None
            kc = [int(v) for v in c.connector_id.values]
        else:
            pc, kc = [], []
        if pc is None:      # nothing was pruned: the column is only created when subsetting
            impl = f"{ints(kept)}|{ints(kc)}"
            mm = model.split('|')
            model_c = f"{mm[0]}|{ints([int(x.split(':')[0]) for x in mm[1].split(',') if x])}"
            ctx.corr(impl, model_c, f'{call}(Dotprops, mode={mode}) kept points|connectors vs model (nothing pruned)', case)
        else:
            impl = f"{ints(kept)}|{','.join(f'{a}:{b}' for a, b in zip(kc, pc))}"
            ctx.corr(impl, model, f'{call}(Dotprops, mode={mode}) kept points|connector:point vs model', case)
            # the rewritten `point` column addresses the connector's own (nearest) point in the pruned cloud
            att = {c[0]: _nearest_unique(pts2, c[1:4]) for c in (conns or [])}
            ok = all(0 <= j < len(kept) and kept[j] == att[cid] for cid, j in zip(kc, pc))
            ctx.oracle(ok, f'{call}(Dotprops, mode={mode}): `point` column {list(zip(kc, pc))} does not address the '
                           f'nearest points {att} among kept rows {kept}', case)
        att = {c[0]: _nearest_unique(pts2, c[1:4]) for c in (conns or [])}
        own = sorted(cid for cid, a in att.items() if a in set(kept))
        ctx.oracle(sorted(kc) == own, f'{call}(Dotprops, mode={mode}): kept connectors {sorted(kc)} != connectors whose '
                                      f'nearest point is kept {own}', case)
        res[mode] = (kept, kc)
    if len(res) == 2:
        ok = ctx.ask(f"c18.chkpart {ints(range(len(pts2)))} | {ints(res['IN'][0])} | {ints(res['OUT'][0])}") == '1'
        ctx.oracle(ok, f"Dotprops: IN keeps rows {res['IN'][0]}, OUT keeps rows {res['OUT'][0]}: not a partition of "
                       f"0..{len(pts2) - 1}", case)
        allc = [c[0] for c in (conns or [])]
        ok = ctx.ask(f"c18.chkpart {ints(allc)} | {ints(res['IN'][1])} | {ints(res['OUT'][1])}") == '1'
        ctx.oracle(ok, f"Dotprops: connectors of IN {res['IN'][1]} and OUT {res['OUT'][1]} do not partition {allc}", case)


def _d2(a, b):
    return sum((int(x) - int(y)) ** 2 for x, y in zip(a, b))


def _nearest_unique(data, p):
    ds = [_d2(p, q) for q in data]
    m = min(ds)
    assert ds.count(m) == 1, 'generator must produce unique nearest neighbours'
    return ds.index(m)


def make_mesh(verts2, faces, conns):
    m = navis.MeshNeuron((half(verts2), np.array(faces, dtype=np.int64).reshape(-1, 3)), id=5)
    if conns is not None:
        m.connectors = pd.DataFrame({'connector_id': np.array([c[0] for c in conns], dtype=np.int64),
                                     'x': [c[1] / 2 for c in conns], 'y': [c[2] / 2 for c in conns],
                                     'z': [c[3] / 2 for c in conns], 'type': 0})
    return m


def run_mesh(ctx, case):
    geom = case['geom']
    try:
        vol, vox = build_volume(geom)
    except BadMesh as e:
        ctx.count('bad_mesh', str(e)[:40]); return
    S = solid_str(geom)
    conns = case['conns']
    if surface_guard(ctx, [geom], case['verts']):
        return
    m0 = make_mesh(case['verts'], case['faces'], conns)
    # what navis actually holds after trimesh processing is what the model sees
    verts2 = [[int(round(2 * v)) for v in p] for p in np.asarray(m0.vertices)]
    faces = [[int(a) for a in f] for f in np.asarray(m0.faces)]
    index = {tuple(p): i for i, p in enumerate(verts2)}
    if len(index) != len(verts2) or not verts2:
        ctx.count('mesh_skipped', 'duplicate/empty vertices'); return
    att = {c[0]: _nearest_unique(verts2, c[1:4]) for c in (conns or [])}
    faces_s = ';'.join(f'{a},{b},{c}' for a, b, c in faces)
    res, straddle = {}, None
    for mode in ('IN', 'OUT'):
        model = ctx.ask(f'c18.mesh {mode} | {S} | {pts_str(verts2)} | {faces_s} | {pconns_str(conns)}')
        m_kept, m_subset, m_conns, m_nf, m_str = model.split('|')
        straddle = m_str == '1'
        m = make_mesh(case['verts'], case['faces'], conns)
        call = case.get('call', 'in_volume')
        if call == 'in_volume':
            r, err = safe(lambda: navis.in_volume(m, vol, mode=mode))
        else:
            r, err = safe(lambda: m.prune_by_volume(vol, mode=mode))
        if err:
            ctx.oracle(False, f'{call}(MeshNeuron, mode={mode}) raised: {err}', case)
            continue
        rv = np.asarray(r.vertices).reshape(-1, 3)
        kept = [index.get(tuple(int(round(2 * v)) for v in p), -1) for p in rv]
        nf = len(np.asarray(r.faces).reshape(-1, 3))
        if r.has_connectors:
            c = r.connectors
            kc = [int(v) for v in c.connector_id.values]
            vid = [_toint(v) for v in c['vertex_id'].values] if 'vertex_id' in c.columns else None
        else:
            kc, vid = [], []
        if vid is None:
            impl = f'{ints(kept)}|{ints(kc)}|{nf}'
            mod = f"{m_kept}|{ints([int(x.split(':')[0]) for x in m_conns.split(',') if x])}|{m_nf}"
            ctx.corr(impl, mod, f'{call}(MeshNeuron, mode={mode}) vertices|connectors|#faces vs model (nothing pruned)', case)
        else:
            impl = f"{ints(kept)}|{','.join(f'{a}:{b}' for a, b in zip(kc, vid))}|{nf}"
            ctx.corr(impl, f'{m_kept}|{m_conns}|{m_nf}',
                     f'{call}(MeshNeuron, mode={mode}) vertices|connector:vertex_id|#faces vs model', case)
            ok = all(0 <= j < len(kept) and kept[j] == att[cid] for cid, j in zip(kc, vid))
            ctx.oracle(ok, f'{call}(MeshNeuron, mode={mode}): `vertex_id` {list(zip(kc, vid))} does not address the '
                           f'connectors\' own vertices {att} among kept vertices {kept}', case)
        own = sorted(cid for cid, a in att.items() if a in set(kept))
        ctx.oracle(sorted(kc) == own, f'{call}(MeshNeuron, mode={mode}): kept connectors {sorted(kc)} != connectors whose '
                                      f'nearest vertex survives in the pruned mesh {own}', case)
        res[mode] = (kept, kc)
    ctx.count('mesh_class', 'straddle' if straddle else 'no-straddle')
    if len(res) == 2:
        ok = ctx.ask(f"c18.chkpart {ints(range(len(verts2)))} | {ints(res['IN'][0])} | {ints(res['OUT'][0])}") == '1'
        lost = sorted(set(range(len(verts2))) - set(res['IN'][0]) - set(res['OUT'][0]))
        ctx.oracle(ok, f"MeshNeuron: IN keeps vertices {res['IN'][0]}, OUT keeps {res['OUT'][0]}: not a partition of "
                       f"0..{len(verts2) - 1} (in neither part: {lost})", case,
                   signature=SIG_MESH_STRADDLE if straddle else None)
        allc = [c[0] for c in (conns or [])]
        ok = ctx.ask(f"c18.chkpart {ints(allc)} | {ints(res['IN'][1])} | {ints(res['OUT'][1])}") == '1'
        ctx.oracle(ok, f"MeshNeuron: connectors of IN {res['IN'][1]} and OUT {res['OUT'][1]} do not partition {allc}", case,
                   signature=SIG_MESH_STRADDLE if straddle else None)


# ---------------------------------------------------------------------------------------------------------------
# (c) several volumes, intersection matrix
# ---------------------------------------------------------------------------------------------------------------
def vols_str(named):
    return '/'.join(f'{k}={solid_str(g)}' for k, g in named)


def run_multi(ctx, case):
    named = [(k, g) for k, g in case['vols']]
    try:
        built = [(k, build_volume(g, name=k)[0]) for k, g in named]
    except BadMesh as e:
        ctx.count('bad_mesh', str(e)[:40]); return
    how = case['how']           # 'dict' | 'list'
    if surface_guard(ctx, [g for _, g in named], case['pts'] if case['target'] == 'points' else [n[2:5] for n in case['nodes']]):
        return
    names = [k for k, _ in named]
    dup = len(set(names)) != len(names)
    ctx.count('multi', f"{how}/{len(named)}/{case['target']}" + ('/dup-names' if dup else ''))
    container = (lambda: {k: v for k, v in built}) if how == 'dict' else (lambda: [v for _, v in built])
    if how == 'dict' and dup:
        return
    if case['target'] == 'points':
        pts2 = case['pts']
        P = half(pts2)
        r, err = safe(lambda: navis.in_volume(P, container()))
        if dup:
            ctx.corr('ERR:dup' if err and 'Duplicate' in err else f'no error ({err})', 'ERR:dup',
                     'list of volumes with a duplicated name is refused', case)
            return
        if err:
            ctx.oracle(False, f'in_volume(points, {how} of volumes) raised: {err}', case); return
        model = ctx.ask(f'c18.dictpts {vols_str(named)} | {pts_str(pts2)}')
        impl = '/'.join(f'{k}:{bits(r[k])}' for k in r)
        ctx.corr(sorted(impl.split('/')), sorted(model.split('/')), f'in_volume(points, {how} of volumes) vs model', case)
        ctx.oracle(sorted(r.keys()) == sorted(names), f'in_volume(points, {how}): keys {sorted(r.keys())} != volume names '
                                                      f'{sorted(names)}', case)
        for k, v in built:
            single = bits(navis.in_volume(P, v))
            ctx.oracle(k in r and bits(r[k]) == single,
                       f'in_volume(points, {how} of {len(built)} volumes)[{k!r}] = {bits(r[k]) if k in r else None} differs '
                       f'from the single-volume answer {single}', case)
        return
    nodes, conns = case['nodes'], case['conns']
    for mode in case.get('modes', ['IN', 'OUT']):
        t = make_tree(nodes, conns)
        r, err = safe(lambda: navis.in_volume(t, container(), mode=mode))
        if dup:
            ctx.corr('ERR:dup' if err and 'Duplicate' in err else f'no error ({err})',
                     ctx.ask(f"c18.list {mode} | {vols_str(named)} | {nodes_str(nodes)} | {tconns_str(conns)}"),
                     'list of volumes with a duplicated name is refused', case)
            continue
        if err:
            ctx.oracle(False, f'in_volume(TreeNeuron, {how} of volumes, mode={mode}) raised: {err}', case); continue
        model = ctx.ask(f"c18.{how} {mode} | {vols_str(named)} | {nodes_str(nodes)} | {tconns_str(conns)}")

        def canon(ids, cids):
            return f'{ints(sorted(ids))}:{ints(sorted(cids))}'
        impl = sorted(f"{k}:{canon(r[k].nodes.node_id.values, conn_ids(r[k]))}" for k in r)
        mod = sorted(f"{e.split(':')[0]}:{canon(is_int_list(e.split(':')[1]), is_int_list(e.split(':')[2]))}"
                     for e in model.split('/') if e)
        ctx.corr(impl, mod, f'in_volume(TreeNeuron, {how} of volumes, mode={mode}) vs model', case)
        ctx.oracle(sorted(r.keys()) == sorted(names), f'in_volume(neuron, {how}, mode={mode}): keys {sorted(r.keys())} != '
                                                      f'volume names {sorted(names)}', case)
        for k, v in built:
            s = navis.in_volume(make_tree(nodes, conns), v, mode=mode)
            single = canon(s.nodes.node_id.values, conn_ids(s))
            got = canon(r[k].nodes.node_id.values, conn_ids(r[k])) if k in r else None
            ctx.oracle(got == single, f'in_volume(neuron, {how} of {len(built)} volumes, mode={mode})[{k!r}] = {got} differs '
                                      f'from the single-volume answer {single}', case)
        # the caller's neuron is not consumed by the loop (every volume sees the full neuron)
        ctx.oracle(len(t.nodes) == len(nodes), 'in_volume with several volumes modified the input neuron', case)


def run_imat(ctx, case):
    named = [(k, g) for k, g in case['vols']]
    try:
        built = [(k, build_volume(g, name=k)[0]) for k, g in named]
    except BadMesh as e:
        ctx.count('bad_mesh', str(e)[:40]); return
    trees = case['trees']
    if surface_guard(ctx, [g for _, g in named], [n[2:5] for t in trees for n in t[0]]):
        return
    how, mode = case['how'], case['mode']
    nl = navis.NeuronList([make_tree(n, c, nid=i + 1) for i, (n, c) in enumerate(trees)])
    vols = {k: v for k, v in built} if how == 'dict' else [v for _, v in built]
    kw = {} if mode == 'IN' and case.get('default_mode') else {'mode': mode}
    df, err = safe(lambda: navis.intersection_matrix(nl, vols, attr='n_nodes', **kw))
    if err:
        ctx.oracle(False, f'intersection_matrix raised: {err}', case); return
    ts = ' # '.join(f'{nodes_str(n)}~{tconns_str(c)}' for n, c in trees)
    model = ctx.ask(f'c18.imat {mode} | {vols_str(named)} | {ts}')
    impl = sorted(f"{k}:{ints(df.loc[k].values)}" for k in df.index)
    ctx.corr(impl, sorted(model.split('/')), f'intersection_matrix(attr=n_nodes, mode={mode}, {how}) vs model', case)
    ctx.oracle(list(df.columns) == [i + 1 for i in range(len(trees))] and sorted(df.index) == sorted(k for k, _ in named),
               f'intersection_matrix labels: rows {list(df.index)} cols {list(df.columns)}', case)
    # cell == number of nodes exactly inside / outside that volume alone
    for k, g in named:
        for i, (n, c) in enumerate(trees):
            m = ctx.ask(f'c18.mem {solid_str(g)} | {pts_str([x[2:5] for x in n])}')
            want = m.count('1') if mode == 'IN' else m.count('0')
            ctx.oracle(int(df.loc[k, i + 1]) == want, f'intersection_matrix[{k!r}, neuron {i + 1}] = {df.loc[k, i + 1]} but '
                                                      f'{want} nodes are {mode.lower()}side that volume', case)
    ctx.count('imat', f'{how}/{mode}/{len(named)}x{len(trees)}')


# ---------------------------------------------------------------------------------------------------------------
# (d) snap
# ---------------------------------------------------------------------------------------------------------------
def run_snap(ctx, case):
    kind, to = case['ntype'], case['to']
    data, ids, qs = case['data'], case.get('ids'), case['queries']
    cdata, cids = case.get('cdata'), case.get('cids')
    single = case.get('single', False)
    D = np.array(data, dtype=float).reshape(-1, 3)
    if kind == 'tree':
        df = pd.DataFrame({'node_id': np.array(ids, dtype=np.int64), 'parent_id': np.array([-1] + ids[:-1], dtype=np.int64),
                           'x': D[:, 0], 'y': D[:, 1], 'z': D[:, 2], 'radius': 0.01})
        if case.get('int_coords'):
            df = df.astype({'x': np.int64, 'y': np.int64, 'z': np.int64})
        x = navis.TreeNeuron(df, id=1)
    elif kind == 'dots':
        x = navis.Dotprops(D, k=None, vect=np.tile([1., 0., 0.], (len(D), 1)), id=1)
    else:
        faces = case['faces']
        x = navis.MeshNeuron((D, np.array(faces, dtype=np.int64)), id=1)
        if len(x.vertices) != len(D) or not np.array_equal(np.asarray(x.vertices), D):
            ctx.count('snap_skipped', 'mesh vertices reprocessed'); return
    if cdata is not None:
        C = np.array(cdata, dtype=float).reshape(-1, 3)
        cdf = pd.DataFrame({'connector_id': np.array(cids, dtype=np.int64), 'x': C[:, 0], 'y': C[:, 1], 'z': C[:, 2], 'type': 0})
        if kind == 'tree':
            cdf['node_id'] = [ids[_nearest_unique(data, c) if _unique(data, c) else 0] for c in cdata]
        x.connectors = cdf
    if to == 'connectors':
        tdata, tids = cdata, (cids if kind == 'tree' else None)
    else:
        tdata, tids = data, (ids if kind == 'tree' else None)
    ctx.count('snap', f'{kind}/{to}/{"single" if single else "multi"}')
    locs = qs[0] if single else qs
    r, err = safe(lambda: x.snap(locs, to=to))
    if err:
        ctx.oracle(False, f'{kind}.snap(to={to}) raised: {err}', case); return
    got_id, got_d = r
    got_id = [int(got_id)] if single else [int(v) for v in np.asarray(got_id)]
    got_d = [float(got_d)] if single else [float(v) for v in np.asarray(got_d)]
    qq = [qs[0]] if single else qs
    model = ctx.ask(f"c18.snap {pts_str(tdata)} | {ints(tids) if tids else ''} | {pts_str(qq)}").split(';')
    for q, gi, gd, mo in zip(qq, got_id, got_d, model):
        mi, md2 = (int(v) for v in mo.split(':'))
        impl = f'{gi}:{gd!r}'
        ctx.corr(impl, f'{mi}:{math.sqrt(md2)!r}', f'{kind}.snap(to={to}) (id, distance) vs model argmin', case)
        # property on navis' own answer: the id/row it returns is a true nearest neighbour, the distance is exact
        if tids:
            rows = [i for i, v in enumerate(tids) if v == gi]
            row = rows[0] if len(rows) == 1 else -1
        else:
            row = gi
        d2 = round(gd * gd)
        exact = row >= 0 and gd == math.sqrt(d2)
        ok = exact and ctx.ask(f'c18.chknear {pts_str(tdata)} | {q[0]},{q[1]},{q[2]} | {row} | {d2}') == '1'
        ctx.oracle(ok, f'{kind}.snap({q}, to={to}) returned ({gi}, {gd}) which is not (nearest {to[:-1]}, exact distance); '
                       f'nearest is {mi} at sqrt({md2})', case)


def _unique(data, p):
    ds = [_d2(p, q) for q in data]
    return ds.count(min(ds)) == 1


# ---------------------------------------------------------------------------------------------------------------
# case generators
# ---------------------------------------------------------------------------------------------------------------
def gen_ids(rnd, n):
    kind = rnd.choice(['seq', 'shuffled', 'sparse', 'sparse', 'big', 'zero'])
    if kind == 'seq':
        ids = list(range(1, n + 1))
    elif kind == 'shuffled':
        ids = list(range(1, n + 1)); rnd.shuffle(ids)
    elif kind == 'sparse':
        ids = rnd.sample(range(1, 10 * n + 10), n)
    elif kind == 'big':
        base = rnd.choice((2 ** 31, 2 ** 40))
        ids = [base + v for v in rnd.sample(range(0, 50 * n), n)]
    else:
        ids = rnd.sample(range(0, 3 * n + 3), n)
        if 0 not in ids:
            ids[rnd.randrange(n)] = 0
    return ids


def gen_tree_on(rnd, geom, vox, n, split='mixed'):
    """n nodes at half-integer positions, random parent among earlier rows, rows then shuffled; connectors on nodes."""
    if split == 'inside' and vox:
        pos = [point_in_cell2(geom, rnd.choice(vox), rnd) for _ in range(n)]
    elif split == 'outside':
        lo, hi = posed_bbox2(geom)
        pos = [[int(hi[a]) + 3 + 2 * rnd.randrange(5) for a in range(3)] for _ in range(n)]
        pos = [[v | 1 for v in p] for p in pos]
    else:
        pos = query_points2(geom, vox, rnd, n)
    n = len(pos)
    ids = gen_ids(rnd, n)
    nodes = []
    for i in range(n):
        par = -1 if i == 0 or rnd.random() < 0.1 else ids[rnd.randrange(i)]
        nodes.append([ids[i], par] + pos[i])
    if rnd.random() < 0.6:
        rnd.shuffle(nodes)
    r = rnd.random()
    if r < 0.15:
        conns = None
    else:
        k = 0 if r < 0.25 else rnd.randrange(1, 2 * n + 1)
        cids = rnd.sample(range(100, 100 + 10 * k + 10), k)
        conns = [[cids[j], rnd.choice(ids), rnd.randrange(-5, 5), rnd.randrange(-5, 5), rnd.randrange(-5, 5), rnd.randrange(2)]
                 for j in range(k)]
    return nodes, conns


def gen_pconns(rnd, data2, k):
    """k connectors with positions (doubled) having a unique nearest row in data2."""
    out, cids = [], rnd.sample(range(100, 100 + 10 * k + 10), k)
    for j in range(k):
        for _ in range(50):
            base = rnd.choice(data2)
            p = [base[a] + rnd.randrange(-3, 4) for a in range(3)]
            if _unique(data2, p):
                out.append([cids[j]] + p)
                break
    return out


def distinct_points(pts):
    seen, out = set(), []
    for p in pts:
        if tuple(p) not in seen:
            seen.add(tuple(p)); out.append(p)
    return out


def gen_cases(ctx):
    rnd = ctx.rng
    q = ctx.quick()
    big = not q
    nr_all = [None, 1, 2, 3, 5, 8]

    # (a) points: every shape first, then random
    for i in range(ctx.budget(120, 1200)):
        shape = ALL_SHAPES[i % len(ALL_SHAPES)] if i < 3 * len(ALL_SHAPES) else None
        geom = gen_geom(rnd, shape, big=big and rnd.random() < 0.5)
        vox = sorted(voxelise(geom['csg'] or []))
        pts = query_points2(geom, vox, rnd, rnd.choice((12, 40, 90) if q else (20, 80, 200)))
        variants = [['ncollpyde', nr, 'ndarray', 'volume', False] for nr in (nr_all if i % 3 == 0 else [rnd.choice(nr_all), None])]
        variants.append([None, None, rnd.choice(['frame', 'list']), rnd.choice(['volume', 'trimesh']), rnd.random() < 0.3])
        variants.append([['pyoctree', 'ncollpyde'], rnd.choice(nr_all), 'ndarray', 'volume', False])
        if geom['shape'] in CONVEX:
            variants.append(['scipy', None, 'ndarray', 'volume', False])
            variants.append([['pyoctree', 'scipy'], None, 'list', 'volume', False])
        yield 'points', {'geom': geom, 'pts': pts, 'variants': variants, 'mode_out': i % 7 == 0, 'check_vox': True}

    # (b1) TreeNeuron
    calls_all = ['in_volume', 'prune_by_volume', 'prune_inplace', 'in_volume_inplace', 'neuronlist']
    for i in range(ctx.budget(120, 1200)):
        geom = gen_geom(rnd, ALL_SHAPES[i % len(ALL_SHAPES)] if i < 2 * len(ALL_SHAPES) else None)
        vox = sorted(voxelise(geom['csg'] or []))
        split = ['mixed', 'mixed', 'mixed', 'inside', 'outside'][i % 5]
        nodes, conns = gen_tree_on(rnd, geom, vox, rnd.randrange(1, 12 if q else 30), split)
        calls = ['in_volume'] + ([rnd.choice(calls_all[1:])] if i % 2 == 0 else [])
        yield 'tree', {'geom': geom, 'nodes': nodes, 'conns': conns, 'calls': calls, 'n_rays': rnd.choice(nr_all)}

    # (b2) Dotprops
    for i in range(ctx.budget(60, 600)):
        geom = gen_geom(rnd)
        vox = sorted(voxelise(geom['csg'] or []))
        pts = distinct_points(query_points2(geom, vox, rnd, rnd.randrange(1, 12 if q else 30)))
        if i % 6 == 0 and vox:
            pts = distinct_points([point_in_cell2(geom, rnd.choice(vox), rnd) for _ in range(4)])
        conns = None if i % 5 == 4 else gen_pconns(rnd, pts, rnd.randrange(0, 8))
        yield 'dots', {'geom': geom, 'pts': pts, 'conns': conns, 'call': 'in_volume'}

    # (b3) MeshNeuron: small tetrahedra (and loose triangles) spread over the scene
    for i in range(ctx.budget(70, 700)):
        want_clean = i % 2 == 0
        geom = gen_geom(rnd, minscale=2 if want_clean else 1, pose_kind='full' if want_clean else None, poly=False)
        vox = sorted(voxelise(geom['csg'] or []))
        s, f, idx, t = pose_parts(geom['pose'])
        verts, faces = [], []
        for _ in range(rnd.randrange(1, 5 if q else 9)):
            if want_clean and vox and rnd.random() < 0.6:
                # a tetrahedron inside one posed cell: anchor at the cell's lowest half-integer point
                c = rnd.choice(vox)
                q2 = [int(f[a]) * (2 * int(s[a]) * c[a] + 1) for a in range(3)]        # m = 0 corner, pre-perm
                step = [2 * int(f[a]) for a in range(3)]
                pre = [q2, [q2[0] + step[0], q2[1], q2[2]], [q2[0], q2[1] + step[1], q2[2]], [q2[0], q2[1], q2[2] + step[2]]]
                tet = [[p[idx[0]] + 2 * int(t[0]), p[idx[1]] + 2 * int(t[1]), p[idx[2]] + 2 * int(t[2])] for p in pre]
            else:
                a = query_points2(geom, vox, rnd, 1)[0]
                if want_clean:
                    lo, hi = posed_bbox2(geom)
                    a = [int(hi[k]) + 5 + 2 * rnd.randrange(4) | 1 for k in range(3)]
                d = rnd.choice((2, 2, 4))
                tet = [a, [a[0] + d, a[1], a[2]], [a[0], a[1] + d, a[2]], [a[0], a[1], a[2] + d]]
            if any(tuple(p) in {tuple(v) for v in verts} for p in tet):
                continue
            o = len(verts)
            verts += tet
            faces += [[o, o + 2, o + 1], [o, o + 1, o + 3], [o, o + 3, o + 2], [o + 1, o + 2, o + 3]]
        if not verts:
            continue
        conns = None if i % 5 == 4 else gen_pconns(rnd, verts, rnd.randrange(0, 6))
        yield 'mesh', {'geom': geom, 'verts': verts, 'faces': faces, 'conns': conns, 'call': 'in_volume'}

    # (c) several volumes
    for i in range(ctx.budget(60, 600)):
        k = rnd.choice((1, 2, 2, 3, 4))
        pose = gen_pose(rnd)
        vols = []
        for j in range(k):
            g = gen_geom(rnd)
            if g['shape'] != 'polytope':
                g['pose'] = pose if rnd.random() < 0.7 else gen_pose(rnd)
            vols.append(g)
        if rnd.random() < 0.25 and k > 1:
            vols[1] = json.loads(json.dumps(vols[0]))      # the same volume under two names
        names = rnd.sample(['LH', 'MB', 'AL', 'CA', 'v0', 'v1', 'x_y', 'Z9'], k)
        how = rnd.choice(['dict', 'list'])
        if how == 'list' and k > 1 and rnd.random() < 0.3:
            names[-1] = names[0]
        named = list(zip(names, vols))
        rnd.shuffle(named)
        g0 = vols[0]
        vox0 = sorted(voxelise(g0['csg'] or []))
        if i % 3 == 0:
            yield 'multi', {'vols': named, 'how': how, 'target': 'points',
                            'pts': off_surfaces(vols, query_points2(g0, vox0, rnd, 25))}
        else:
            nodes, conns = gen_tree_on(rnd, g0, vox0, rnd.randrange(2, 12))
            nodes = [n for n in nodes if not any(on_surface(g, n[2:5]) for g in vols)]
            left = {n[0] for n in nodes}
            conns = None if conns is None else [c for c in conns if c[1] in left]
            if not nodes:
                continue
            yield 'multi', {'vols': named, 'how': how, 'target': 'tree', 'nodes': nodes, 'conns': conns}
    for i in range(ctx.budget(25, 200)):
        k = rnd.choice((1, 2, 3))
        pose = gen_pose(rnd)
        vols = []
        for j in range(k):
            g = gen_geom(rnd)
            if g['shape'] != 'polytope':
                g['pose'] = pose
            vols.append(g)
        names = rnd.sample(['LH', 'MB', 'AL', 'CA', 'v0', 'v1'], k)
        trees = []
        for j in range(rnd.randrange(1, 4)):
            g = rnd.choice(vols)
            nodes, conns = gen_tree_on(rnd, g, sorted(voxelise(g['csg'] or [])), rnd.randrange(1, 10))
            nodes = [n for n in nodes if not any(on_surface(v, n[2:5]) for v in vols)]
            left = {n[0] for n in nodes}
            conns = None if conns is None else [c for c in conns if c[1] in left]
            if nodes:
                trees.append([nodes, conns])
        if not trees:
            continue
        yield 'imat', {'vols': list(zip(names, vols)), 'how': rnd.choice(['dict', 'list']), 'mode': rnd.choice(['IN', 'OUT']),
                       'default_mode': rnd.random() < 0.5, 'trees': trees}

    # (d) snap
    combos = [('tree', 'nodes'), ('tree', 'connectors'), ('dots', 'points'), ('dots', 'connectors'),
              ('mesh', 'vertices'), ('mesh', 'connectors')]
    vecs = [(1, 2, 2), (2, 3, 6), (1, 4, 8), (4, 4, 7), (2, 6, 9), (6, 6, 7), (0, 3, 4), (0, 0, 5), (0, 0, 0), (1, 1, 1), (2, 0, 1)]
    for i in range(ctx.budget(150, 1500)):
        kind, to = combos[i % len(combos)]
        n = rnd.randrange(1, 9 if q else 25)
        span = rnd.choice((6, 20, 1000))
        data = distinct_points([[rnd.randrange(-span, span) for _ in range(3)] for _ in range(n)])
        n = len(data)
        ids = gen_ids(rnd, n) if kind == 'tree' else None
        case = {'ntype': kind, 'to': to, 'data': data, 'ids': ids, 'single': rnd.random() < 0.3, 'int_coords': kind == 'tree' and i % 5 == 0}
        if kind == 'mesh':
            if n < 3:
                continue
            faces = [[j, j + 1, j + 2] for j in range(n - 2)]
            case['faces'] = faces
        target = data
        if to == 'connectors':
            m = rnd.randrange(1, 8)
            cdata = distinct_points([[rnd.randrange(-span, span) for _ in range(3)] for _ in range(m)])
            case['cdata'] = cdata
            case['cids'] = rnd.sample(range(500, 500 + 20 * len(cdata)), len(cdata))
            target = cdata
        qs = []
        for _ in range(rnd.randrange(1, 6)):
            for _ in range(60):
                base = rnd.choice(target)
                v = list(rnd.choice(vecs)); rnd.shuffle(v)
                mul = rnd.choice((1, 1, 2, 3))
                p = [base[a] + mul * v[a] * rnd.choice((-1, 1)) for a in range(3)]
                if _unique(target, p) and (to != 'connectors' or kind != 'mesh' or True):
                    qs.append(p); break
        if not qs:
            continue
        case['queries'] = qs
        yield 'snap', case


RUNNERS = {'points': run_points, 'tree': run_tree, 'dots': run_dots, 'mesh': run_mesh, 'multi': run_multi,
           'imat': run_imat, 'snap': run_snap}


def nontrivial(kind, case):
    if kind == 'points':
        return len(case['pts']) >= 4
    if kind in ('tree',):
        return len(case['nodes']) >= 2
    if kind == 'dots':
        return len(case['pts']) >= 2
    if kind == 'mesh':
        return len(case['verts']) >= 4
    if kind == 'multi':
        return len(case['vols']) >= 2
    if kind == 'imat':
        return True
    if kind == 'snap':
        return len(case['data']) >= 2 or bool(case.get('cdata'))
    return True


def run(ctx):
    ctx.extra['rule'] = (
        'geometry: CSG program over integer boxes (box, L, U, torus, shell with cavity, nested shells, disjoint boxes, random '
        'face-connected voxel growth, random add/carve programs) rejected unless the voxel boundary is a 2-manifold; integer pose '
        '(convex polytopes = hulls of 4-12 random integer points with exact integer face planes form a second family); pose: '
        '(scale 1..5 per axis, flips, axis permutation, translation up to 2000); mesh verified watertight/winding-consistent/'
        'volume by trimesh. streams: points (masks; back-ends, n_rays, input kinds), tree / dots / mesh (IN and OUT pruning with '
        'connectors; sparse, shuffled, >2^31 and 0 ids; all-inside / all-outside / mixed), multi (dict / list of 1-4 volumes, '
        'shuffled, duplicated names, same volume twice), imat, snap (TreeNeuron/Dotprops/MeshNeuron × nodes/points/vertices/'
        'connectors, integer coordinates, unique nearest neighbour, single and (N,3) queries). non-trivial: ≥4 query points / ≥2 '
        'nodes or points / ≥4 vertices / ≥2 volumes / ≥2 candidate rows; distinct = distinct JSON digest')
    ctx.extra['assumptions'] = [
        'query points, nodes, points and mesh-neuron vertices sit at half-integer coordinates (never on the surface); all '
        'coordinates are exactly representable doubles',
        'ncollpyde ray casting is external: its agreement with exact membership is tested on these cases, not proved',
        'pyoctree is not installed: in_volume_pyoc is not exercised; the scipy convex-hull fallback is only compared on convex volumes',
        'snap is only compared on inputs with a unique nearest neighbour (kd-tree tie order is not an observable)',
        'prevent_fragments=True (adds connecting nodes on purpose) is outside the partition statement and not generated',
        'MeshNeuron vertex / connector partition oracles are strict on meshes without straddling faces; with straddling faces the '
        'loss of vertices (and of the connectors sitting on them) is the open finding ' + SIG_MESH_STRADDLE + '; the vertex_id '
        'and own-connector oracles are strict on every mesh',
    ]
    ctx.extra['backends_available'] = {'ncollpyde': _isect.ncollpyde is not None, 'pyoctree': _isect.pyoctree is not None,
                                       'scipy': True}
    for kind, case in gen_cases(ctx):
        c = dict(case, kind=kind)
        ctx.case(c, nontrivial=nontrivial(kind, case))
        RUNNERS[kind](ctx, c)


def replay(ctx, rp):
    case = rp['case']
    ctx.case(case)
    RUNNERS[case['kind']](ctx, case)


# ---------------------------------------------------------------------------------------------------------------
# shrinking: drop list elements while an oracle still fails
# ---------------------------------------------------------------------------------------------------------------
class _Probe:
    def __init__(self, ctx):
        self.ctx, self.fails, self.search_mode = ctx, [], False

    def count(self, *a, **k):
        pass

    def ask(self, line):
        return self.ctx.ask(line)

    def corr(self, *a, **k):
        return True

    def oracle(self, ok, what, case, signature=None, **k):
        if not ok and not (signature and self.ctx.match_known(signature)):
            self.fails.append(what)
        return ok


def _still_fails(ctx, case):
    p = _Probe(ctx)
    try:
        RUNNERS[case['kind']](p, case)
    except Exception:
        return False
    return bool(p.fails)


def shrink(ctx, failure):
    case = json.loads(json.dumps(failure['case']))
    if case.get('kind') not in RUNNERS or not _still_fails(ctx, case):
        return None
    fields = [f for f in ('pts', 'nodes', 'conns', 'queries', 'vols', 'trees', 'variants', 'calls') if isinstance(case.get(f), list)]
    changed, rounds = True, 0
    while changed and rounds < 30:
        changed, rounds = False, rounds + 1
        for f in fields:
            i = 0
            while i < len(case[f]) and len(case[f]) > (1 if f in ('vols', 'trees', 'queries', 'variants', 'calls', 'pts', 'nodes') else 0):
                cand = dict(case); cand[f] = case[f][:i] + case[f][i + 1:]
                if f == 'nodes' and isinstance(cand.get('conns'), list):      # keep connectors attached to existing nodes
                    left = {n[0] for n in cand['nodes']}
                    cand['conns'] = [c for c in cand['conns'] if c[1] in left]
                if _still_fails(ctx, cand):
                    case, changed = cand, True
                else:
                    i += 1
    if case['kind'] == 'snap' and case.get('ntype') != 'mesh':      # rows of the searched table (ids stay aligned)
        tf, idf = ('cdata', 'cids') if case['to'] == 'connectors' else ('data', 'ids')
        i = 0
        while i < len(case[tf]) and len(case[tf]) > 1:
            cand = dict(case); cand[tf] = case[tf][:i] + case[tf][i + 1:]
            if case.get(idf):
                cand[idf] = case[idf][:i] + case[idf][i + 1:]
            ok = all(_unique(cand[tf], q) for q in cand['queries'])
            if ok and _still_fails(ctx, cand):
                case = cand
            else:
                i += 1
    p = _Probe(ctx)
    RUNNERS[case['kind']](p, case)
    out = dict(failure)
    out['case'] = case
    out['what'] = p.fails[0] if p.fails else failure['what']
    return out
