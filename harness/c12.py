"""C12 — pruning keeps exactly the nodes its criterion defines.

Correspondence: navis' node table after prune_twigs / prune_by_strahler / prune_at_depth /
longest_neurite vs the Lean keep-set definitions (integer lengths, incl. exact ties length == size,
distance == depth).  Oracle: kept nodes' ids, coordinates and mutual parent links untouched;
connector relocation to the nearest surviving ancestor.

Second pass (harness/c12x.py, driver prefix `c12x.`): the option handling of every function (argument
forms, cached Strahler column, reroot_soma, from_root, exact=True with masks), NeuronList / inplace /
method forms, connectors on every stream, the greedy criterion and the drop_fluff criterion as Lean
checkers evaluated on navis' own output, cell_body_fiber, a sample under the Python back-ends."""
import warnings, random
import numpy as np
import pandas as pd

warnings.filterwarnings('ignore')
import navis
from . import gen as G
from .c10 import parent_map, coords_of, ancestors, add_connectors

navis.config.pbar_hide = True
navis.set_loggers('ERROR')


def mk_neuron(rows, units='1 nm', intcoords=False):
    """TreeNeuron with a *distinct* small radius per node (so that a radius mix-up is visible)."""
    df = G.rows_to_df(rows)
    df['radius'] = [(k % 97 + 1) / 1024.0 for k in range(len(df))]
    if intcoords:
        df[['x', 'y', 'z']] = df[['x', 'y', 'z']].astype(np.int64)
    return navis.TreeNeuron(df, units=units)


def cn_pairs(x):
    if not x.has_connectors:
        return []
    return [(int(c), int(n)) for c, n in zip(x.connectors.connector_id.values, x.connectors.node_id.values)]


def cn_wire(pairs):
    return ','.join(f'{c}:{n}' for c, n in pairs) or '-'


def kept_untouched(ctx, x, y, case, what, be):
    pm0, pm = parent_map(x), parent_map(y)
    c0, c1 = coords_of(x), coords_of(y)
    ok = set(pm) <= set(pm0)
    ctx.oracle(ok, f'{what}: result contains node ids that were not in the input [{be}]', case)
    if not ok:
        return
    for i, p in pm.items():
        want = pm0[i] if pm0[i] in pm else -1
        if (p if p >= 0 else -1) != (want if want >= 0 else -1):
            ctx.oracle(False, f'{what}: kept node {i} has parent {p}, expected {want} (mutual parent links of kept nodes must be untouched) [{be}]', case)
            return
    if not case.get('exact'):
        ctx.oracle(all(c1[i] == c0[i] for i in pm), f'{what}: coordinates/radius of a kept node changed [{be}]', case)
    w = ctx.ask('f.wf ' + G.wire_neuron(y)) if len(pm) else '1 1'
    ctx.oracle(w == '1 1', f'{what}: result not a well-formed, correctly labelled forest ({w}) [{be}]', case)


def twig_signature(pm0, mask, be):
    """Known deviations (see DESIGN §6): fastcore applies the mask node-wise (partial twigs); the Python
    fall-backs prune chains that end at a non-forking root."""
    ch = {}
    for i, p in pm0.items():
        ch.setdefault(p, []).append(i)
    fast = be in (None, 'fastcore')
    if fast and mask is not None:
        ms = set(mask)
        for l in pm0:
            if l in ch or pm0[l] < 0 or l not in ms:
                continue
            n = pm0[l]
            while n >= 0 and len(ch.get(n, [])) == 1 and pm0[n] >= 0:
                if n not in ms:
                    return 'prune_twigs/fastcore/mask-applied-per-node'
                n = pm0[n]
    if not fast or mask is not None:
        for l in pm0:
            if l in ch or pm0[l] < 0:
                continue
            n = pm0[l]
            while pm0[n] >= 0 and len(ch.get(n, [])) == 1:
                n = pm0[n]
            if pm0[n] < 0 and len(ch.get(n, [])) == 1:
                return ('prune_twigs/fastcore+mask/chain-ending-at-nonforking-root' if fast else
                        'prune_twigs/python/chain-ending-at-nonforking-root')
    return None


def case_twigs(ctx, case, be=None):
    rows = case['rows']
    x = mk_neuron(rows)
    wire = G.wire_neuron(x)
    size, rec, mask = case['size'], case['recursive'], case['mask']
    kw = dict(size=size, recursive=rec, inplace=False)
    if mask is not None:
        form = case.get('maskform', 'ids')
        if form == 'ids':
            kw['mask'] = np.array(mask, dtype=np.int64)
        else:
            kw['mask'] = np.isin(x.nodes.node_id.values, mask)
    pm0 = parent_map(x)
    try:
        y = navis.prune_twigs(x, **kw)
    except Exception as e:
        ctx.oracle(False, f'prune_twigs raised {type(e).__name__}: {str(e)[:100]} [{be}]', case)
        return
    rounds = 0 if rec is False else (len(rows) + 2 if rec is True else int(rec))
    mk = '-' if mask is None else (','.join(map(str, mask)) or '-0')
    if mask is not None and not mask:
        mk = '-'  # empty mask: model with an impossible id
        model = G.topo_neuron(x)
    else:
        model = ctx.ask(f'p.twigs {size} {rounds} {mk} | {wire}')
    ctx.count('twigs', f"rec={rec} mask={'y' if mask is not None else 'n'}")
    sig = None
    if G.topo_neuron(y) != model:
        if be in (None, 'fastcore'):
            sig = X.twig_attribution(ctx, G.topo_neuron(y), model, size, X.rec_wire(rec),
                                     '-' if mask is None else 'ids:' + ','.join(map(str, mask)), wire, be)
        else:
            sig = twig_signature(pm0, mask, be)
    ctx.defn(G.topo_neuron(y), model, f'prune_twigs(size={size}, recursive={rec}, mask={"yes" if mask is not None else "no"}) vs definition [{be}]',
             case, signature=sig)
    kept_untouched(ctx, x, y, case, 'prune_twigs', be)


def case_twigs_exact(ctx, case, be=None):
    """exact=True: exactly `size` of cable is removed from every tip (only oracle-level: cable accounting)."""
    rows = case['rows']
    x = mk_neuron(rows)
    size = case['size']
    try:
        y = navis.prune_twigs(x, size=size, exact=True, inplace=False)
    except Exception as e:
        ctx.oracle(False, f'prune_twigs(exact=True) raised {type(e).__name__}: {str(e)[:100]} [{be}]', case, signature=('prune_twigs/exact/no-leafs' if all(p < 0 for p in parent_map(x).values()) else
                              'prune_twigs/exact/distal_to-scalar' if 'reset_index' in str(e) else
                              'prune_twigs/exact/KeyError-path_len' if isinstance(e, KeyError) else None))
        return
    kept_untouched(ctx, x, y, dict(case, exact=True), 'prune_twigs(exact)', be)
    # --- exact definition: heights (largest path length down to a distal tip) decide; see Model/Prune.lean `exactPrune`
    from fractions import Fraction
    fr = Fraction(size).limit_denominator(1 << 20)
    model = ctx.ask(f'p.exact {fr.numerator}/{fr.denominator} | {G.wire_neuron(x)}')
    c0 = coords_of(x)
    pm0 = parent_map(x)
    want_topo, want_xyz = [], {}
    for tok in model.split():
        i, p, tau = tok.split(':')
        i, p = int(i), int(p)
        tn, td = tau.split('/')
        t = Fraction(int(tn), int(td))
        want_topo.append((i, p if p >= 0 else -1))
        a = c0[i][:3]
        if t != 0:
            b = c0[p][:3]
            want_xyz[i] = tuple(float(Fraction(a[k]) + (Fraction(b[k]) - Fraction(a[k])) * t) for k in range(3))
        else:
            want_xyz[i] = tuple(a)
    pm = parent_map(y)
    got_topo = sorted((i, p if p >= 0 else -1) for i, p in pm.items())
    ctx.defn(got_topo, sorted(want_topo), f'prune_twigs(exact=True, size={size}): kept nodes / parents vs "exactly size of cable from every tip" [{be}]', case)
    if got_topo == sorted(want_topo):
        c1 = coords_of(y)
        bad = [i for i in pm if max(abs(c1[i][k] - want_xyz[i][k]) for k in range(3)) > 1e-6]
        ctx.oracle(not bad, f'prune_twigs(exact=True, size={size}): new tip position of node(s) {bad[:4]} is not exactly `size` of cable from the '
                            f'farthest original tip below it [{be}]', case)
    ctx.count('exact_checked', 1)


def sel_to_py(sel):
    k = sel[0]
    if k == 'int':
        return sel[1]
    if k == 'list':
        return list(sel[1])
    if k == 'range':
        return range(sel[1], sel[2])
    return slice(sel[1], sel[2])


def sel_wire(sel):
    k = sel[0]
    if k == 'int':
        return f'int:{sel[1]}'
    if k == 'list':
        return 'list:' + ','.join(map(str, sel[1]))
    if k == 'range':
        return f'range:{sel[1]}:{sel[2]}'
    f = lambda v: '_' if v is None else str(v)
    return f'slice:{f(sel[1])}:{f(sel[2])}'


def case_strahler(ctx, case, be=None):
    rows = case['rows']
    x = mk_neuron(rows)
    r = random.Random(case['seed'])
    add_connectors(x, r, rows)
    wire = G.wire_neuron(x)
    sel = case['sel']
    reloc = case.get('relocate', False)
    soma = case.get('soma')
    if soma is not None:
        x.soma = soma
    try:
        y = navis.prune_by_strahler(x, sel_to_py(sel), reroot_soma=soma is not None, relocate_connectors=reloc,
                                    inplace=case.get('inplace', False))
        if case.get('inplace'):
            y = x
            x = mk_neuron(rows); add_connectors(x, random.Random(case['seed']), rows); x.soma = soma
        impl = G.topo_neuron(y) if len(y.nodes) else ''
    except ValueError as e:
        impl = 'ERR'
    except Exception as e:
        sig = 'prune_by_strahler/relocate/no-surviving-ancestor' if (reloc and isinstance(e, KeyError)) else None
        ctx.oracle(False, f'prune_by_strahler({sel}, relocate_connectors={reloc}) raised {type(e).__name__}: {str(e)[:100]} [{be}]', case, signature=sig)
        return
    if soma is not None:
        # the function first reroots (a copy) to the soma: the definition applies to the rerooted skeleton
        x = navis.reroot_skeleton(x, soma, inplace=False)
        wire = G.wire_neuron(x)
        ctx.count('strahler_reroot_soma', 1)
    model = ctx.ask(f'p.bystrahler {sel_wire(sel)} | {wire}')
    ctx.count('strahler_sel', sel[0])
    sig = 'strahler/python-sweep/branching-root' if be in ('igraph', 'networkx') else None
    ctx.defn(impl, model, f'prune_by_strahler({sel}) vs definition [{be}]', case, signature=sig)
    if impl not in ('ERR', ''):
        kept_untouched(ctx, x, y, case, 'prune_by_strahler', be)
        if x.has_connectors:
            kept = sorted(parent_map(y))
            if not reloc:
                want = sorted(x.connectors[x.connectors.node_id.isin(kept)].connector_id.tolist())
                got = sorted(y.connectors.connector_id.tolist()) if y.has_connectors else []
                ctx.oracle(got == want, f'prune_by_strahler: connectors on removed nodes must be dropped, others kept [{be}]', case)
            else:
                nodes = x.connectors.node_id.tolist()
                m = ctx.ask(f"p.relocate {','.join(map(str, kept))} | {','.join(map(str, nodes))} | {wire}")
                want = [t.split('>')[1] for t in m.split()]
                got = [str(int(v)) for v in y.connectors.node_id.tolist()] if y.has_connectors else []
                want = [w for w in want if w != 'none']   # connectors without a surviving ancestor are dropped
                if True:
                    ctx.defn(got, want, f'prune_by_strahler(relocate_connectors): connectors must move to the nearest surviving ancestor [{be}]', case)


def case_depth(ctx, case, be=None):
    rows = case['rows']
    x = mk_neuron(rows)
    wire = G.wire_neuron(x)
    src, depth = case['source'], case['depth']
    try:
        y = navis.prune_at_depth(x, depth, source=src, inplace=False)
    except Exception as e:
        ctx.oracle(False, f'prune_at_depth raised {type(e).__name__}: {str(e)[:100]} [{be}]', case)
        return
    s = src if src is not None else int(x.root[0])
    model = ctx.ask(f'p.depth {s} {depth} 1 | {wire}')
    ctx.defn(G.topo_neuron(y), model, f'prune_at_depth(depth={depth}, source={src}) vs "nodes within geodesic distance" [{be}]', case)
    kept_untouched(ctx, x, y, case, 'prune_at_depth', be)


def case_longest(ctx, case, be=None):
    rows = case['rows']
    x = mk_neuron(rows)
    wire = G.wire_neuron(x)
    n, inv = case['n'], case['inverse']
    if isinstance(n, list):
        npy = slice(n[0], n[1]); lo = n[0] or 0; hi = n[1] if n[1] is not None else 10 ** 6
    else:
        npy = n; lo, hi = 0, n
    try:
        y = navis.longest_neurite(x, n=npy, reroot_soma=False, from_root=True, inverse=inv, inplace=False)
    except Exception as e:
        ctx.oracle(False, f'longest_neurite raised {type(e).__name__}: {str(e)[:100]} [{be}]', case)
        return
    kept_untouched(ctx, x, y, case, 'longest_neurite', be)
    # unique only without ties (see C05); compare with the greedy definition then
    seg = ctx.ask(f'f.segs 1 | {wire}')
    mlen = seg.split(' # ')[1]
    lens = [int(v) for v in mlen.split(',')] if mlen.strip() else []
    dr = ctx.ask(f'f.distroot 1 | {wire}')
    depth = {int(t.split('=')[0]): int(t.split('=')[1]) for t in dr.split()}
    pm = parent_map(x)
    haschild = set(pm.values())
    leaf_depths = [depth[i] for i in pm if i not in haschild and pm[i] >= 0]
    multi = [l for l in lens if l > 0]
    if len(set(leaf_depths)) == len(leaf_depths) and len(set(multi)) == len(multi) and lens.count(0) <= 1:
        model = ctx.ask(f'p.longest {lo} {hi} {int(inv)} | {wire}')
        impl = G.topo_neuron(y) if len(y.nodes) else ''
        ctx.defn(impl, model, f'longest_neurite(n={n}, inverse={inv}) vs greedy n longest root-to-tip paths [{be}]', case)
        ctx.count('longest_unique', 1)
    else:
        ctx.count('longest_ties', 1)


def gen_cases(ctx, nf=None):
    r = ctx.rng
    for k in range(nf or ctx.budget(140, 2000)):
        rows, meta = G.rand_forest(r, nmax=10 if k % 3 == 0 else 28, allow_zero_edges=(k % 9 == 0))
        ids = [rw['id'] for rw in rows]
        pm = {rw['id']: rw['parent'] for rw in rows}
        mask = None
        if r.random() < 0.4:
            mask = [i for i in ids if r.random() < 0.6]
        yield ('twigs', dict(rows=rows, size=r.choice([0, 1, 2, 3, 5, 7, 9, 11, 14, 18, 22, 40]), recursive=r.choice([False, False, True, 1, 2]),
                             mask=mask, maskform=r.choice(['ids', 'bool']), meta=meta))
        if k % 2 == 0 and not any(rw.get('zero') for rw in rows) and k % 9 != 0:
            yield ('twigs_exact', dict(rows=rows, size=r.choice([0.5, 1.5, 2.25, 3, 4.5, 5, 7.5, 9, 12]), meta=meta))
        sel = r.choice([('int', r.choice([1, 1, 2, 3, -1, -2, 0])), ('list', [r.randint(1, 4) for _ in range(r.randint(1, 2))]),
                        ('range', 1, r.randint(1, 4)), ('range', 2, r.randint(2, 5)),
                        ('slice', r.choice([None, 0, 1, -1]), r.choice([None, 1, 2, -1]))])
        yield ('strahler', dict(rows=rows, sel=list(sel), relocate=r.random() < 0.3, seed=r.randrange(10 ** 9), meta=meta))
        if k % 2 == 0:
            yield ('strahler', dict(rows=rows, sel=list(sel), relocate=r.random() < 0.6, soma=r.choice(ids), inplace=r.random() < 0.3,
                                    seed=r.randrange(10 ** 9), meta=meta))
        yield ('depth', dict(rows=rows, source=r.choice(ids + [None]), depth=r.choice([0, 1, 3, 5, 7, 9, 12, 16, 22, 30]), meta=meta))
        if sum(1 for p in pm.values() if p < 0) >= 1 and len(ids) > 1:
            yield ('longest', dict(rows=rows, n=r.choice([1, 2, 3, [1, None], [0, 2], [1, 3]]), inverse=r.random() < 0.3, meta=meta))
        # second pass: option handling (thinned when another property re-runs this stream under its own budget)
        yield from X.gen_ext(ctx, r, rows, meta, k, thin=1 if ctx.prop == 'C12' else 6)


RUNNERS = {'twigs': case_twigs, 'twigs_exact': case_twigs_exact, 'strahler': case_strahler, 'depth': case_depth, 'longest': case_longest}
from . import c12x as X  # noqa: E402  (second pass: option handling, NeuronList / inplace / method forms, checkers)
RUNNERS.update(X.RUNNERS)


def _tagged(kind, f):
    """Every failure must carry what is needed to replay it: the case handed to the runner names its stream and back-end."""
    def g(ctx, case, be=None):
        c = dict(case, kind=kind, stream='c12')
        if be is not None:
            c['be'] = be
        try:
            return f(ctx, c, be)
        except Exception as e:
            # on the unchanged tree no runner raises (every navis call that may legitimately raise is guarded where it is
            # made); an exception that escapes means navis left an object in a state the follow-up calls choke on
            from .common import Timeout
            if isinstance(e, Timeout):
                raise
            ctx.oracle(False, f'{kind}: navis raised {type(e).__name__}: {str(e)[:120]} in a call that must not fail '
                              f'(input mutated / result unusable) [{be}]', c)
    return g


RUNNERS = {k: _tagged(k, f) for k, f in RUNNERS.items()}


BE_KINDS = ('twigs', 'twigs_x', 'depth', 'depth_x', 'longest_x', 'strahler_x')


def run(ctx, be=None):
    ctx.extra['rule'] = ('forests from harness/gen.py with integer edge lengths (13 shapes × 6 labelings × 3 row orders), distinct radius per node; '
                         'a case = (forest, pruning function, argument forms, entry form); sizes and depths are drawn from attainable integer path '
                         'sums so that exact ties (length == size, distance == depth, edge == remainder) occur. Second pass (kinds *_x, fluff, cbf): '
                         'size/depth as number | float | unit string (1/2/4/125 nm neurons), mask as id list | id array | bool array | bool list | '
                         'callable, recursive ∈ {False, True, 0..3, -1, inf} incl. balanced trees where every round strips one level, exact=True with '
                         'masks / integer-dtype coordinates, to_prune as ±int | list (incl. 0, negatives) | range with step | slice with ±step, cached '
                         'strahler_index column (fresh | stale) × force_strahler_update, reroot_soma, relocate_connectors, source id | None | absent, '
                         'negative depth, n as int (incl. < 1) | slice with negative bounds / step, from_root=False, inverse; every function called as '
                         'function | inplace=True | TreeNeuron method (both inplace values) | on a NeuronList of two (per-neuron source); connectors on '
                         'every stream; a sample of the stream re-run under the igraph and networkx back-ends; non-trivial when ≥ 3 nodes')
    ctx.notes.append('a disagreement under navis-fastcore with a mask is attributed to the two open mask findings only when navis\' result equals '
                     'the fastcore variant of the model (twigDeleteFC) round by round')
    for kind, case in gen_cases(ctx):
        ctx.case(dict(case, kind=kind), nontrivial=len(case['rows']) >= 3)
        m = case['meta']
        ctx.count('shape', m['shape']); ctx.count('labeling', m['labeling']); ctx.count('kind', kind)
        RUNNERS[kind](ctx, case, be)
    if be is None and ctx.prop == 'C12':
        # the Python fall-backs of the anchored functions (no navis-fastcore; igraph / networkx graphs) are navis code
        # too: a sample of the stream is re-run under each of them against the same definitions
        from .backends import backend, available
        for b in [x for x in available() if x != 'fastcore']:
            with backend(b):
                for kind, case in gen_cases(ctx, ctx.budget(24, 300)):
                    if kind not in BE_KINDS:
                        continue
                    ctx.case(dict(case, kind=kind, be=b), nontrivial=len(case['rows']) >= 3)
                    ctx.count('backend', f'{b}:{kind}')
                    RUNNERS[kind](ctx, case, b)


def replay(ctx, rp):
    case = rp['case']
    ctx.case(case)
    be = case.get('be')
    args = {k: v for k, v in case.items() if k not in ('kind', 'be', 'stream')}
    if be in ('igraph', 'networkx', 'fastcore'):
        from .backends import backend
        with backend(be):
            RUNNERS[case['kind']](ctx, args, be)
    else:
        RUNNERS[case['kind']](ctx, args, be)
