"""C04 — results do not depend on the compute back-end (fastcore / igraph / networkx).

Streams
* re-run: the correspondence streams of C05 (distances, segments), C10 (reroot, cut, subset), C12 (pruning),
  C17 (Strahler, flows), C11 (healing), C13 (down/resampling) are executed with navis switched in-process to
  each back-end, every run against the SAME Lean model output ("equal up to order among exact ties").
* sweep: `strahler_index` on the two pure-Python configurations vs the Lean model of the Python sweep AS WRITTEN
  (`c04x.sweep`, work set popped in three different orders — the theorem says the order cannot matter), with
  `to_ignore` (end nodes, also inner nodes / foreign ids: the as-written model takes any list), `min_twig_size`,
  both methods; igraph == networkx always, == fastcore when nothing is ignored.
* segvar: `_break_segments` / `_generate_segments` of the igraph and of the networkx variant vs their as-written
  Lean models (`c04x.break`, `c04x.gen`; exact list order, ties included; the igraph seed *set* of
  `_break_segments` up to permutation), igraph == networkx exactly, fastcore up to ties + Lean checkers.
* direct: the same call under all back-ends, canonical observables compared pairwise (the property's own
  formulation): segments, small segments, components, geodesic matrices (from_/limit/directed/weight), point
  distances, distal-to, classification (new and old classifier), Strahler, twig pruning (exact ties, recursive,
  mask), cable / parent distances, synapse flow centrality, reroot, cut, subset.
* history: multi-step histories (reroot / subset / cut / prune_twigs, in place, caches warm) under each back-end;
  every step against the Lean operation model evaluated on the implementation's own pre-state, final
  observables compared across back-ends.
* exhaustive (thorough): every forest with ≤ 5 nodes (ids 0..n-1) through sweep + segvar + direct."""
import importlib, warnings, random, time, os
import numpy as np
import pandas as pd

warnings.filterwarnings('ignore')
import navis
from . import gen as G
from .backends import backend, available
from . import c05, c10, c12

navis.config.pbar_hide = True
navis.set_loggers('ERROR')
GU = navis.graph.graph_utils

# streams of later properties, added here once their driver commands are linked into navisdrv
EXTRA_STREAMS = ['c17', 'c11', 'c13']
PY = ('igraph', 'networkx')
V = {'igraph': 'igraph', 'networkx': 'nx'}
MODES = ('centrifugal', 'centripetal', 'sum')


def optional(name):
    try:
        return importlib.import_module(f'harness.{name}')
    except Exception:
        return None


# ------------------------------------------------------------------------------------------------
# helpers
# ------------------------------------------------------------------------------------------------
def topo(rows):
    pm = {rw['id']: rw['parent'] for rw in rows}
    ch = {i: [] for i in pm}
    for rw in rows:
        if rw['parent'] >= 0:
            ch[rw['parent']].append(rw['id'])
    return pm, ch


def leafs_of(rows):
    pm, ch = topo(rows)
    return [i for i in pm if pm[i] >= 0 and not ch[i]]


def col_of(x, name):
    return ' '.join(f'{i}={int(v)}' for i, v in sorted(zip(map(int, x.nodes.node_id.values), x.nodes[name].values)))


def segs_fmt(ss):
    return ';'.join(','.join(str(int(v)) for v in s) for s in ss)


def set_connectors(x, cn):
    if cn:
        x.connectors = pd.DataFrame({'connector_id': np.arange(100, 100 + len(cn), dtype=np.int64),
                                     'node_id': np.array([c[0] for c in cn], dtype=np.int64),
                                     'type': [c[1] for c in cn], 'x': 0.0, 'y': 0.0, 'z': 0.0})


def depth_map(ctx, wire, w):
    return {int(t.split('=')[0]): int(t.split('=')[1]) for t in ctx.ask(f'f.distroot {w} | {wire}').split()}


def shape_sig(rows):
    pm, ch = topo(rows)
    return dict(forest=sum(1 for p in pm.values() if p < 0) > 1, zero=0 in pm,
                isolated=any(pm[i] < 0 and not ch[i] for i in pm), broot=any(pm[i] < 0 and len(ch[i]) > 1 for i in pm))


def count_shape(ctx, name, rows, meta=None):
    s = shape_sig(rows)
    for k, v in s.items():
        if v:
            ctx.count(name + '_input', k)
    if meta:
        ctx.count(name + '_labeling', meta.get('labeling')); ctx.count(name + '_order', meta.get('order'))


# ------------------------------------------------------------------------------------------------
# sweep: Python Strahler code vs its as-written model
# ------------------------------------------------------------------------------------------------
def case_sweep(ctx, case):
    rows, g, ign, mt = case['rows'], case['greedy'], case['ignore'], case['min_twig']
    what = f"strahler_index(method={'greedy' if g else 'standard'}, to_ignore={ign}, min_twig_size={mt})"
    outs = {}
    for be in PY:
        with backend(be):
            x = G.to_neuron(rows)
            wire = G.wire_neuron(x)
            try:
                navis.strahler_index(x, method='greedy' if g else 'standard', to_ignore=list(ign), min_twig_size=mt)
                outs[be] = col_of(x, 'strahler_index')
            except Exception as e:
                outs[be] = f'ERR:{type(e).__name__}'
    ctx.oracle(outs['igraph'] == outs['networkx'], f'{what}: igraph and networkx configurations disagree — igraph={outs["igraph"][:200]}; '
               f'networkx={outs["networkx"][:200]}', case)
    head = f"c04x.sweep {int(g)} {','.join(map(str, ign)) or '-'} {mt or 0}"
    for pk in ('first', 'last', f"mix:{case['seed'] % 1000}"):
        model = ctx.ask(f'{head} {pk} | {wire}')
        ctx.corr(outs['igraph'], model, f'{what} on the Python path vs the model of the sweep as written (pop order {pk.split(":")[0]})', case)
    pm, ch = topo(rows)
    plain = not ign and not mt
    ctx.count('sweep', f"{'greedy' if g else 'standard'} ign={'leafs' if ign and all(i in pm and pm[i] >= 0 and not ch[i] for i in ign) else 'other' if ign else 'n'} "
                       f"mt={'y' if mt else 'n'}")
    ign_leafs = all(i in pm and pm[i] >= 0 and not ch[i] for i in ign)
    if ign_leafs:
        # the definition (C17): structural recurrence, ignored twigs take the index of the branch they hang on
        rec = ctx.ask(f"p.strahler {int(g)} {','.join(map(str, ign)) or '-'} {mt or 0} | {wire}")
        for be in PY:
            ctx.defn(outs[be], rec, f'{what} [{be}] vs the Strahler recurrence (leaf 1; one child: its index; fork: max, +1 when it occurs '
                     'twice / sum when greedy; ignored twigs take the index of their parent branch)', case)
    if plain:
        if 'fastcore' in available():
            with backend('fastcore'):
                x = G.to_neuron(rows)
                try:
                    navis.strahler_index(x, method='greedy' if g else 'standard')
                    fc = col_of(x, 'strahler_index')
                except Exception as e:
                    fc = f'ERR:{type(e).__name__}'
            ctx.oracle(fc == outs['igraph'], f'{what}: fastcore and the Python path disagree — fastcore={fc[:200]}; python={outs["igraph"][:200]}',
                       case, signature='strahler/python-sweep')
    count_shape(ctx, 'sweep', rows, case.get('meta'))


def gen_sweep(ctx, n):
    r = ctx.rng
    for k in range(n):
        rows, meta = G.rand_forest(r, nmax=9 if k % 3 == 0 else 20)
        ids = [rw['id'] for rw in rows]
        lf = leafs_of(rows)
        ign, mt = [], None
        u = r.random()
        if u < 0.3 and lf:
            ign = sorted(l for l in lf if r.random() < 0.45)
        elif u < 0.4:
            ign = sorted(set(r.sample(ids, min(len(ids), r.randint(1, 3))) + [max(ids) + 7]))   # inner nodes, foreign id
        elif u < 0.6:
            mt = r.choice([1, 2, 3, 4, 6])
        yield dict(kind='sweep', rows=rows, greedy=r.random() < 0.4, ignore=ign, min_twig=mt, seed=r.randrange(10 ** 9), meta=meta)


# ------------------------------------------------------------------------------------------------
# segvar: the Python segment builders vs their as-written models
# ------------------------------------------------------------------------------------------------
def lens_of(segs, depth):
    return sorted((depth[s[0]] - depth[s[-1]] for s in segs), reverse=True)


def case_segvar(ctx, case):
    rows = case['rows']
    out = {}
    for be in available():
        with backend(be):
            x = G.to_neuron(rows)
            wire = G.wire_neuron(x)
            o = {}
            try:
                o['break'] = [[int(v) for v in s] for s in GU._break_segments(x)]
            except Exception as e:
                o['break'] = f'ERR:{type(e).__name__}'
            for w in (0, 1):
                try:
                    o[f'gen{w}'] = [[int(v) for v in s] for s in GU._generate_segments(x, weight='weight' if w else None)]
                except Exception as e:
                    o[f'gen{w}'] = f'ERR:{type(e).__name__}'
            out[be] = o
    # as-written models of the two Python variants.  Property-level observables only: the ORDER of the small segments
    # and the order / choice among exact ties (equal leaf depths, equal segment lengths) are not compared.
    pmap, ch = topo(rows)
    ties = {}
    for w in (0, 1):
        depth = depth_map(ctx, wire, w)
        ld = [depth[i] for i in pmap if pmap[i] >= 0 and not ch[i]]
        ties[w] = (depth, len(set(ld)) != len(ld))
    def canon_gen(segs, w):
        """exact list when nothing ties; otherwise the multiset of lengths + the isolated nodes (any admissible
        decomposition has these), the decomposition itself being judged by the Lean checker"""
        if not isinstance(segs, list):
            return segs
        depth, leaf_tie = ties[w]
        lens = lens_of(segs, depth)
        multi = [depth[s[0]] - depth[s[-1]] for s in segs if len(s) > 1]
        nsingle = sum(1 for s in segs if len(s) == 1)
        # ties: equally deep leafs, equally long segments, or zero-length segments next to isolated nodes (length 0 too)
        if not leaf_tie and len(set(multi)) == len(multi) and not (0 in multi and nsingle):
            return segs_fmt(segs)
        return 'lens=' + ','.join(map(str, lens)) + ' single=' + ','.join(map(str, sorted(s[0] for s in segs if len(s) == 1)))
    def parse(m):
        return m if m.startswith('ERR') else ([[int(v) for v in s.split(',')] for s in m.split(';')] if m else [])
    for be in PY:
        o = out[be]
        m = ctx.ask(f'c04x.break {V[be]} | {wire}')
        impl = ';'.join(sorted(segs_fmt(o['break']).split(';'))) if isinstance(o['break'], list) else o['break']
        ctx.corr(impl, ';'.join(sorted(m.split(';'))), f'_break_segments ({be} variant) vs its model as written (as a set)', case)
        for w in (0, 1):
            m = parse(ctx.ask(f'c04x.gen {V[be]} {w} | {wire}'))
            ctx.corr(canon_gen(o[f'gen{w}'], w), canon_gen(m, w), f'_generate_segments(weight={w}) ({be} variant) vs its model as written '
                     '(exact list unless leaf depths / segment lengths tie)', case)
            if isinstance(o[f'gen{w}'], list):
                ok = ctx.ask(f'f.segsok {w} | {wire} | {segs_fmt(o[f"gen{w}"])}')
                ctx.oracle(ok == '1', f'_generate_segments(weight={w}) ({be} variant) fails the Lean checker (edge partition into child->parent paths, '
                           'longest first, isolated nodes as single-node segments)', case)
            ctx.count('segvar_ties', f'w{w} ' + ('tie' if not str(canon_gen(o[f"gen{w}"], w))[:1].isdigit() else 'unique'))
    # the property: all back-ends the same up to ties
    for w in (0, 1):
        key = f'gen{w}'
        ctx.oracle(canon_gen(out['igraph'][key], w) == canon_gen(out['networkx'][key], w), f'_generate_segments[{key}]: igraph and networkx variants disagree — '
                   f'igraph={str(out["igraph"][key])[:160]}; networkx={str(out["networkx"][key])[:160]}', case)
    canon = {be: (sorted(out[be]['break']) if isinstance(out[be]['break'], list) else out[be]['break']) for be in out}
    ref = canon['networkx']
    for be in out:
        ctx.oracle(canon[be] == ref, f'small segments: {be} and networkx disagree — {be}={str(canon[be])[:160]}; networkx={str(ref)[:160]}', case)
    if 'fastcore' in out:
        for w in (0, 1):
            key = f'gen{w}'
            fc, py = out['fastcore'][key], out['networkx'][key]
            if isinstance(fc, list):
                ok = ctx.ask(f'f.segsok {w} | {wire} | {segs_fmt(fc)}')
                ctx.oracle(ok == '1', f'_generate_segments[{key}] (fastcore) fails the Lean checker', case)
            ctx.oracle(canon_gen(fc, w) == canon_gen(py, w), f'_generate_segments[{key}]: fastcore and networkx disagree (beyond ties) — '
                       f'fastcore={str(fc)[:160]}; networkx={str(py)[:160]}', case)
    count_shape(ctx, 'segvar', rows, case.get('meta'))


def gen_segvar(ctx, n):
    r = ctx.rng
    for k in range(n):
        rows, meta = G.rand_forest(r, nmax=9 if k % 3 == 0 else 20, allow_zero_edges=(k % 5 == 0))
        yield dict(kind='segvar', rows=rows, meta=meta)


# ------------------------------------------------------------------------------------------------
# direct: same calls under every back-end, pairwise comparison of canonical observables
# ------------------------------------------------------------------------------------------------
def labelled(df):
    return c05.canon_matrix(df)


def direct_compare(ctx, case):
    """Same calls under every back-end; compare canonical observables pairwise."""
    rows = case['rows']
    r = random.Random(case['seed'])
    ids = [rw['id'] for rw in rows]
    pm, ch = topo(rows)
    outs = {}
    src = r.choice(ids)
    size = r.choice([1, 3, 5, 9, 14])
    lim = r.choice([None, None, 1, 3, 5, 9, 11])
    fr = r.sample(ids, r.randint(1, len(ids))) if r.random() < 0.6 else None
    A = r.sample(ids, min(len(ids), r.randint(1, 4))); B = r.sample(ids, min(len(ids), r.randint(1, 4)))
    pa, pb = r.choice(ids), r.choice(ids)
    rec = r.choice([0, 0, 1, 3])
    keep = r.sample(ids, r.randint(1, len(ids)))
    lf = [i for i in ids if pm[i] >= 0 and not ch[i]]
    mask = sorted(set(r.sample(ids, r.randint(1, len(ids))))) if r.random() < 0.35 else None
    cn = case.get('connectors')
    mode = MODES[case['seed'] % 3]
    nonroot = [i for i in ids if pm[i] >= 0]
    single = sum(1 for p in pm.values() if p < 0) == 1
    cuts = r.sample(nonroot, min(len(nonroot), r.randint(1, 3))) if (nonroot and single) else []
    ret = r.choice(['both', 'both', 'distal', 'proximal'])
    rr = r.sample(ids, min(len(ids), r.randint(1, 3)))
    for be in available():
        with backend(be):
            x = G.to_neuron(rows)
            set_connectors(x, cn)
            o = {}

            def put(name, f):
                try:
                    o[name] = f()
                except Exception as e:
                    o[name] = f'ERR:{type(e).__name__}'
            put('small_segments', lambda: c05.canon_segs(x.small_segments))
            put('components', lambda: sorted(sorted(int(v) for v in cc) for cc in GU._connected_components(x)))
            put('geodesic', lambda: labelled(navis.geodesic_matrix(x)))
            put('geodesic_dir_unw', lambda: labelled(navis.geodesic_matrix(x, directed=True, weight=None)))
            kw = dict(directed=bool(case['seed'] & 1), weight='weight' if case['seed'] & 2 else None)
            if lim is not None:
                kw['limit'] = lim
            if fr is not None:
                kw['from_'] = fr
            put('geodesic_opts', lambda: labelled(navis.geodesic_matrix(x, **kw)))

            def db():
                try:
                    return c05.fmt(navis.dist_between(x, pa, pb))
                except Exception as e:
                    return f'RAISES:{type(e).__name__}'
            put('dist_between', db)
            put('dist_to_root', lambda: ' '.join(f'{i}={c05.fmt(v)}' for i, v in sorted(navis.graph.dist_to_root(x, weight='weight').items())))
            put('cable', lambda: c05.fmt(x.cable_length))
            put('parent_dist', lambda: [c05.fmt(v) for v in navis.morpho.mmetrics.parent_dist(x, root_dist=0)])
            put('strahler', lambda: dict(zip(map(int, x.nodes.node_id), map(int, navis.strahler_index(x).nodes.strahler_index))))
            put('distal_to', lambda: bool(navis.distal_to(x, ids[0], src)) if len(ids) > 1 else None)

            def dt():
                df = navis.distal_to(x, A, B)
                if isinstance(df, (bool, np.bool_)):
                    return str(bool(df))
                return ' '.join(f'{a}>{b}={int(bool(df.loc[a, b]))}' for a in sorted(set(A)) for b in sorted(set(B)))
            put('distal_to_matrix', dt)
            put('classify', lambda: G.topo_neuron(navis.graph.classify_nodes(x.copy(), inplace=True)))
            if be != 'fastcore' and hasattr(GU, '_classify_nodes_old'):
                put('classify_old', lambda: G.topo_neuron(GU._classify_nodes_old(x.copy(), inplace=True)))
            put('reroot', lambda: G.topo_neuron(navis.reroot_skeleton(x, src, inplace=False)))
            put('reroot_many', lambda: G.topo_neuron(navis.reroot_skeleton(x, rr, inplace=False)))
            put('twigs', lambda: G.topo_neuron(navis.prune_twigs(x, size=size, inplace=False)))
            put('twigs_recursive', lambda: G.topo_neuron(navis.prune_twigs(x, size=size, inplace=False, recursive=rec)))
            if mask is not None:
                put('twigs_mask', lambda: G.topo_neuron(navis.prune_twigs(x, size=size, inplace=False, mask=np.array(mask, dtype=np.int64))))
            put('subset', lambda: G.topo_neuron(navis.subset_neuron(x, ids[::2], inplace=False)))
            put('subset_random', lambda: G.topo_neuron(navis.subset_neuron(x, keep, inplace=False)))
            if nonroot and single:
                c = nonroot[0]
                put('cut', lambda: ' || '.join(G.topo_neuron(f) for f in navis.cut_skeleton(x, c)))
                put('cut_many', lambda: ' || '.join(sorted(G.topo_neuron(f) for f in navis.cut_skeleton(x, cuts, ret=ret if len(cuts) == 1 else 'both'))))
            if cn:
                put('sfc', lambda: col_of(navis.synapse_flow_centrality(x.copy(), mode=mode), 'synapse_flow_centrality'))
                if be != 'fastcore':
                    pre = ','.join(str(c[0]) for c in cn if c[1] == 'pre'); post = ','.join(str(c[0]) for c in cn if c[1] == 'post')
                    ctx.corr(o['sfc'], ctx.ask(f'c04x.sfcpy {mode} | {pre} | {post} | {G.wire_neuron(x)}'),
                             f'synapse_flow_centrality(mode={mode}) [{be}] vs the model of the Python path as written (formula at branch/root/'
                             'connector nodes, propagation along small segments, fork rule)', dict(case, observable='sfc'))
            outs[be] = o
    bes = list(outs)
    for name in outs['networkx']:
        vals = {be: outs[be].get(name) for be in bes if name in outs[be]}
        ref_be = 'networkx'
        ref = vals[ref_be]
        for be in vals:
            if be == ref_be:
                continue
            if vals[be] != ref:
                sig = direct_signature(name, case, vals, be, mask)
                ctx.oracle(False, f'{name}: back-ends disagree — ' + '; '.join(f'{b}={str(v)[:160]}' for b, v in vals.items()),
                           dict(case, observable=name), signature=sig)
                break
        else:
            ctx.oracle(True, name, case)
        ctx.count('direct_observable', name)
    # components: navis' grouping of fastcore's root labels / the undirected closure, as modelled side by side
    mc = ctx.ask('c04x.components ' + G.wire_rows(rows)).split(' # ')
    for be in outs:
        v = outs[be].get('components')
        impl = ';'.join(','.join(map(str, c)) for c in v) if isinstance(v, list) else v
        ctx.corr(impl, mc[0 if be == 'fastcore' else 1], f'_connected_components [{be}] vs its model (' +
                 ('groups of equal root label' if be == 'fastcore' else 'undirected closure') + ')', dict(case, observable='components'))
    # old classifier == new classifier (both degree conventions)
    for be in PY:
        if 'classify_old' in outs[be]:
            ctx.oracle(outs[be]['classify_old'] == outs[be]['classify'], f'_classify_nodes_old ({be} degrees) differs from classify_nodes: '
                       f'{outs[be]["classify_old"][:160]} vs {outs[be]["classify"][:160]}', dict(case, observable='classify_old'))
    count_shape(ctx, 'direct', rows, case.get('meta'))


def direct_signature(name, case, vals, be, mask=None):
    rows = case['rows']
    pm, ch = topo(rows)
    if name == 'strahler':
        return 'strahler/python-sweep'
    if name in ('twigs', 'twigs_recursive'):
        return 'prune_twigs/python/chain-ending-at-nonforking-root'
    if name == 'twigs_mask' and be == 'fastcore':
        # two documented divergences of compiled navis-fastcore when a mask is given
        chain_on_root = any(pm[i] < 0 and len(ch[i]) == 1 for i in pm)
        return 'prune_twigs/fastcore+mask/chain-ending-at-nonforking-root' if chain_on_root and _mask_whole_twigs(rows, mask) \
            else 'prune_twigs/fastcore/mask-applied-per-node'
    if name in ('geodesic', 'geodesic_dir_unw', 'geodesic_opts') and all(p < 0 for p in pm.values()):
        return 'geodesic_matrix/igraph/no-edges'
    if name in ('reroot', 'reroot_many') and 0 in pm:
        return 'reroot/networkx/node-id-0'
    if name == 'dist_between':
        v = vals.get('networkx')
        others = [vals[b] for b in vals if b != 'networkx']
        if v == 'RAISES:NetworkXNoPath' and all(o == 'inf' for o in others):
            return 'dist_between/networkx/unreachable-raises-NetworkXNoPath'
    return None


def _mask_whole_twigs(rows, mask):
    """True when every terminal twig (leaf up to, excluding, the next fork or root) is either entirely inside or
    entirely outside the mask — then per-node masking and per-leaf masking coincide."""
    if mask is None:
        return True
    pm, ch = topo(rows)
    ms = set(mask)
    for l in pm:
        if pm[l] >= 0 and not ch[l]:
            tw = [l]
            p = pm[l]
            while p >= 0 and len(ch[p]) == 1 and pm[p] >= 0:
                tw.append(p); p = pm[p]
            ins = [t in ms for t in tw]
            if any(ins) and not all(ins):
                return False
    return True


def gen_direct(ctx, n):
    r = ctx.rng
    for k in range(n):
        rows, meta = G.rand_forest(r, nmax=10 if k % 2 else 24)
        ids = [rw['id'] for rw in rows]
        cn = None
        if k % 3 != 2:
            cn = [[r.choice(ids), r.choice(['pre', 'post'])] for _ in range(r.randint(1, min(2 * len(ids), 12)))]
        yield dict(rows=rows, seed=r.randrange(10 ** 9), meta=meta, kind='direct', connectors=cn)


# ------------------------------------------------------------------------------------------------
# history: multi-step, in place, warm caches, every back-end
# ------------------------------------------------------------------------------------------------
def warm(x):
    for a in ('graph', 'igraph', 'segments', 'small_segments', 'cable_length', 'n_trees', 'leafs', 'geodesic_matrix'):
        try:
            getattr(x, a)
        except Exception:
            pass


def plan_history(r, rows, nsteps):
    """Ops chosen on the model side from the evolving topology (pure Python bookkeeping: parent map)."""
    pm = {rw['id']: rw['parent'] for rw in rows}
    ops = []
    for _ in range(nsteps):
        ids = list(pm)
        if len(ids) < 2:
            break
        ch = {}
        for i, p in pm.items():
            ch.setdefault(p, []).append(i)
        nonroot = [i for i in ids if pm[i] >= 0]
        single = sum(1 for p in pm.values() if p < 0) == 1
        u = r.random()
        if u < 0.35:
            t = r.choice(ids)
            ops.append(['reroot', t])
            # reverse the path
            path = [t]
            while pm[path[-1]] >= 0:
                path.append(pm[path[-1]])
            for a, b in zip(path[1:], path[:-1]):
                pm[a] = b
            pm[t] = -1
        elif u < 0.6:
            keep = sorted(r.sample(ids, r.randint(max(1, len(ids) // 2), len(ids))))
            ops.append(['subset', keep])
            ks = set(keep)
            pm = {i: (pm[i] if pm[i] in ks else -1) for i in keep}
        elif u < 0.8 and nonroot and single:
            c = r.choice(nonroot)
            which = r.choice(['cutd', 'cutp'])
            ops.append([which, c])
            desc = set()
            stack = [c]
            while stack:
                v = stack.pop(); desc.add(v); stack += ch.get(v, [])
            if which == 'cutd':
                pm = {i: (pm[i] if i != c else -1) for i in desc}
            else:
                pm = {i: pm[i] for i in ids if i not in desc or i == c}
        else:
            ops.append(['twigs', r.choice([1, 3, 5, 9])])
            return ops          # topology after pruning is left to the model; stop planning here
    return ops


def apply_op(x, op):
    k, a = op
    if k == 'reroot':
        navis.reroot_skeleton(x, a, inplace=True); return x
    if k == 'subset':
        navis.subset_neuron(x, a, inplace=True); return x
    if k == 'cutd':
        return navis.cut_skeleton(x, a, ret='distal')[0]
    if k == 'cutp':
        return navis.cut_skeleton(x, a, ret='proximal')[0]
    if k == 'twigs':
        navis.prune_twigs(x, size=a, inplace=True); return x
    raise ValueError(k)


def model_op(ctx, op, wire):
    k, a = op
    if k == 'twigs':
        return ctx.ask(f'p.twigs {a} 0 - | {wire}')
    arg = ','.join(map(str, a)) if isinstance(a, list) else str(a)
    return ctx.ask(f'f.ops {k}={arg} | {wire}')


def case_history(ctx, case):
    rows, ops = case['rows'], case['ops']
    finals = {}
    for be in available():
        with backend(be):
            x = G.to_neuron(rows)
            ok = True
            for n, op in enumerate(ops):
                warm(x)
                pre = G.wire_neuron(x)
                try:
                    x = apply_op(x, op)
                    post = G.topo_neuron(x)
                except Exception as e:
                    post = f'ERR:{type(e).__name__}'
                model = model_op(ctx, op, pre)
                sig = None
                if op[0] == 'twigs':
                    sig = 'prune_twigs/python/chain-ending-at-nonforking-root'
                if not ctx.corr(post, model, f'history step {n} {op[0]} [{be}] vs operation model on the pre-state', dict(case, step=n, be=be), signature=sig):
                    ok = False
                    break
                ctx.count('history_op', f'{op[0]} {be}')
            if not ok:
                finals[be] = None
                continue
            o = {}

            def put(name, f):
                try:
                    o[name] = f()
                except Exception as e:
                    o[name] = f'ERR:{type(e).__name__}'
            put('topo', lambda: G.topo_neuron(x))
            put('geodesic', lambda: labelled(navis.geodesic_matrix(x)))
            put('small_segments', lambda: c05.canon_segs(x.small_segments))
            put('cable', lambda: c05.fmt(x.cable_length))
            put('strahler', lambda: col_of(navis.strahler_index(x), 'strahler_index'))
            put('components', lambda: sorted(sorted(int(v) for v in cc) for cc in GU._connected_components(x)))
            # hop counts of the (unweighted) greedy segments: invariant under tie-breaking among equally deep leafs
            put('seg_hops', lambda: sorted((len(s) - 1 for s in x.segments), reverse=True))
            # the final table's observables against the definitions, on the implementation's own final table
            fw = G.wire_neuron(x, labels=False)
            ctx.corr(o['geodesic'], ctx.ask(f'f.geo 0 1 inf * | {fw}'), f'history: geodesic_matrix after {len(ops)} in-place steps (warm caches) [{be}]', dict(case, be=be))
            ctx.corr(o['cable'], ctx.ask('f.cable ' + fw), f'history: cable_length after {len(ops)} in-place steps (warm caches) [{be}]', dict(case, be=be))
            finals[be] = o
    ref = finals.get('networkx')
    for be, o in finals.items():
        if o is None or ref is None or be == 'networkx':
            continue
        for name in ref:
            ctx.oracle(o.get(name) == ref[name], f'history: {name} after {[op[0] for op in ops]} differs — {be}={str(o.get(name))[:160]}; '
                       f'networkx={str(ref[name])[:160]}', dict(case, observable=name))
    ctx.count('history_len', len(ops))


def gen_history(ctx, n):
    r = ctx.rng
    for k in range(n):
        rows, meta = G.rand_forest(r, n=r.randint(4, 16))
        ops = plan_history(r, rows, r.randint(2, 5))
        if ops:
            yield dict(kind='history', rows=rows, ops=ops, meta=meta)


# ------------------------------------------------------------------------------------------------
def exhaustive_rows(nmax):
    import itertools
    for n in range(1, nmax + 1):
        for par in itertools.product(*[range(-1, i) for i in range(n)]):
            rows = [dict(id=i, parent=par[i], x=0, y=0, z=0) for i in range(n)]
            for i in range(n):
                if par[i] >= 0:
                    p = rows[par[i]]
                    rows[i]['x'], rows[i]['y'], rows[i]['z'] = p['x'] + 3, p['y'] + 4 * ((i % 2) * 2 - 1), p['z']
                else:
                    rows[i]['x'] = 40 * i
            yield rows


RUN = {'sweep': case_sweep, 'segvar': case_segvar, 'direct': direct_compare, 'history': case_history}


def run(ctx):
    ctx.extra['rule'] = ('every case of the C05/C10/C12 (+C17/C11/C13) streams is executed under each available back-end '
                         f'{available()} against the same Lean model; own streams: sweep (Python Strahler code vs its as-written model, 3 pop orders), '
                         'segvar (Python segment builders vs as-written models, exact order), direct (pairwise comparison of ~25 observables per forest), '
                         'history (2–5 in-place steps with warm caches per back-end); non-trivial when ≥ 3 nodes')
    timings = {}
    mods = [('c05', c05, 20, 150), ('c10', c10, 14, 90), ('c12', c12, 20, 150)]
    for nm in EXTRA_STREAMS:
        m = optional(nm)
        if m is not None and hasattr(m, 'gen_cases') and hasattr(m, 'RUNNERS'):
            mods.append((nm, m, {'c17': 25, 'c13': 12}.get(nm, 8), 150))
    ctx.extra['streams'] = [m[0] for m in mods] + list(RUN)
    # defects recorded under the streams' home properties are known here too (same call sites, same signatures)
    from .common import load_known
    home = {m[0].upper() for m in mods}
    have = {k['signature'] for k in ctx.known}
    ctx.known += [k for k in load_known() if k.get('property') in home and k.get('status') == 'open' and k['signature'] not in have]
    only_own = os.environ.get('C04_ONLY') == 'own'      # development aid: skip the re-run streams
    for be in ([] if only_own else available()):
        with backend(be):
            for nm, mod, q, t in mods:
                t0 = time.time()
                n = ctx.budget(q, t)
                only = getattr(mod, 'BACKEND_STREAMS', None)     # kinds that depend on the back-end at all
                orig_budget = ctx.budget
                try:
                    gen = mod.gen_cases(ctx, n)
                except TypeError:
                    # the module sizes its own stream: scale its budgets down to a sample for the re-run
                    scale = (0.05 if ctx.quick() else 0.05)
                    ctx.budget = lambda q_, t_, _o=orig_budget, _s=scale: max(1, int(_o(q_, t_) * _s))
                    gen = mod.gen_cases(ctx)
                try:
                    for kind, case in gen:
                        if only is not None and kind not in only:
                            continue
                        c = dict(case, kind=kind, be=be, stream=nm)
                        ctx.case(c, nontrivial=len(case.get('rows', [])) >= 3)
                        ctx.count('backend', be); ctx.count('stream', f'{nm}.{kind}')
                        mod.RUNNERS[kind](ctx, case, be)
                finally:
                    ctx.budget = orig_budget
                timings[f'{nm}[{be}]'] = round(time.time() - t0, 1)
    for name, gen, q, t in (('sweep', gen_sweep, 110, 1500), ('segvar', gen_segvar, 70, 1000), ('direct', gen_direct, 26, 200),
                            ('history', gen_history, 22, 150)):
        t0 = time.time()
        for case in gen(ctx, ctx.budget(q, t)):
            ctx.case(case, nontrivial=len(case['rows']) >= 3)
            ctx.count('stream', name)
            RUN[name](ctx, case)
        timings[name] = round(time.time() - t0, 1)
    if not ctx.quick():
        t0 = time.time()
        r = random.Random(ctx.seed)
        for rows in exhaustive_rows(5):
            for g in (False, True):
                case = dict(kind='sweep', rows=rows, greedy=g, ignore=[], min_twig=None, seed=r.randrange(10 ** 9), meta=dict(shape='exhaustive'))
                ctx.case(case, nontrivial=len(rows) >= 3); case_sweep(ctx, case)
            lf = leafs_of(rows)
            if lf:
                case = dict(kind='sweep', rows=rows, greedy=False, ignore=sorted(l for l in lf if r.random() < 0.5), min_twig=r.choice([None, 2, 3]),
                            seed=r.randrange(10 ** 9), meta=dict(shape='exhaustive'))
                ctx.case(case, nontrivial=len(rows) >= 3); case_sweep(ctx, case)
            case = dict(kind='segvar', rows=rows, meta=dict(shape='exhaustive'))
            ctx.case(case, nontrivial=len(rows) >= 3); case_segvar(ctx, case)
            ctx.count('stream', 'exhaustive')
        for rows in exhaustive_rows(4):
            case = dict(kind='direct', rows=rows, seed=r.randrange(10 ** 9), meta=dict(shape='exhaustive'), connectors=None)
            ctx.case(case, nontrivial=len(rows) >= 3); direct_compare(ctx, case)
        timings['exhaustive'] = round(time.time() - t0, 1)
    ctx.extra['timings_s'] = timings
    ctx.notes.append('seconds per stream: ' + ', '.join(f'{k}={v}' for k, v in timings.items()))


def replay(ctx, rp):
    case = rp['case']
    ctx.case(case)
    kind = case.get('kind')
    if kind in RUN and 'stream' not in case:
        RUN[kind](ctx, {k: v for k, v in case.items() if k not in ('observable', 'step', 'be')})
        return
    mod = {'c05': c05, 'c10': c10, 'c12': c12}.get(case.get('stream')) or optional(case.get('stream'))
    be = case.get('be')
    with backend(be):
        mod.RUNNERS[case['kind']](ctx, {k: v for k, v in case.items() if k not in ('kind', 'be', 'stream')}, be)
