"""C04 — results do not depend on the compute back-end (fastcore / igraph / networkx).

The correspondence streams of C05 (distances, segments), C10 (reroot, cut, subset), C12 (pruning) —
and C17 / C11 / C13 when present — are re-run with navis switched in-process to each back-end, every
run against the SAME Lean model output, "equal up to order among exact ties".  Additionally the same
call is made under all three back-ends and the observable results are compared with each other
directly (the property's own formulation)."""
import importlib, warnings, random
import numpy as np

warnings.filterwarnings('ignore')
import navis
from . import gen as G
from .backends import backend, available
from . import c05, c10, c12

navis.config.pbar_hide = True
navis.set_loggers('ERROR')


# streams of later properties, added here once their driver commands are linked into navisdrv
EXTRA_STREAMS = ['c17', 'c11', 'c13']


def optional(name):
    try:
        return importlib.import_module(f'harness.{name}')
    except Exception:
        return None


def direct_compare(ctx, case):
    """Same calls under every back-end; compare canonical observables pairwise."""
    rows = case['rows']
    r = random.Random(case['seed'])
    ids = [rw['id'] for rw in rows]
    pm = {rw['id']: rw['parent'] for rw in rows}
    outs = {}
    src = r.choice(ids)
    size = r.choice([1, 3, 5, 9, 14])
    for be in available():
        with backend(be):
            x = G.to_neuron(rows)
            o = {}

            def put(name, f):
                try:
                    o[name] = f()
                except Exception as e:
                    o[name] = f'ERR:{type(e).__name__}'
            put('small_segments', lambda: c05.canon_segs(x.small_segments))
            put('components', lambda: sorted(sorted(int(v) for v in cc) for cc in navis.graph.graph_utils._connected_components(x)))
            put('geodesic', lambda: c05.canon_matrix(navis.geodesic_matrix(x)))
            put('geodesic_dir_unw', lambda: c05.canon_matrix(navis.geodesic_matrix(x, directed=True, weight=None)))
            put('cable', lambda: c05.fmt(x.cable_length))
            put('parent_dist', lambda: [c05.fmt(v) for v in navis.morpho.mmetrics.parent_dist(x, root_dist=0)])
            put('strahler', lambda: dict(zip(map(int, x.nodes.node_id), map(int, navis.strahler_index(x).nodes.strahler_index))))
            put('distal_to', lambda: bool(navis.distal_to(x, ids[0], src)) if len(ids) > 1 else None)
            put('reroot', lambda: G.topo_neuron(navis.reroot_skeleton(x, src, inplace=False)))
            put('twigs', lambda: G.topo_neuron(navis.prune_twigs(x, size=size, inplace=False)))
            put('subset', lambda: G.topo_neuron(navis.subset_neuron(x, ids[::2], inplace=False)))
            nonroot = [i for i in ids if pm[i] >= 0]
            if nonroot and sum(1 for p in pm.values() if p < 0) == 1:
                c = nonroot[0]
                put('cut', lambda: ' || '.join(G.topo_neuron(f) for f in navis.cut_skeleton(x, c)))
            outs[be] = o
    bes = list(outs)
    for name in outs[bes[0]]:
        vals = {be: outs[be].get(name) for be in bes}
        ref = vals[bes[0]]
        for be in bes[1:]:
            if vals[be] != ref:
                sig = direct_signature(name, case, vals)
                ctx.oracle(False, f'{name}: back-ends disagree — ' + '; '.join(f'{b}={str(v)[:160]}' for b, v in vals.items()),
                           dict(case, observable=name), signature=sig)
                break
        ctx.count('direct_observable', name)


def direct_signature(name, case, vals):
    rows = case['rows']
    pm = {rw['id']: rw['parent'] for rw in rows}
    ch = {}
    for i, p in pm.items():
        ch.setdefault(p, []).append(i)
    if name == 'strahler':
        return 'strahler/python-sweep'
    if name == 'twigs':
        return 'prune_twigs/python/chain-ending-at-nonforking-root'
    if name in ('geodesic', 'geodesic_dir_unw') and all(p < 0 for p in pm.values()):
        return 'geodesic_matrix/igraph/no-edges'
    if name == 'reroot' and 0 in pm:
        return 'reroot/networkx/node-id-0'
    return None


def run(ctx):
    ctx.extra['rule'] = ('every case of the C05/C10/C12 (+C17/C11/C13 when built) streams is executed under each available back-end '
                         f'{available()} against the same Lean model; plus direct pairwise comparison of 12 observables per forest; '
                         'non-trivial when ≥ 3 nodes')
    mods = [('c05', c05, 25, 300), ('c10', c10, 25, 300), ('c12', c12, 25, 300)]
    for nm in EXTRA_STREAMS:
        m = optional(nm)
        if m is not None and hasattr(m, 'gen_cases') and hasattr(m, 'RUNNERS'):
            mods.append((nm, m, 15, 200))
    ctx.extra['streams'] = [m[0] for m in mods]
    # defects recorded under the streams' home properties are known here too (same call sites, same signatures)
    from .common import load_known
    home = {m[0].upper() for m in mods}
    have = {k['signature'] for k in ctx.known}
    ctx.known += [k for k in load_known() if k.get('property') in home and k.get('status') == 'open' and k['signature'] not in have]
    for be in available():
        with backend(be):
            for nm, mod, q, t in mods:
                n = ctx.budget(q, t)
                try:
                    gen = mod.gen_cases(ctx, n)
                except TypeError:
                    gen = mod.gen_cases(ctx)
                for kind, case in gen:
                    c = dict(case, kind=kind, be=be, stream=nm)
                    ctx.case(c, nontrivial=len(case.get('rows', [])) >= 3)
                    ctx.count('backend', be); ctx.count('stream', f'{nm}.{kind}')
                    mod.RUNNERS[kind](ctx, case, be)
    r = ctx.rng
    for k in range(ctx.budget(60, 800)):
        rows, meta = G.rand_forest(r, nmax=10 if k % 2 else 24)
        case = dict(rows=rows, seed=r.randrange(10 ** 9), meta=meta, kind='direct')
        ctx.case(case, nontrivial=len(rows) >= 3)
        direct_compare(ctx, case)


def replay(ctx, rp):
    case = rp['case']
    ctx.case(case)
    if case.get('kind') == 'direct':
        direct_compare(ctx, case)
        return
    mod = {'c05': c05, 'c10': c10, 'c12': c12}.get(case.get('stream')) or optional(case.get('stream'))
    be = case.get('be')
    with backend(be):
        mod.RUNNERS[case['kind']](ctx, {k: v for k, v in case.items() if k not in ('kind', 'be', 'stream')}, be)
