"""C16 — transforming or mirroring a neuron moves its coordinates and nothing else.

Tie (checked on every run; the real navis is imported in-process):
 (a) `navis.xform(x, transform)` for TreeNeuron / MeshNeuron / Dotprops (with `k` and k-less) with and without
     connectors (None / empty / some), tags, soma, numeric soma_radius, units; NeuronList; DataFrame; raw arrays;
     `navis.Volume`; `trimesh.Trimesh`.  The transform is *exact*: dyadic `AffineTransform`s, sequences of two,
     a non-affine `FunctionTransform`, and power-of-ten scalings, so every transformed coordinate is an exact
     double.  The result is compared field by field with the Lean model `xformNeuron` (`c16.xform`,
     stack / transform once / slice back by counts) and `xformTable` (`c16.table`).
 (b) `navis.mirror_brain` (registered `TemplateBrain`, all bounding-box layouts, all axes, warp False / 'auto'
     without and with a registered affine mirror registration / explicit warp transform), `navis.transforms.mirror`
     and `navis.symmetrize_brain` against `mirrorNeuron` / `mirrorMesh` / `symmetrize` (`c16.mirror|mesh|symm`).
Oracles (the property itself, on the implementation's output):
 * Lean `checkXform` (proved sound in Props/C16) on navis' own result: coordinates == row function applied to
   the raw coordinates, every other column / faces / links / meta identical, radius·units·soma radius follow
   10**m (m = what `_guess_change` returned, recorded by a pass-through wrapper), tangents are the normalised
   helper directions;
 * input object untouched (deep snapshot before / after) and not aliased by the result;
 * pure power-of-ten scalings are detected as such (m = k); Dotprops tangents have unit norm;
 * mirror without warp: coordinate + original = lo + hi on the mirror axis, the other axes and everything else
   unchanged, mesh faces re-wound, mirroring twice gives the input back;
 * VoxelNeuron (oracle only): grid shape kept, offset / voxel size follow the transformed bounding box.

Second pass (modules `harness/c16_image.py`, `harness/c16_ext.py`, run first):
 (c) the IMAGE path: VoxelNeurons with bright blocks through one map given as a single affine / a sequence of non-commuting
     members / `xform_brain` along a bridging path; every voxel decided by the Lean checkers `imageOK` (pull-back through
     the reversed inverses) and `landsOK` (forward only); identity controls; NeuronLists (cache re-use); tolerance stream.
 (d) raw arrays of every dtype / layout; neurons without connectors under 10^k and exact 1/10^k scalings;
     `xform_brain` on every input kind (routes, `via` / `avoid`, `_navis_units`, alias edges); `mirror_brain(via=…)`;
     `symmetrize_brain` with every bounding-box layout, `symmetrical` templates, `via`; `affine_fallback` / `caching`;
     Dotprops with warm (already computed) tangents: after every operation they must be the ones recomputed from the
     moved points.
 (e) translator `translator/gen_xformfacts.py` -> `Gen/XformFacts.lean`: theorems of Props/C16 §10 are re-checked against
     what the current source says (`__neg__` order, copy in `TransformSequence.xform`, stack / slice expressions, scale
     rules, flip matrix, re-winding branches, interpolation order, pull-back through `-transform`).
"""
import re, json, hashlib, warnings, copy, itertools
from fractions import Fraction
import numpy as np
import pandas as pd

warnings.filterwarnings('ignore')
import navis
import trimesh as tm
from navis.transforms import AffineTransform, xfm_funcs
from navis.transforms.base import TransformSequence, FunctionTransform
from navis.transforms.templates import TemplateBrain, registry

navis.config.pbar_hide = True
navis.set_loggers('ERROR')

EPS = Fraction(1, 2 ** 30)
EPS_TOK = f'1/{2 ** 30}'
# The three defects found by this check (integer-dtype truncation in `mirror`, tangents dropped by
# `symmetrize_brain` for k-less Dotprops, `xform` raising on coincident rows) are fixed in navis
# (known_findings/C16.json, status "fixed"): their streams stay, without a signature, so a regression is a VIOLATION.


# ---------------------------------------------------------------------------------------------
# tokens
# ---------------------------------------------------------------------------------------------
def fr(v):
    return Fraction(float(v))


def rt(f):
    f = Fraction(f)
    return str(f.numerator) if f.denominator == 1 else f'{f.numerator}/{f.denominator}'


def p_rat(s):
    return Fraction(s)


def san(s):
    s = re.sub(r'[^A-Za-z0-9_.:+\-]', '~', str(s))
    return s or '_'


def digest(obj):
    return 'h' + hashlib.sha1(json.dumps(obj, sort_keys=True, default=str).encode()).hexdigest()[:20]


def is_nan(v):
    try:
        return bool(np.isnan(v))
    except Exception:
        return False


# ---------------------------------------------------------------------------------------------
# transforms
# ---------------------------------------------------------------------------------------------
def quad_func(a, b, c):
    def f(p):
        p = np.asarray(p, dtype=float)
        return np.c_[p[:, 0] + a * p[:, 1] * p[:, 2], p[:, 1] + b * p[:, 2] * p[:, 2], c * p[:, 2]]
    return f


def build_step(st):
    if st[0] == 'A':
        m = np.eye(4)
        m[:3, :] = np.array(st[1], dtype=float).reshape(3, 4)
        return AffineTransform(m)
    if st[0] == 'Q':
        return FunctionTransform(quad_func(*st[1]))
    if st[0] == 'D':      # exact division by an integer (e.g. nm -> um): every coordinate is a multiple of it
        k = float(st[1])
        return FunctionTransform(lambda p, k=k: np.asarray(p, dtype=float) / k)
    raise ValueError(st)


def build_transform(steps, wrap):
    trs = [build_step(s) for s in steps]
    if wrap == 'single' and len(trs) == 1:
        return trs[0]
    if wrap == 'list':
        return trs
    if wrap == 'ndarray':      # `isinstance(transform, (list, np.ndarray))`
        a = np.empty(len(trs), dtype=object)
        a[:] = trs
        return a
    return TransformSequence(*trs)


def f_payload(steps):
    out = []
    for st in steps:
        if st[0] in ('A', 'Q', 'I'):
            out.append(f'{st[0]}:' + ','.join(rt(fr(v)) for v in st[1]))
        elif st[0] == 'M':
            out.append(f'M:{st[1]},{rt(fr(st[2]))}')
        elif st[0] == 'D':
            k = int(st[1])
            out.append(f'A:1/{k},0,0,0,0,1/{k},0,0,0,0,1/{k},0')
    return ';'.join(out)


def apply_steps_exact(steps, p):
    """Exact rational evaluation of the row function (used only for tables / arrays diagnostics)."""
    x, y, z = p
    for st in steps:
        if st[0] in ('A', 'I'):
            a = [fr(v) for v in st[1]]
            if st[0] == 'I':
                a = IMG.inv12(a)
            x, y, z = (a[0] * x + a[1] * y + a[2] * z + a[3], a[4] * x + a[5] * y + a[6] * z + a[7],
                       a[8] * x + a[9] * y + a[10] * z + a[11])
        elif st[0] == 'D':
            x, y, z = x / int(st[1]), y / int(st[1]), z / int(st[1])
        elif st[0] == 'Q':
            a, b, c = [fr(v) for v in st[1]]
            x, y, z = x + a * y * z, y + b * z * z, c * z
        elif st[0] == 'M':
            s = fr(st[2])
            if st[1] == 'x':
                x = s - x
            elif st[1] == 'y':
                y = s - y
            else:
                z = s - z
    return x, y, z


# ---------------------------------------------------------------------------------------------
# building navis objects from JSON-able specs
# ---------------------------------------------------------------------------------------------
def make_conns(spec, with_node_id=True):
    c = spec.get('conns')
    if c is None:
        return None
    cols = {'connector_id': np.array([r[0] for r in c], dtype=np.int64)}
    if with_node_id:
        cols['node_id'] = np.array([r[1] for r in c], dtype=np.int64)
    cols['type'] = np.array([r[2] for r in c], dtype=np.int64)
    dt = np.int64 if spec.get('int_conn_xyz') else float
    cols['x'] = np.array([r[3] for r in c], dtype=dt)
    cols['y'] = np.array([r[4] for r in c], dtype=dt)
    cols['z'] = np.array([r[5] for r in c], dtype=dt)
    cols['extra'] = np.array([str(r[6]) for r in c], dtype=object)
    return pd.DataFrame(cols)


def make_obj(spec):
    t = spec['type']
    if t == 'tree':
        rows = spec['nodes']
        dt = np.int64 if spec.get('int_xyz') else float
        d = {'node_id': np.array([r[0] for r in rows], dtype=np.int64),
             'parent_id': np.array([r[1] for r in rows], dtype=np.int64),
             'x': np.array([r[2] for r in rows], dtype=dt), 'y': np.array([r[3] for r in rows], dtype=dt),
             'z': np.array([r[4] for r in rows], dtype=dt)}
        if spec.get('radius_col', True):
            d['radius'] = np.array([np.nan if r[5] is None else r[5] for r in rows], dtype=float)
        d['label'] = np.array([r[6] for r in rows], dtype=np.int64)
        if spec.get('extra_col'):
            d['conf'] = np.array([f'c{r[0] % 7}' for r in rows], dtype=object)
        kw = {}
        if spec.get('units') is not None:
            kw['units'] = spec['units']
        n = navis.TreeNeuron(pd.DataFrame(d), id=spec.get('id', 1), name=spec.get('name', 'n'), **kw)
        cn = make_conns(spec)
        if cn is not None:
            n.connectors = cn
        if spec.get('tags'):
            n.tags = {k: list(v) for k, v in spec['tags'].items()}
        if spec.get('soma') is not None:
            n.soma = spec['soma']
        if spec.get('soma_radius') is not None:
            n.soma_radius = spec['soma_radius']
        return n
    if t == 'mesh':
        kw = {}
        if spec.get('units') is not None:
            kw['units'] = spec['units']
        n = navis.MeshNeuron((np.array(spec['verts'], dtype=float).reshape(-1, 3),
                              np.array(spec['faces'], dtype=np.int64).reshape(-1, 3)),
                             id=spec.get('id', 1), name=spec.get('name', 'm'), **kw)
        cn = make_conns(spec, with_node_id=False)
        if cn is not None:
            n.connectors = cn
        return n
    if t == 'dots':
        kw = {}
        if spec.get('units') is not None:
            kw['units'] = spec['units']
        pts = np.array(spec['points'], dtype=float).reshape(-1, 3)
        if spec.get('k'):
            n = navis.Dotprops(pts, k=spec['k'], id=spec.get('id', 1), name=spec.get('name', 'd'), **kw)
        else:
            v = np.array(spec['vect'], dtype=float).reshape(-1, 3)
            v = v / np.linalg.norm(v, axis=1).reshape(-1, 1)
            al = np.array(spec['alpha'], dtype=float) if spec.get('alpha') else None
            n = navis.Dotprops(pts, k=spec.get('k'), vect=v, alpha=al, id=spec.get('id', 1),
                               name=spec.get('name', 'd'), **kw)
        cn = make_conns(spec, with_node_id=False)
        if cn is not None:
            n.connectors = cn
        if spec.get('warm'):
            # tangents / alpha of a Dotprops with `k` are computed lazily: a neuron whose `.vect` was read before the
            # transform carries them, and they must not survive it (they belong to the old coordinates)
            _ = n.vect, n.alpha
        return n
    if t == 'list':
        return navis.NeuronList([make_obj(s) for s in spec['items']])
    if t == 'df':
        dt = np.int64 if spec.get('int_xyz') else float
        d = {}
        order = spec.get('order', ['a', 'x', 'y', 'z', 'b'])
        rows = spec['rows']
        for c in order:
            if c in 'xyz':
                d[c] = np.array([r['xyz'.index(c)] for r in rows], dtype=dt)
            elif c == 'a':
                d[c] = np.array([f's{i}' for i in range(len(rows))], dtype=object)
            elif c == 'b':
                d[c] = np.array([i * 3 - 1 for i in range(len(rows))], dtype=np.int64)
            elif c == 'w':
                d[c] = np.array([i / 4 for i in range(len(rows))], dtype=float)
        return pd.DataFrame(d, index=spec.get('index') or None)
    if t == 'conndf':
        return make_conns(spec, with_node_id=spec.get('with_node_id', True))
    if t == 'array':
        a = np.array(spec['rows'], dtype=(np.int64 if spec.get('int_xyz') else float)).reshape(-1, 3)
        return a.tolist() if spec.get('as_list') else a
    if t == 'volume':
        return navis.Volume(np.array(spec['verts'], dtype=float).reshape(-1, 3),
                            np.array(spec['faces'], dtype=np.int64).reshape(-1, 3),
                            name=spec.get('name', 'vol'), color=tuple(spec.get('color', (0, 1, 0, .5))), id=spec.get('id', 5))
    if t == 'trimesh':
        return tm.Trimesh(np.array(spec['verts'], dtype=float).reshape(-1, 3),
                          np.array(spec['faces'], dtype=np.int64).reshape(-1, 3), process=False)
    if t == 'voxel':
        g = np.zeros(spec['shape'], dtype=np.dtype(spec.get('dtype', 'float32')))
        for (i0, i1, j0, j1, k0, k1, v) in spec.get('blocks', []):
            g[i0:i1, j0:j1, k0:k1] = v
        for (i, j, k, v) in spec.get('vox', []):
            g[i, j, k] = v
        cn = make_conns(spec, with_node_id=False) if spec.get('conns') else None
        if spec.get('from_voxels') and np.any(g != 0):
            # built from voxel COORDINATES (+ values): `.shape` is max index + 1, `.bbox` ends at the last occupied voxel
            idx = np.argwhere(g != 0)
            n = navis.VoxelNeuron(idx, units=spec.get('units', '1 um'), offset=np.array(spec['offset'], dtype=float),
                                  name=spec.get('name', 'vx'), id=spec.get('id', 3))
            n.values = g[g != 0]
        else:
            n = navis.VoxelNeuron(g, units=spec.get('units', '1 um'), offset=np.array(spec['offset'], dtype=float),
                                  name=spec.get('name', 'vx'), id=spec.get('id', 3))
        if cn is not None:
            n.connectors = cn
        return n
    raise ValueError(t)


# ---------------------------------------------------------------------------------------------
# extracting the modelled view of a neuron  (dict of protocol fields)
# ---------------------------------------------------------------------------------------------
def table_rows(df, skip=('x', 'y', 'z')):
    cols = [c for c in df.columns if c not in skip]
    xyz = df[['x', 'y', 'z']].values
    out = []
    for i in range(df.shape[0]):
        rest = san(':'.join(repr(df[c].iloc[i]) if not isinstance(df[c].iloc[i], (str, np.generic, int, float))
                            else str(df[c].iloc[i]) for c in cols)) if cols else '_'
        out.append((fr(xyz[i, 0]), fr(xyz[i, 1]), fr(xyz[i, 2]), rest))
    return out


def rows_tok(rows):
    return ';'.join(f'{rt(r[0])},{rt(r[1])},{rt(r[2])},{r[3]}' for r in rows)


def pts_tok(pts):
    return ';'.join(f'{rt(p[0])},{rt(p[1])},{rt(p[2])}' for p in pts)


def units_frac(u):
    from navis import config
    if isinstance(u, (config.ureg.Unit, config.ureg.Quantity)):
        try:
            m = (1 * u).to_base_units().magnitude if isinstance(u, config.ureg.Unit) else u.to_base_units().magnitude
            if np.ndim(m) == 0:
                return fr(m)
        except Exception:
            return None
    return None


_META = {'units_dim': True}


class NoUnitsDim:
    """`xform_brain` may REPLACE the units by the target template's `_navis_units` (e.g. dimensionless -> micrometer):
    while such an override applies the dimensionality of the units is not part of the meta data that must survive."""

    def __init__(self, active=True):
        self.active = active

    def __enter__(self):
        self.old = _META['units_dim']
        if self.active:
            _META['units_dim'] = False

    def __exit__(self, *a):
        _META['units_dim'] = self.old


def meta_of(n):
    """Everything that is not a modelled field: must come back identical."""
    m = {'class': type(n).__name__, 'name': getattr(n, 'name', None), 'id': str(getattr(n, 'id', None))}
    if isinstance(n, navis.TreeNeuron):
        m['tags'] = {str(k): list(map(int, v)) for k, v in (n.tags or {}).items()} if n.tags is not None else None
        try:
            s = n.soma
            m['soma'] = None if s is None else (sorted(map(int, s)) if hasattr(s, '__len__') else int(s))
        except Exception as e:
            m['soma'] = f'ERR {type(e).__name__}'
        m['soma_radius_str'] = n.soma_radius if isinstance(n.soma_radius, str) else None
        m['node_cols'] = [(c, str(n.nodes[c].dtype) if c != 'radius' else 'num') for c in n.nodes.columns if c not in ('x', 'y', 'z')]
        m['node_xyz_pos'] = [list(n.nodes.columns).index(c) for c in 'xyz']
        m['node_index'] = list(map(int, n.nodes.index))
    if isinstance(n, navis.Dotprops):
        m['soma'] = None if n.soma is None else int(n.soma)
    if getattr(n, 'connectors', None) is not None:
        c = n.connectors
        m['conn_cols'] = [(k, str(c[k].dtype)) for k in c.columns if k not in ('x', 'y', 'z')]
        m['conn_cols_all'] = list(c.columns)
        m['conn_index'] = list(map(int, c.index))
    u = getattr(n, 'units', None)
    if units_frac(u) is None:
        m['units_raw'] = str(u)
    elif _META['units_dim']:
        try:
            m['units_dim'] = str(u.dimensionality)
        except Exception:
            pass
    return m


def extract(n):
    """Protocol fields of a TreeNeuron / MeshNeuron / Dotprops."""
    d = {'rad': '-', 'vect': '-', 'alpha': '-', 'k': '-', 'res': '0', 'faces': '', 'soma': '-'}
    vect_raw = None
    if isinstance(n, navis.TreeNeuron):
        d['kind'] = 't'
        d['pts'] = rows_tok(table_rows(n.nodes, skip=('x', 'y', 'z', 'radius')))
        if 'radius' in n.nodes.columns:
            d['rad'] = ','.join('nan' if is_nan(v) else rt(fr(v)) for v in n.nodes['radius'].values)
        import numbers
        if isinstance(n.soma_radius, numbers.Number):
            d['soma'] = rt(fr(n.soma_radius))
    elif isinstance(n, navis.MeshNeuron):
        d['kind'] = 'm'
        v = np.asarray(n.vertices)
        d['pts'] = rows_tok([(fr(p[0]), fr(p[1]), fr(p[2]), '_') for p in v])
        d['faces'] = ','.join(f'{int(f[0])}.{int(f[1])}.{int(f[2])}' for f in np.asarray(n.faces))
    elif isinstance(n, navis.Dotprops):
        d['kind'] = 'd'
        v = np.asarray(n.points)
        d['pts'] = rows_tok([(fr(p[0]), fr(p[1]), fr(p[2]), '_') for p in v])
        d['k'] = '-' if n.k is None else str(int(n.k))
        if n._vect is not None:
            vect_raw = np.asarray(n._vect, dtype=float)
            d['vect'] = pts_tok([(fr(p[0]), fr(p[1]), fr(p[2])) for p in vect_raw])
        if n._alpha is not None:
            d['alpha'] = ','.join(rt(fr(a)) for a in np.asarray(n._alpha))
        if (n.k is None or n.k <= 0) and len(v) >= 2:
            d['res'] = rt(fr(n.sampling_resolution))
    else:
        raise TypeError(type(n))
    c = getattr(n, 'connectors', None)
    d['conns'] = '-' if c is None else rows_tok(table_rows(c))
    uf = units_frac(getattr(n, 'units', None))
    d['units'] = '-' if uf is None else rt(uf)
    d['info'] = digest(meta_of(n))
    return d


FIELDS = ['kind', 'pts', 'rad', 'vect', 'alpha', 'k', 'res', 'faces', 'conns', 'units', 'soma', 'info']


def n_line(d):
    return ' '.join(f'{k}={d[k]}' for k in FIELDS)


def parse_line(s):
    out = {}
    for w in s.split(' '):
        if not w:
            continue
        k, _, v = w.partition('=')
        out[k] = v
    return out


def close_list(a, b, sep=','):
    """token lists of rationals / nan / '-' equal up to EPS relative."""
    if a == b:
        return True
    if a == '-' or b == '-':
        return False
    x, y = a.split(sep), b.split(sep)
    if len(x) != len(y):
        return False
    for s, t in zip(x, y):
        if s == t:
            continue
        if 'nan' in (s, t) or not s or not t:
            return False
        p, q = Fraction(s), Fraction(t)
        if abs(p - q) > EPS * max(1, abs(q)):
            return False
    return True


# ---------------------------------------------------------------------------------------------
# snapshots (input untouched)
# ---------------------------------------------------------------------------------------------
def snap(x):
    if isinstance(x, navis.NeuronList):
        return ['NL'] + [snap(n) for n in x]
    if isinstance(x, navis.VoxelNeuron):
        cn = getattr(x, 'connectors', None)
        return ['VX', x.grid.tobytes(), str(x.grid.dtype), x.grid.shape, str(x.units), tuple(map(float, x.offset)), x.name, str(x.id),
                None if cn is None else (cn.to_json(), [str(t) for t in cn.dtypes], list(cn.columns))]
    if isinstance(x, navis.BaseNeuron):
        d = extract(x)
        extra = []
        for k, v in sorted(x.__dict__.items()):
            if isinstance(v, np.ndarray):
                extra.append((k, v.tobytes(), str(v.dtype), v.shape))
            elif isinstance(v, pd.DataFrame):
                extra.append((k, v.to_json(), [str(t) for t in v.dtypes], list(v.columns)))
        return ['N', d, json.dumps(meta_of(x), sort_keys=True, default=str), extra, str(getattr(x, 'units', None))]
    if isinstance(x, pd.DataFrame):
        return ['DF', x.to_json(), [str(t) for t in x.dtypes], list(x.columns), list(x.index)]
    if isinstance(x, tm.Trimesh):
        return ['TM', np.asarray(x.vertices).tobytes(), np.asarray(x.faces).tobytes(), getattr(x, 'name', None),
                str(getattr(x, 'color', None)), str(getattr(x, 'id', None))]
    if isinstance(x, np.ndarray):
        return ['A', x.tobytes(), str(x.dtype), x.shape]
    return ['L', json.dumps(x)]


def coord_arrays(x):
    """numpy buffers holding coordinates (for the aliasing check)."""
    out = []
    if isinstance(x, navis.NeuronList):
        for n in x:
            out += coord_arrays(n)
    elif isinstance(x, navis.MeshNeuron):
        out.append(np.asarray(x.vertices))
    elif isinstance(x, navis.Dotprops):
        out.append(np.asarray(x.points))
        if x._vect is not None:
            out.append(np.asarray(x._vect))
    elif isinstance(x, tm.Trimesh):
        out.append(np.asarray(x.vertices))
    elif isinstance(x, np.ndarray):
        out.append(x)
    return out


# ---------------------------------------------------------------------------------------------
# recording the scale guess (pass-through wrapper around the real `_guess_change`)
# ---------------------------------------------------------------------------------------------
class GuessRecorder:
    def __enter__(self):
        self.rec = []
        self.means = []
        self.orig = xfm_funcs._guess_change

        def wrapper(*a, **k):
            r = self.orig(*a, **k)
            self.rec.append(int(r[1]))
            self.means.append(float(r[0]))
            return r
        xfm_funcs._guess_change = wrapper
        return self

    def __exit__(self, *a):
        xfm_funcs._guess_change = self.orig


def block_rows(n):
    """number of rows of the collated block of one neuron (decides whether `_guess_change` is called)."""
    if isinstance(n, navis.TreeNeuron):
        k = n.nodes.shape[0]
    elif isinstance(n, navis.MeshNeuron):
        k = len(n.vertices)
    else:
        k = len(n.points) * (2 if (n.k is None or n.k <= 0) else 1)
    c = getattr(n, 'connectors', None)
    return k + (c.shape[0] if c is not None else 0)


def all_rows_coincide(d):
    """≥ 2 collated rows (points + connectors, no helper points) that are all at the same position."""
    if d['kind'] == 'd' and d['k'] == '-':
        return False
    rows = [tuple(r.split(',')[:3]) for tok in (d['pts'], d['conns']) if tok != '-' for r in tok.split(';') if r]
    return len(rows) >= 2 and len(set(rows)) == 1


def uniform_scale(steps):
    """exact factor c if every step multiplies all distances by the same factor (c·I + t, or division by an integer)"""
    c = Fraction(1)
    for st in steps:
        if st[0] == 'D':
            c /= int(st[1])
        elif st[0] == 'A':
            a = st[1]
            if not (a[5] == a[0] and a[10] == a[0] and a[0] != 0 and all(a[i] == 0 for i in (1, 2, 4, 6, 8, 9))):
                return None
            c *= abs(fr(a[0]))
        else:
            return None
    return c


def pure_pow10(steps):
    """k if the whole transform is `10^k · I + t` with k ≠ 0 (single affine step), else None."""
    if len(steps) == 1 and steps[0][0] == 'D':
        for k in range(1, 7):
            if int(steps[0][1]) == 10 ** k:
                return -k
        return None
    if len(steps) != 1 or steps[0][0] != 'A':
        return None
    a = steps[0][1]
    d = a[0]
    if not (a[5] == d and a[10] == d and all(a[i] == 0 for i in (1, 2, 4, 6, 8, 9))):
        return None
    for k in range(1, 7):
        if d == 10 ** k:
            return k
    return None


# ---------------------------------------------------------------------------------------------
# the xform case on one neuron (shared by single neurons and list members)
# ---------------------------------------------------------------------------------------------
def check_xformed(ctx, case, steps, n_in, d_in, n_out, m, tag, edges=None):
    """`edges` (protocol token `E`) = the bridging path of an `xform_brain` call: the Lean side then applies the
    `_navis_units` override of the last non-alias template (`xformBrainNeuron` / `checkXformBrain`)."""
    F = f_payload(steps)
    if type(n_out) is not type(n_in):
        ctx.oracle(False, f'{tag}: xform returned {type(n_out).__name__} for a {type(n_in).__name__}', case)
        return
    try:
        d_out = extract(n_out)
    except Exception as e:
        ctx.oracle(False, f'{tag}: result of xform is not a readable neuron: {type(e).__name__}: {str(e)[:120]}', case)
        return
    if edges is None:
        model = ctx.ask(f'c16.xform {F} | {m} | {n_line(d_in)}')
    else:
        model = ctx.ask(f'c16.xformb {F} | {m} | {edges} | {n_line(d_in)}')
    if model == 'RAISES' or model == 'BAD-OP':
        ctx.corr('returned a neuron', model, f'{tag}: model says xform raises', case)
        return
    mo = parse_line(model)
    helper_path = d_in['kind'] == 'd' and (d_in['k'] == '-' or int(d_in['k']) <= 0)
    for k in ('kind', 'pts', 'conns', 'faces', 'k', 'info'):
        ctx.corr(d_out.get(k), mo.get(k), f'{tag}: xform field `{k}` (navis vs Lean xformNeuron)', case)
    ctx.corr(d_out['alpha'] == '-', mo.get('alpha') == '-', f'{tag}: xform `_alpha` present / dropped', case)
    for k in ('rad', 'units', 'soma'):
        ok = close_list(d_out[k], mo.get(k, ''))
        ctx.corr(d_out[k] if not ok else 'close', mo.get(k) if not ok else 'close',
                 f'{tag}: xform field `{k}` follows 10**{m}', case)
    if helper_path:
        ok = ctx.ask(f"c16.tangents {EPS_TOK} | {mo.get('vect', '')} | {d_out['vect'] if d_out['vect'] != '-' else ''}")
        ctx.corr(ok, 'ok=1', f'{tag}: tangents are the normalised helper directions p\' - hp\' of the model', case)
    else:
        ctx.corr(d_out['vect'], mo.get('vect'), f'{tag}: xform field `vect`', case)
    # property decided by verified code on navis' own output
    if edges is None:
        chk = ctx.ask(f'c16.check {F} | {m} | {EPS_TOK} | {n_line(d_in)} | {n_line(d_out)}')
    else:
        chk = ctx.ask(f'c16.checkb {F} | {m} | {EPS_TOK} | {edges} | {n_line(d_in)} | {n_line(d_out)}')
    if chk != 'ok=1':
        what = explain(steps, d_in, d_out, m, override=(None if edges is None else ctx.ask(f'c16.bunits {edges}')))
        ctx.oracle(False, f'{tag}: {what}', case)
    else:
        ctx.oracle(True, '', case)
    fresh_tangents_oracle(ctx, case, n_out, tag, 'xform')
    # tangents stay unit vectors (regenerated ones too)
    if isinstance(n_out, navis.Dotprops):
        try:
            v = np.asarray(n_out.vect, dtype=float)
            nrm = np.linalg.norm(v, axis=1)
            ctx.oracle(bool(v.shape == np.asarray(n_out.points).shape and np.all(np.abs(nrm - 1) < 1e-9)),
                       f'{tag}: Dotprops tangents are not unit vectors after xform (norms {nrm[:4]})', case)
        except Exception as e:
            ctx.oracle(False, f'{tag}: Dotprops tangents unavailable after xform: {type(e).__name__}: {str(e)[:100]}', case)


def fresh_tangents_oracle(ctx, case, n_out, tag, what):
    """Dotprops WITH `k`: the tangents the result reports must be the ones recomputed from its (moved) points — not the
    tangents of the old coordinates.  Same routine, same points: deterministic, compared up to sign."""
    if not isinstance(n_out, navis.Dotprops) or n_out.k is None or n_out.k <= 0 or len(n_out.points) < 2:
        return
    try:
        ref = navis.Dotprops(np.array(n_out.points, dtype=float), k=int(n_out.k))
        v, w = np.asarray(n_out.vect, dtype=float), np.asarray(ref.vect, dtype=float)
        ok = v.shape == w.shape and bool(np.all(np.abs(np.abs(np.sum(v * w, axis=1)) - 1) < 1e-9))
        a, b = np.asarray(n_out.alpha, dtype=float), np.asarray(ref.alpha, dtype=float)
        ok = ok and a.shape == b.shape and bool(np.allclose(a, b, atol=1e-9, equal_nan=True))
    except Exception as e:
        ctx.oracle(False, f'{tag}: tangents of a Dotprops with k unavailable after {what}: {type(e).__name__}: {str(e)[:80]}', case)
        return
    ctx.oracle(ok, f'{tag}: after {what} the tangents / alpha of a Dotprops with k are not the ones recomputed from the moved '
                   f'points (stale tangents of the old coordinates)', case)


def explain(steps, d_in, d_out, m, override=None):
    """Human-readable reason when the Lean checker rejects navis' output."""
    def coords(tok):
        return [tuple(Fraction(v) for v in r.split(',')[:3]) for r in tok.split(';') if r]

    def rest(tok):
        return [r.split(',')[3] for r in tok.split(';') if r]
    msgs = []
    want = [apply_steps_exact(steps, p) for p in coords(d_in['pts'])]
    if coords(d_out['pts']) != want:
        msgs.append(f'node/vertex/point coordinates are not the transform of the raw coordinates '
                    f'(got {[tuple(map(float, p)) for p in coords(d_out["pts"])[:3]]}, want {[tuple(map(float, p)) for p in want[:3]]})')
    if rest(d_out['pts']) != rest(d_in['pts']):
        msgs.append('other node columns changed')
    if (d_in['conns'] == '-') != (d_out['conns'] == '-'):
        msgs.append('connector table appeared / disappeared')
    elif d_in['conns'] != '-':
        wantc = [apply_steps_exact(steps, p) for p in coords(d_in['conns'])]
        if coords(d_out['conns']) != wantc:
            msgs.append(f'connector coordinates are not the transform of the raw connector coordinates '
                        f'(got {[tuple(map(float, p)) for p in coords(d_out["conns"])[:3]]}, want {[tuple(map(float, p)) for p in wantc[:3]]})')
        if rest(d_out['conns']) != rest(d_in['conns']):
            msgs.append('other connector columns (ids, node links, types) changed')
    if d_in['faces'] != d_out['faces']:
        msgs.append('faces changed')
    if d_in['info'] != d_out['info']:
        msgs.append('meta data (name / id / tags / soma / columns / dtypes / index) changed')
    if d_in['k'] != d_out['k']:
        msgs.append('k changed')
    for k, nm in (('rad', 'radius'), ('units', 'units'), ('soma', 'soma_radius')):
        if k == 'units' and override not in (None, '-'):
            if d_out[k] == '-' or abs(Fraction(d_out[k]) - Fraction(override)) > EPS * max(1, abs(Fraction(override))):
                msgs.append(f'units are not the `_navis_units` of the last non-alias template of the path '
                            f'(magnitude {d_out[k]}, template says {override})')
            continue
        if d_in[k] != '-' and d_out[k] != '-':
            a = d_in[k].split(','); b = d_out[k].split(',')
            f = Fraction(10) ** m
            if k == 'units':
                f = 1 / f
            if len(a) != len(b) or any(('nan' in (s, t) and s != t) or ('nan' not in (s, t) and abs(Fraction(t) - Fraction(s) * f) > EPS * max(1, abs(Fraction(s) * f))) for s, t in zip(a, b)):
                msgs.append(f'{nm} does not follow the detected scale 10**{m} (in {a[:3]}, out {b[:3]})')
        elif d_in[k] != d_out[k]:
            msgs.append(f'{nm} appeared / disappeared')
    return 'Lean checkXform rejects navis\' result: ' + ('; '.join(msgs) or 'tangents / alpha differ from the model')


def run_xform(ctx, case):
    spec, steps, wrap = case['obj'], case['tr'], case.get('wrap', 'seq')
    np.random.seed(case.get('np_seed', 0))
    x = make_obj(spec)
    tr = build_transform(steps, wrap)
    members = list(x) if isinstance(x, navis.NeuronList) else [x]
    d_ins = [extract(n) for n in members]
    rows = [block_rows(n) for n in members]
    before = snap(x)
    ctx.count('xform_obj', spec['type'] if spec['type'] != 'list' else 'list' + str(len(members)))
    ctx.count('transform', '+'.join(s[0] for s in steps) + '/' + wrap)
    for s, d in zip((spec['items'] if spec['type'] == 'list' else [spec]), d_ins):
        ctx.count('member', f"{s['type']}{'' if s['type'] != 'dots' else ('_k' if s.get('k') else '_nok')}"
                            f"/conns={'none' if s.get('conns') is None else ('empty' if not s['conns'] else 'some')}")
    try:
        with GuessRecorder() as g:
            out = navis.xform(x, tr, **case.get('opts', {}))
    except Exception as e:
        # does the model also say the code raises?
        ms = [ctx.ask(f'c16.xform {f_payload(steps)} | 0 | {n_line(d)}') for d in d_ins]
        if any(m == 'RAISES' for m in ms):
            ctx.count('raises', type(e).__name__)
            return
        ctx.count('impl_error', type(e).__name__)
        coinc = any(all_rows_coincide(d) for d in d_ins)
        ctx.oracle(False, f'navis.xform raises {type(e).__name__}: {str(e)[:160]} on a valid {spec["type"]}'
                          + (' whose coordinate rows (nodes + connectors) all coincide' if coinc else ''), case)
        return
    after = snap(x)
    ctx.oracle(before == after, f'navis.xform modified its input ({spec["type"]})', case)
    if isinstance(x, navis.NeuronList) and len(members) > 1:
        if not isinstance(out, navis.NeuronList) or len(out) != len(members):
            ctx.oracle(False, f'xform(NeuronList of {len(members)}) returned {type(out).__name__} of length '
                              f'{len(out) if hasattr(out, "__len__") else "?"}', case)
            return
        outs = list(out)
    else:
        if isinstance(out, navis.NeuronList):
            outs = list(out)
        else:
            outs = [out]
        if isinstance(x, navis.NeuronList) and not isinstance(out, navis.NeuronList):
            ctx.count('note', 'xform(NeuronList of 1) returns a bare neuron')
    ms = list(g.rec)
    means = list(g.means)
    k10 = pure_pow10(steps)
    cu = uniform_scale(steps)
    for i, (n_in, d_in, n_out, nr) in enumerate(zip(members, d_ins, outs, rows)):
        has_guess = nr > 1 and bool(ms)
        m = ms.pop(0) if has_guess else 0
        mean = means.pop(0) if has_guess and means else None
        ctx.count('magnitude', m)
        tag = f'{type(n_in).__name__}[{i}]'
        if mean is not None and np.isfinite(mean) and mean > 0 and not all_rows_coincide(d_in):
            # `round(math.log10(mean))` against the Lean definition (no logarithm: 10^(2m-1) <= mean^2 < 10^(2m+1))
            ctx.corr(str(m), ctx.ask(f'c16.mag {rt(fr(mean))}'), f'{tag}: magnitude = round(log10(mean change)) (Lean roundLog10)', case)
            if cu is not None and len({tuple(r.split(',')[:3]) for tok in (d_in['pts'], d_in['conns']) if tok != '-' for r in tok.split(';') if r}) > 1:
                ctx.count('uniform_scale_magnitude', ctx.ask(f'c16.mag {rt(cu)}'))
                ctx.corr(str(m), ctx.ask(f'c16.mag {rt(cu)}'),
                         f'{tag}: every distance is multiplied by {float(cu)}: detected magnitude vs Lean guessUniform', case)
        if all_rows_coincide(d_in):
            ctx.count('coincident_rows', m)
            ctx.oracle(m == 0, f'{tag}: all coordinate rows coincide (no distance to compare) but the detected magnitude is {m}', case)
        elif k10 is not None and nr > 1:
            ctx.oracle(m == k10, f'{tag}: transform scales by exactly 10**{k10} but the detected magnitude is {m}', case)
        for a in coord_arrays(n_out):
            for b in coord_arrays(n_in):
                if a.size and b.size and np.shares_memory(a, b):
                    ctx.oracle(False, f'{tag}: result of xform shares coordinate memory with the input', case)
        check_xformed(ctx, case, steps, n_in, d_in, n_out, m, tag)


# ---------------------------------------------------------------------------------------------
# tables, arrays, volumes
# ---------------------------------------------------------------------------------------------
def arr_rows(a):
    a = np.asarray(a)
    return [(fr(p[0]), fr(p[1]), fr(p[2])) for p in a.reshape(-1, 3)]


def check_table_like(ctx, case, x, out, F, what, mirror=False):
    """Compare a DataFrame / array / Trimesh result with the model; `F` = protocol transform."""
    spec = case['obj']
    t = spec['type']
    if t == 'conndf':
        t = 'df'
    if t == 'df':
        if not isinstance(out, pd.DataFrame):
            ctx.oracle(False, f'{what}(DataFrame) returned {type(out).__name__}', case)
            return
        cols_in = [c for c in x.columns if c not in 'xyz']
        rin = table_rows(x)
        model = ctx.ask(f'c16.table {F} | {rows_tok(rin)}')
        ok_cols = list(out.columns) == list(x.columns) and list(out.index) == list(x.index)
        ctx.oracle(ok_cols, f'{what}(DataFrame) changed the column order or the index', case)
        if ok_cols:
            rout = table_rows(out)
            ctx.corr(rows_tok(rout), model, f'{what}(DataFrame): x/y/z moved by the transform, every other column unchanged', case)
            same_other = all(str(out[c].dtype) == str(x[c].dtype) and list(out[c]) == list(x[c]) for c in cols_in)
            want = [apply_steps_exact(case['_steps'], r[:3]) for r in rin]
            lean_ok = ctx.ask(f'c16.checkt {F} | {rows_tok(rin)} | {rows_tok(rout)}') == 'ok=1' if (rin or rout) else True
            ctx.oracle(lean_ok and same_other and [r[:3] for r in rout] == want,
                       f'{what}(DataFrame): ' + ('other columns changed' if not same_other else
                                                 f'coordinates are not the transform of the raw coordinates (got {[tuple(map(float, r[:3])) for r in rout[:3]]}, want {[tuple(map(float, w)) for w in want[:3]]})'), case)
    elif t == 'array':
        rin = arr_rows(x)
        model = ctx.ask(f"c16.table {F} | {rows_tok([r + ('_',) for r in rin])}")
        try:
            rout = arr_rows(out)
        except Exception:
            ctx.oracle(False, f'{what}(array) returned {type(out).__name__}', case)
            return
        ctx.corr(rows_tok([r + ('_',) for r in rout]), model, f'{what}(array) rows', case)
        want = [apply_steps_exact(case['_steps'], r) for r in rin]
        lean_ok = ctx.ask(f"c16.checkt {F} | {rows_tok([r + ('_',) for r in rin])} | {rows_tok([r + ('_',) for r in rout])}") == 'ok=1'
        ctx.oracle(lean_ok and isinstance(out, np.ndarray) and rout == want,
                   f'{what}(array): result is not the transform of the rows (got {[tuple(map(float, r)) for r in rout[:3]]}, want {[tuple(map(float, w)) for w in want[:3]]})', case)
    else:  # volume / trimesh
        if type(out) is not type(x):
            ctx.oracle(False, f'{what}({type(x).__name__}) returned {type(out).__name__}', case)
            return
        rin = arr_rows(x.vertices)
        fin = ','.join(f'{int(f[0])}.{int(f[1])}.{int(f[2])}' for f in np.asarray(x.faces))
        fout = ','.join(f'{int(f[0])}.{int(f[1])}.{int(f[2])}' for f in np.asarray(out.faces))
        if mirror:
            model = ctx.ask(f'c16.mesh {F} | {pts_tok(rin)} | {fin}')
            mv, _, mf = model.partition(' | ')
        else:
            model = ctx.ask(f"c16.table {F} | {rows_tok([r + ('_',) for r in rin])}")
            mv, mf = ';'.join(','.join(r.split(',')[:3]) for r in model.split(';') if r), fin
        ctx.corr(pts_tok(arr_rows(out.vertices)), mv.strip(), f'{what}({t}) vertices', case)
        ctx.corr(fout, mf.strip(), f'{what}({t}) faces' + (' re-wound' if mirror else ' unchanged'), case)
        want = [apply_steps_exact(case['_steps'], r) for r in rin]
        if mirror:
            lean_ok = ctx.ask(f'c16.checkmesh {F} | {pts_tok(rin)} | {fin} | {pts_tok(arr_rows(out.vertices))} | {fout}') == 'ok=1'
        else:
            lean_ok = ctx.ask(f"c16.checkt {F} | {rows_tok([r + ('_',) for r in rin])} | {rows_tok([r + ('_',) for r in arr_rows(out.vertices)])}") == 'ok=1'
        ok_v = arr_rows(out.vertices) == want and lean_ok
        wantf = np.asarray(x.faces)[:, ::-1] if mirror else np.asarray(x.faces)
        ok_f = np.array_equal(np.asarray(out.faces), wantf)
        ok_m = all(str(getattr(out, a, None)) == str(getattr(x, a, None)) for a in ('name', 'id', 'color')) if t == 'volume' else True
        ctx.oracle(ok_v and ok_f and ok_m,
                   f'{what}({t}): ' + ('vertices are not the transform of the raw vertices' if not ok_v else
                                       ('faces not re-wound on mirroring' if (not ok_f and mirror) else
                                        ('faces changed' if not ok_f else 'name / id / color changed'))), case)


def run_table(ctx, case):
    spec, steps, wrap = case['obj'], case['tr'], case.get('wrap', 'seq')
    case['_steps'] = steps
    x = make_obj(spec)
    tr = build_transform(steps, wrap)
    before = snap(x)
    ctx.count('table_obj', spec['type'] + ('/int' if spec.get('int_xyz') else ''))
    try:
        out = navis.xform(x, tr, **case.get('opts', {}))
    except Exception as e:
        ctx.count('impl_error', type(e).__name__)
        ctx.oracle(False, f'navis.xform raises {type(e).__name__}: {str(e)[:160]} on a valid {spec["type"]}', case)
        case.pop('_steps', None)
        return
    ctx.oracle(before == snap(x), f'navis.xform modified its input ({spec["type"]})', case)
    for a in coord_arrays(out):
        for b in coord_arrays(x):
            if a.size and b.size and np.shares_memory(a, b):
                ctx.oracle(False, f'result of xform({spec["type"]}) shares coordinate memory with the input', case)
    check_table_like(ctx, case, x, out, f_payload(steps), 'xform')
    case.pop('_steps', None)


# ---------------------------------------------------------------------------------------------
# mirroring
# ---------------------------------------------------------------------------------------------
_TB_COUNTER = [0]


class Template:
    """Registers a throw-away template brain (+ optional mirror registration) and removes it again."""

    def __init__(self, t):
        self.t = t

    def __enter__(self):
        _TB_COUNTER[0] += 1
        self.label = f'VERIFC16T{_TB_COUNTER[0]}'
        lo, hi = self.t['lo'], self.t['hi']
        form = self.t.get('form', '3x2')
        if form == '3x2':
            bb = [[lo[i], hi[i]] for i in range(3)]
        elif form == '2x3':
            bb = np.array([lo, hi], dtype=float)
        elif form == 'flat':
            bb = [v for i in range(3) for v in (lo[i], hi[i])]
        else:
            bb = tuple((lo[i], hi[i]) for i in range(3))
        self.tb = TemplateBrain(name=self.label + 'name', label=self.label, boundingbox=bb)
        registry.register_templatebrain(self.tb)
        self.n_tr = len(registry._transforms)
        if self.t.get('reg') is not None:
            registry.register_transform(build_step(self.t['reg']), source=self.label, target=None, transform_type='mirror')
        return self

    def __exit__(self, *a):
        registry._templates[:] = [t for t in registry._templates if t is not self.tb]
        registry._transforms[:] = [t for t in registry._transforms if t.source != self.label]
        registry.clear_caches()


AX = {'x': 0, 'y': 1, 'z': 2}


def mirror_steps(case, size_tok=None):
    t, ax, warp = case['template'], case['axis'], case['warp']
    size = t['lo'][AX[ax]] + t['hi'][AX[ax]]
    steps = [['M', ax, size]]
    if warp == 'auto-reg' or warp == 'true-reg':
        steps.append(t['reg'])
    elif warp == 'obj':
        steps.append(case['warp_tr'])
    return steps


def warp_arg(case):
    w = case['warp']
    if w == 'false':
        return False
    if w in ('auto', 'auto-reg'):
        return 'auto'
    if w == 'true-reg':
        return True
    if w == 'obj':
        return build_step(case['warp_tr'])
    raise ValueError(w)


def run_mirror(ctx, case):
    spec, ax = case['obj'], case['axis']
    steps = mirror_steps(case)
    case['_steps'] = steps
    F = f_payload(steps)
    t = case['template']
    size_model = ctx.ask(f"c16.size {rt(fr(t['lo'][AX[ax]]))},{rt(fr(t['hi'][AX[ax]]))}")
    ctx.corr(rt(fr(steps[0][2])), size_model, 'mirror_axis_size = lo + hi', case)
    nowarp = len(steps) == 1
    ctx.count('mirror_obj', spec['type'] + (('_k' if spec.get('k') else '_nok') if spec['type'] == 'dots' else ''))
    ctx.count('mirror_axis', ax); ctx.count('mirror_warp', case['warp']); ctx.count('bbox_form', t.get('form', '3x2'))
    x = make_obj(spec)
    before = snap(x)
    with Template(t) as T:
        tmpl = T.tb if case.get('template_as_object') else T.label
        try:
            if case.get('low_level'):
                out = navis.transforms.mirror(x, steps[0][2], mirror_axis=ax,
                                              warp=(warp_arg(case) if case['warp'] == 'obj' else None))
            else:
                out = navis.mirror_brain(x, template=tmpl, mirror_axis=ax, warp=warp_arg(case))
            out2 = None
            if nowarp:
                if case.get('low_level'):
                    out2 = navis.transforms.mirror(out, steps[0][2], mirror_axis=ax)
                else:
                    out2 = navis.mirror_brain(out, template=tmpl, mirror_axis=ax, warp=warp_arg(case))
        except Exception as e:
            ctx.count('impl_error', type(e).__name__)
            ctx.oracle(False, f'mirror_brain raises {type(e).__name__}: {str(e)[:160]} on a valid {spec["type"]}', case)
            case.pop('_steps', None)
            return
    ctx.oracle(before == snap(x), f'mirror_brain modified its input ({spec["type"]})', case)
    what = 'mirror' if case.get('low_level') else 'mirror_brain'
    if spec['type'] in ('df', 'conndf', 'array', 'volume', 'trimesh'):
        check_table_like(ctx, case, x, out, F, what, mirror=True)
        if out2 is not None:
            if spec['type'] in ('df', 'conndf'):
                back = table_rows(out2) == table_rows(x)
            elif spec['type'] == 'array':
                back = arr_rows(out2) == arr_rows(x)
            else:
                back = (arr_rows(out2.vertices) == arr_rows(x.vertices)
                        and np.array_equal(np.asarray(out2.faces), np.asarray(x.faces)))
            ctx.oracle(back,
                       f'{what} twice (no warp) does not give the input back ({spec["type"]})', case)
        case.pop('_steps', None)
        return
    members = list(x) if isinstance(x, navis.NeuronList) else [x]
    outs = list(out) if isinstance(out, navis.NeuronList) else [out]
    outs2 = (list(out2) if isinstance(out2, navis.NeuronList) else [out2]) if out2 is not None else [None] * len(members)
    if len(outs) != len(members):
        ctx.oracle(False, f'{what}(NeuronList of {len(members)}) returned {len(outs)} neurons', case)
        case.pop('_steps', None)
        return
    for i, (n_in, n_out, n_out2) in enumerate(zip(members, outs, outs2)):
        tag = f'{type(n_in).__name__}[{i}]'
        if type(n_out) is not type(n_in):
            ctx.oracle(False, f'{tag}: {what} returned {type(n_out).__name__}', case)
            continue
        d_in, d_out = extract(n_in), extract(n_out)
        if d_in['kind'] == 'd' and d_in['k'] == '-':
            pass
        model = ctx.ask(f'c16.mirror {F} | {n_line(d_in)}')
        mo = parse_line(model)
        helper_path = d_in['kind'] == 'd' and (d_in['k'] == '-' or int(d_in['k']) <= 0)
        for k in ('kind', 'pts', 'conns', 'faces', 'k', 'info', 'rad', 'units', 'soma'):
            ctx.corr(d_out.get(k), mo.get(k), f'{tag}: {what} field `{k}` (navis vs Lean mirrorNeuron)', case)
        ctx.corr(d_out['alpha'] == '-', mo.get('alpha') == '-', f'{tag}: {what} `_alpha` present / dropped', case)
        if helper_path:
            ok = ctx.ask(f"c16.tangents {EPS_TOK} | {mo.get('vect', '')} | {d_out['vect'] if d_out['vect'] != '-' else ''}")
            ctx.corr(ok, 'ok=1', f'{tag}: mirrored tangents are the normalised helper directions of the model', case)
        else:
            ctx.corr(d_out['vect'], mo.get('vect'), f'{tag}: {what} field `vect`', case)
        # property oracles, python side, straight from the statement
        msgs = mirror_violations(steps, d_in, d_out)
        # decided by verified code on navis' own output (Lean `checkMirror`, sound by Props/C16.checkMirror_sound)
        chk = ctx.ask(f'c16.checkm {F} | {EPS_TOK} | {n_line(d_in)} | {n_line(d_out)}')
        ctx.oracle(chk == 'ok=1' and not msgs, f'{tag}: {what}: ' + ('; '.join(msgs) or 'Lean checkMirror rejects navis\' result (tangents / alpha / scaled columns differ from the model)'), case)
        fresh_tangents_oracle(ctx, case, n_out, tag, what)
        if isinstance(n_out, navis.Dotprops):
            try:
                v = np.asarray(n_out.vect, dtype=float)
                ctx.oracle(bool(np.all(np.abs(np.linalg.norm(v, axis=1) - 1) < 1e-9)),
                           f'{tag}: Dotprops tangents are not unit vectors after {what}', case)
            except Exception as e:
                ctx.oracle(False, f'{tag}: Dotprops tangents unavailable after {what}: {type(e).__name__}', case)
        if n_out2 is not None:
            d2 = extract(n_out2)
            keys = ['kind', 'pts', 'conns', 'faces', 'k', 'info', 'rad', 'units', 'soma']
            bad = [k for k in keys if d2[k] != d_in[k]]
            if d_in['kind'] == 'd' and helper_path and d_in['vect'] != '-' and d2['vect'] != '-':
                ok = ctx.ask(f"c16.tangents {EPS_TOK} | {d_in['vect']} | {d2['vect']}")
                if ok != 'ok=1':
                    bad.append('vect')
            ctx.oracle(not bad, f'{tag}: {what} twice without warp is not the identity: fields {bad} differ', case)
    case.pop('_steps', None)


def mirror_violations(steps, d_in, d_out):
    def coords(tok):
        return [tuple(Fraction(v) for v in r.split(',')[:3]) for r in tok.split(';') if r]

    def rest(tok):
        return [r.split(',')[3] for r in tok.split(';') if r]
    msgs = []
    want = [apply_steps_exact(steps, p) for p in coords(d_in['pts'])]
    if coords(d_out['pts']) != want:
        msgs.append(f'coordinates are not the mirror image of the raw coordinates (got {[tuple(map(float, p)) for p in coords(d_out["pts"])[:3]]}, want {[tuple(map(float, p)) for p in want[:3]]})')
    if rest(d_out['pts']) != rest(d_in['pts']):
        msgs.append('other node columns changed')
    if (d_in['conns'] == '-') != (d_out['conns'] == '-'):
        msgs.append('connector table appeared / disappeared')
    elif d_in['conns'] != '-':
        wantc = [apply_steps_exact(steps, p) for p in coords(d_in['conns'])]
        if coords(d_out['conns']) != wantc:
            msgs.append(f'connector coordinates are not the mirror image of the raw connector coordinates (got {[tuple(map(float, p)) for p in coords(d_out["conns"])[:3]]}, want {[tuple(map(float, p)) for p in wantc[:3]]})')
        if rest(d_out['conns']) != rest(d_in['conns']):
            msgs.append('other connector columns changed')
    if d_in['kind'] == 'm':
        wf = ','.join('.'.join(reversed(f.split('.'))) for f in d_in['faces'].split(',') if f)
        if d_out['faces'] != wf:
            msgs.append('mesh faces were not re-wound on mirroring')
    for k, nm in (('info', 'meta data'), ('k', 'k'), ('rad', 'radius'), ('units', 'units'), ('soma', 'soma_radius')):
        if d_in[k] != d_out[k]:
            msgs.append(f'{nm} changed')
    return msgs


# ---------------------------------------------------------------------------------------------
# symmetrize
# ---------------------------------------------------------------------------------------------
def run_symm(ctx, case):
    spec, t = case['obj'], case['template']
    g = [['M', 'x', t['lo'][0] + t['hi'][0]], t['reg']]
    g0 = [['M', 'x', t['lo'][0] + t['hi'][0]]]
    x = make_obj(spec)
    before = snap(x)
    ctx.count('symm_obj', spec['type'] + (('_k' if spec.get('k') else '_nok') if spec['type'] == 'dots' else ''))
    with Template(t) as T:
        try:
            out = navis.symmetrize_brain(x, template=T.label)
        except Exception as e:
            ctx.count('impl_error', type(e).__name__)
            ctx.oracle(False, f'symmetrize_brain raises {type(e).__name__}: {str(e)[:160]} on a valid {spec["type"]}', case)
            return
    check_symm(ctx, case, x, before, out, t['lo'][0], t['hi'][0], g, g0)


def check_symm(ctx, case, x, before, out, lo, hi, g, g0):
    """`lo`, `hi`: the x-extent the midplane is computed from; `g` = mirror with warp, `g0` = plain flip back."""
    spec = case['obj']
    ctx.oracle(before == snap(x), f'symmetrize_brain modified its input ({spec["type"]})', case)

    def model(pts):
        if not pts:
            return ''
        return ctx.ask(f"c16.symm {rt(fr(lo))},{rt(fr(hi))} | {f_payload(g)} | {f_payload(g0)} | {pts_tok(pts)}")

    if spec['type'] == 'array':
        ctx.corr(pts_tok(arr_rows(out)), model(arr_rows(x)), 'symmetrize_brain(array) rows', case)
        return
    if spec['type'] in ('df', 'conndf'):
        rin, rout = table_rows(x), table_rows(out)
        ctx.corr(pts_tok([r[:3] for r in rout]), model([r[:3] for r in rin]), 'symmetrize_brain(DataFrame) x/y/z', case)
        ctx.oracle([r[3] for r in rin] == [r[3] for r in rout] and list(out.columns) == list(x.columns),
                   'symmetrize_brain(DataFrame) changed other columns', case)
        return
    if isinstance(x, navis.NeuronList):
        outs = list(out) if isinstance(out, navis.NeuronList) else [out]
        if len(outs) != len(x):
            ctx.oracle(False, f'symmetrize_brain(NeuronList of {len(x)}) returned {len(outs)} neurons', case)
            return
        for i, (a, b) in enumerate(zip(x, outs)):
            sub = dict(case, obj=spec['items'][i])
            check_symm(ctx, sub, a, snap(a), b, lo, hi, g, g0)
        return
    if type(out) is not type(x):
        ctx.oracle(False, f'symmetrize_brain returned {type(out).__name__} for {type(x).__name__}', case)
        return
    if spec['type'] in ('volume', 'trimesh'):
        ctx.corr(pts_tok(arr_rows(out.vertices)), model(arr_rows(x.vertices)), f"symmetrize_brain({spec['type']}) vertices", case)
        ok_f = np.array_equal(np.asarray(out.faces), np.asarray(x.faces))
        ok_m = all(str(getattr(out, a, None)) == str(getattr(x, a, None)) for a in ('name', 'id', 'color')) if spec['type'] == 'volume' else True
        ctx.oracle(ok_f and ok_m, f"symmetrize_brain({spec['type']}): " + ('faces changed (two flips cancel: no re-winding)' if not ok_f else 'name / id / color changed'), case)
        return
    d_in, d_out = extract(x), extract(out)

    def coords(tok):
        return [tuple(Fraction(v) for v in r.split(',')[:3]) for r in tok.split(';') if r]

    def rest(tok):
        return [r.split(',')[3] for r in tok.split(';') if r]
    helper_path = d_in['kind'] == 'd' and (d_in['k'] == '-' or int(d_in['k']) <= 0)
    mline = ctx.ask(f"c16.symmn {rt(fr(lo))},{rt(fr(hi))} | {f_payload(g)} | {f_payload(g0)} | {n_line(d_in)}")
    if mline in ('RAISES', 'BAD-OP'):
        ctx.corr('returned a neuron', mline, 'symmetrize_brain: model says it raises', case)
        return
    mo = parse_line(mline)
    for k in ('kind', 'pts', 'conns', 'faces', 'k', 'info', 'rad', 'units', 'soma'):
        ctx.corr(d_out.get(k), mo.get(k), f'symmetrize_brain field `{k}` (navis vs Lean symmetrizeNeuron)', case)
    ctx.corr(d_out['alpha'] == '-', mo.get('alpha') == '-', 'symmetrize_brain `_alpha` present / dropped', case)
    if helper_path:
        ok = ctx.ask(f"c16.tangents {EPS_TOK} | {mo.get('vect', '')} | {d_out['vect'] if d_out['vect'] != '-' else ''}")
        ctx.corr(ok, 'ok=1', 'symmetrize_brain: tangents of a k-less Dotprops are the normalised helper directions of the model', case)
    else:
        ctx.corr(d_out['vect'], mo.get('vect'), 'symmetrize_brain field `vect`', case)
    # the property, straight from the statement: coordinates moved by the array-level map, nothing else changed
    ctx.oracle(pts_tok(coords(d_out['pts'])) == model(coords(d_in['pts'])),
               'symmetrize_brain: node/vertex/point coordinates are not the symmetrized raw coordinates', case)
    if d_in['conns'] not in ('-', ''):
        ctx.oracle(d_out['conns'] != '-' and pts_tok(coords(d_out['conns'])) == model(coords(d_in['conns'])),
                   'symmetrize_brain: connector coordinates are not the symmetrized raw connector coordinates', case)
    same = [k for k in ('kind', 'faces', 'k', 'info', 'rad', 'units', 'soma') if d_in[k] != d_out[k]]
    if rest(d_in['pts']) != rest(d_out['pts']):
        same.append('other node columns')
    if d_in['conns'] != '-' and (d_out['conns'] == '-' or rest(d_in['conns']) != rest(d_out['conns'])):
        same.append('other connector columns')
    ctx.oracle(not same, f'symmetrize_brain changed more than coordinates: {same}', case)
    chk = ctx.ask(f"c16.checks {rt(fr(lo))},{rt(fr(hi))} | {f_payload(g)} | {f_payload(g0)} | {EPS_TOK} | {n_line(d_in)} | {n_line(d_out)}")
    ctx.oracle(chk == 'ok=1', 'Lean checkSymm rejects navis\' symmetrize_brain result (coordinates / columns / tangents differ from '
                              'the symmetrized input)', case)
    fresh_tangents_oracle(ctx, case, out, 'Dotprops', 'symmetrize_brain')
    if isinstance(out, navis.Dotprops):
        try:
            v = np.asarray(out.vect, dtype=float)
            ok = bool(v.shape == np.asarray(out.points).shape and np.all(np.abs(np.linalg.norm(v, axis=1) - 1) < 1e-9))
            ctx.oracle(ok, 'Dotprops tangents are not unit vectors after symmetrize_brain', case)
        except Exception as e:
            ctx.oracle(False, f'symmetrize_brain drops the tangent vectors of a Dotprops{" without k" if helper_path else ""}: '
                              f'`.vect` raises {type(e).__name__}: {str(e)[:80]}', case)


# ---------------------------------------------------------------------------------------------
# integer-typed coordinates (known finding)
# ---------------------------------------------------------------------------------------------
def run_intmirror(ctx, case):
    pts = np.array(case['rows'], dtype=np.int64).reshape(-1, 3)
    size, ax = case['size'], case['axis']
    ctx.count('intmirror', 'half-integer size' if fr(size).denominator != 1 else 'integer size')
    before = pts.copy()
    try:
        m1 = navis.transforms.mirror(pts, size, mirror_axis=ax)
        m2 = navis.transforms.mirror(m1, size, mirror_axis=ax)
    except Exception as e:
        ctx.oracle(False, f'mirror raises {type(e).__name__}: {str(e)[:120]} on an integer array', case)
        return
    ctx.oracle(np.array_equal(pts, before), 'mirror modified its input array', case)
    want = [apply_steps_exact([['M', ax, size]], r) for r in arr_rows(pts)]
    ctx.oracle(isinstance(m1, np.ndarray) and arr_rows(m1) == want,
               f'mirror of an integer array about size {size}: got {np.asarray(m1).tolist()[:3]}, the mirror image is '
               f'{[tuple(map(float, w)) for w in want[:3]]} (result dtype {np.asarray(m1).dtype})', case)
    ctx.oracle(arr_rows(m2) == arr_rows(pts),
               f'mirror twice (no warp) of integer array {pts.tolist()[:3]} about size {size} gives {np.asarray(m2).tolist()[:3]}',
               case)
    model = ctx.ask(f"c16.table M:{ax},{rt(fr(size))} | {rows_tok([r + ('_',) for r in arr_rows(pts)])}")
    ctx.corr(rows_tok([r + ('_',) for r in arr_rows(m1)]), model, 'mirror(integer array) rows', case)


# ---------------------------------------------------------------------------------------------
# voxels (oracle only)
# ---------------------------------------------------------------------------------------------
def run_voxel(ctx, case):
    spec, steps = case['obj'], case['tr']
    x = make_obj(spec)
    before = snap(x)
    tr = build_transform(steps, 'seq')
    try:
        out = navis.xform(x, tr)
    except Exception as e:
        ctx.count('impl_error', type(e).__name__)
        ctx.oracle(False, f'navis.xform(VoxelNeuron) raises {type(e).__name__}: {str(e)[:160]}', case)
        return
    ctx.oracle(before == snap(x), 'navis.xform modified its input (VoxelNeuron)', case)
    ctx.count('voxel', 'x'.join(map(str, spec['shape'])))
    if not isinstance(out, navis.VoxelNeuron):
        ctx.oracle(False, f'xform(VoxelNeuron) returned {type(out).__name__}', case)
        return
    bb = np.asarray(x.bbox, dtype=float)
    corners = [tuple(fr(bb[i, c[i]]) for i in range(3)) for c in itertools.product((0, 1), repeat=3)]
    xc = [apply_steps_exact(steps, c) for c in corners]
    lo = [min(c[i] for c in xc) for i in range(3)]
    hi = [max(c[i] for c in xc) for i in range(3)]
    shape = spec['shape']
    ok_shape = tuple(out.grid.shape) == tuple(shape) and out.grid.dtype == x.grid.dtype
    ok_off = [fr(v) for v in np.asarray(out.offset, dtype=float)] == lo
    um = np.atleast_1d(np.asarray(out.units_xyz.magnitude, dtype=float))
    if um.size == 1:
        um = np.repeat(um, 3)
    ok_units = all(abs(fr(um[i]) - (hi[i] - lo[i]) / shape[i]) <= EPS * max(1, (hi[i] - lo[i]) / shape[i]) for i in range(3))
    ok_meta = out.name == x.name and str(out.id) == str(x.id)
    ctx.oracle(ok_shape and ok_off and ok_units and ok_meta,
               f'xform(VoxelNeuron): ' + ('grid shape / dtype changed' if not ok_shape else
                                         (f'offset {list(map(float, out.offset))} is not the min corner {list(map(float, lo))} of the transformed bounding box' if not ok_off else
                                          (f'voxel size {um.tolist()} is not extent/shape {[float((hi[i]-lo[i])/shape[i]) for i in range(3)]}' if not ok_units else 'name / id changed'))), case)


# ---------------------------------------------------------------------------------------------
# generators
# ---------------------------------------------------------------------------------------------
def q4(r, lo=-40, hi=40):
    """dyadic coordinate with two fractional bits"""
    return r.randint(lo * 4, hi * 4) / 4


def gen_affine(r, kind=None):
    kind = kind or r.choice(['diag', 'diag', 'perm', 'full', 'full', 'shear', 'ident'])
    sc = [0.25, 0.5, 1, 2, 4, 8, -1, -2, 1.5, 3]
    a = [0.0] * 12
    if kind == 'ident':
        a[0] = a[5] = a[10] = 1.0
    elif kind == 'diag':
        a[0], a[5], a[10] = r.choice(sc), r.choice(sc), r.choice(sc)
    elif kind == 'perm':
        p = r.sample([0, 1, 2], 3)
        for i in range(3):
            a[4 * i + p[i]] = r.choice(sc)
    elif kind == 'shear':
        a[0] = a[5] = a[10] = 1.0
        a[r.choice([1, 2, 6])] = r.choice([0.5, -0.25, 1, 2])
    else:
        while True:
            m = [[r.choice([-2, -1, -0.5, 0, 0, 0.25, 0.5, 1, 1, 2, 3]) for _ in range(3)] for _ in range(3)]
            det = np.linalg.det(np.array(m))
            if abs(det) > 0.2:
                break
        for i in range(3):
            for j in range(3):
                a[4 * i + j] = float(m[i][j])
    if kind != 'ident' or r.random() < 0.5:
        for i in range(3):
            a[4 * i + 3] = r.choice([0, 0, 1, -2, 0.5, 10.25, -7.75, 100])
    return ['A', a]


def gen_steps(r, scale_stream=False):
    if scale_stream:
        k = r.choice([1, 2, 3, 3, 3, 6])
        d = float(10 ** k)
        t = [r.choice([0, 0, 16, -250.5]) for _ in range(3)]
        return [['A', [d, 0, 0, t[0], 0, d, 0, t[1], 0, 0, d, t[2]]]], r.choice(['single', 'seq', 'list'])
    u = r.random()
    if u < 0.45:
        return [gen_affine(r)], r.choice(['single', 'seq', 'list', 'ndarray'])
    if u < 0.8:
        return [gen_affine(r), gen_affine(r)], r.choice(['seq', 'list', 'ndarray'])
    q = ['Q', [r.choice([0, 0.5, -0.25, 1]), r.choice([0, 0.25, -1]), r.choice([1, 2, -1, 0.5])]]
    if u < 0.9:
        return [q], r.choice(['single', 'seq'])
    return r.sample([q, gen_affine(r)], 2), 'seq'


def gen_conns(r, n_ids, allow_empty=True):
    u = r.random()
    if u < 0.3:
        return None
    if u < 0.4 and allow_empty:
        return []
    k = r.choice([1, 1, 2, 3, 5, 8])
    base = r.choice([0, 10, 10 ** 6, 2 ** 40])
    return [[base + i * r.choice([1, 3]) + i, (r.choice(n_ids) if n_ids else 0), r.choice([0, 1, 1, 2]),
             q4(r), q4(r), q4(r), r.choice(['a', 'b', 'zz'])] for i in range(k)]


def gen_tree(r, small=False, dyadic_radius=False):
    n = r.choice([1, 1, 2, 3, 4, 6, 9, 14]) if not small else r.choice([0, 1, 2])
    ids = r.sample(range(0, 60), n) if r.random() < 0.7 else [10 ** 9 + 7 * i for i in range(n)]
    rows = []
    for i, nid in enumerate(ids):
        par = -1 if i == 0 or r.random() < 0.1 else ids[r.randrange(i)]
        rad = r.choice([1 / 64, 1 / 128, 1 / 32]) if dyadic_radius else r.choice([0.01, 0.01, 0.02, 1 / 64, None])
        rows.append([nid, par, q4(r), q4(r), q4(r), rad, r.choice([0, 0, 2, 5])])
    if r.random() < 0.3:
        r.shuffle(rows)
    spec = {'type': 'tree', 'nodes': rows, 'radius_col': r.random() < 0.85, 'extra_col': r.random() < 0.3,
            'conns': gen_conns(r, ids) if n else None, 'units': r.choice(['8 nm', '1 um', '1 nm', None, '4 nm']),
            'name': r.choice(['nA', 'DA1_lPN', 'x y']), 'id': r.choice([1, 77, 2 ** 40 + 5])}
    if n and r.random() < 0.5:
        spec['tags'] = {'ends': [ids[-1]], 'todo': ids[:2]}
    if n and r.random() < 0.4:
        spec['soma'] = ids[0]
    if r.random() < 0.25:
        spec['soma_radius'] = r.choice([2, 0.5, 4.0])
    return spec


TETRA = ([[0, 0, 0], [4, 0, 0], [0, 4, 0], [0, 0, 4]], [[0, 2, 1], [0, 1, 3], [0, 3, 2], [1, 2, 3]])


def gen_mesh_geom(r):
    u = r.random()
    if u < 0.4:
        v, f = copy.deepcopy(TETRA)
        off = [q4(r), q4(r), q4(r)]
        v = [[p[i] + off[i] for i in range(3)] for p in v]
        return v, f
    nv = r.choice([3, 4, 5, 8, 12])
    v = [[q4(r), q4(r), q4(r)] for _ in range(nv)]
    nf = r.choice([1, 2, 4, 7])
    f = [r.sample(range(nv), 3) for _ in range(nf)]
    return v, f


def gen_mesh(r):
    v, f = gen_mesh_geom(r)
    return {'type': 'mesh', 'verts': v, 'faces': f, 'conns': gen_conns(r, None),
            'units': r.choice(['1 um', '8 nm', None]), 'name': 'mesh', 'id': r.choice([5, 123456789012])}


def gen_dots(r, k=None, force_k=None):
    n = r.choice([2, 3, 4, 6, 9])
    pts = []
    while len(pts) < n:
        p = [q4(r, -20, 20), q4(r, -20, 20), q4(r, -20, 20)]
        if p not in pts:
            pts.append(p)
    usek = (r.random() < 0.45) if force_k is None else force_k
    spec = {'type': 'dots', 'points': pts, 'conns': gen_conns(r, None), 'units': r.choice(['1 um', '8 nm', None]),
            'name': 'dp', 'id': 3}
    if usek:
        spec['k'] = min(n, r.choice([2, 3, 5]))
        spec['warm'] = r.random() < 0.6
    else:
        spec['k'] = None
        vs = [[1, 0, 0], [0, 1, 0], [0, 0, -1], [1, 2, 2], [3, 4, 0], [-2, 3, 6], [1, 1, 1], [0, -3, 4]]
        spec['vect'] = [r.choice(vs) for _ in range(n)]
        if r.random() < 0.4:
            spec['alpha'] = [r.choice([0.25, 0.5, 1]) for _ in range(n)]
    return spec


def gen_neuron(r, **kw):
    u = r.random()
    if u < 0.4:
        return gen_tree(r, **{k: v for k, v in kw.items() if k in ('small', 'dyadic_radius')})
    if u < 0.6:
        return gen_mesh(r)
    return gen_dots(r)


def gen_tablelike(r):
    u = r.random()
    if u < 0.08:     # a connector-like DataFrame (connector_id / node_id / type / x / y / z / extra)
        return {'type': 'conndf', 'conns': gen_conns(r, list(range(5)), allow_empty=False) or [[1, 0, 0, 1.0, 2.0, 3.0, 'a']],
                'with_node_id': r.random() < 0.7}
    rows = [[q4(r), q4(r), q4(r)] for _ in range(r.choice([0, 1, 2, 3, 5, 9]))]
    if u < 0.35:
        isint = r.random() < 0.3
        if isint:
            rows = [[int(v) for v in p] for p in rows]
        order = r.choice([['a', 'x', 'y', 'z', 'b'], ['x', 'y', 'z'], ['z', 'a', 'y', 'w', 'x'], ['b', 'x', 'y', 'z', 'w', 'a']])
        idx = None
        if r.random() < 0.3 and rows:
            idx = [10 + 2 * i for i in range(len(rows))]
        return {'type': 'df', 'rows': rows, 'int_xyz': isint, 'order': order, 'index': idx}
    if u < 0.65:
        isint = r.random() < 0.3
        if isint:
            rows = [[int(v) for v in p] for p in rows]
        if not rows:
            rows = [[1, 2, 3]]
        return {'type': 'array', 'rows': rows, 'int_xyz': isint, 'as_list': r.random() < 0.3}
    v, f = gen_mesh_geom(r)
    return {'type': r.choice(['volume', 'trimesh']), 'verts': v, 'faces': f, 'name': 'LH', 'id': 7}


def gen_template(r, integer=False, reg=False):
    lo = [r.choice([0, 0, -3, 10, -20.5 if not integer else -20]) for _ in range(3)]
    hi = [lo[i] + r.choice([8, 100, 7.5 if not integer else 7, 64.25 if not integer else 64]) for i in range(3)]
    t = {'lo': lo, 'hi': hi, 'form': r.choice(['3x2', '3x2', '2x3', 'flat', 'tuple'])}
    if reg:
        t['reg'] = ['A', [1, 0, 0, r.choice([0.5, -0.25, 1]), 0, 1, 0, r.choice([0, 0.25]), 0, 0, 1, 0]]
    return t


def gen_cases(ctx):
    r = ctx.rng
    # --- hand-written corner cases first -------------------------------------------------------
    T = [['A', [2, 0, 0, 1, 0, 0.5, 0, -2, 0, 0, 4, 3]]]
    base_dots = {'type': 'dots', 'points': [[0, 0, 0], [1, 0, 0], [2, 0, 0], [2, 1, 0]], 'k': None,
                 'vect': [[1, 0, 0], [1, 0, 0], [0, 1, 0], [3, 4, 0]], 'units': '1 um',
                 'conns': [[10, 0, 0, 5, 5, 5, 'a'], [11, 0, 1, 6.5, 6, 6, 'b']]}
    yield 'xform', {'obj': base_dots, 'tr': T, 'wrap': 'single', 'stream': 'corner'}
    yield 'xform', {'obj': dict(base_dots, conns=None), 'tr': T, 'wrap': 'seq', 'stream': 'corner'}
    yield 'xform', {'obj': dict(base_dots, conns=[]), 'tr': T, 'wrap': 'seq', 'stream': 'corner'}
    yield 'xform', {'obj': dict(base_dots, k=3, vect=None), 'tr': T, 'wrap': 'list', 'stream': 'corner'}
    yield 'xform', {'obj': {'type': 'tree', 'nodes': [], 'conns': None, 'units': '8 nm'}, 'tr': T, 'stream': 'corner'}
    yield 'xform', {'obj': {'type': 'tree', 'nodes': [[3, -1, 1, 2, 3, 0.5, 0]], 'conns': None, 'units': '8 nm'},
                    'tr': [['A', [1000, 0, 0, 0, 0, 1000, 0, 0, 0, 0, 1000, 0]]], 'stream': 'corner'}
    yield 'xform', {'obj': {'type': 'tree', 'nodes': [[3, -1, 1, 2, 3, 0.5, 0]], 'units': '8 nm',
                            'conns': [[1, 3, 0, 1, 2, 4, 'a']]},
                    'tr': [['A', [1000, 0, 0, 0, 0, 1000, 0, 0, 0, 0, 1000, 0]]], 'stream': 'corner'}
    # --- exhaustive grid of block sizes: kind × #points × connectors (None / 0 / 1 / 2 / 3 rows) ------
    for kind, sizes in (('tree', [0, 1, 2, 3]), ('mesh', [3, 4]), ('dots_k', [2, 3]), ('dots_nok', [2, 3])):
        for npt in sizes:
            for nc in (None, 0, 1, 2, 3):
                P = [[float(i), float(i * i) / 4, float(-i) / 2] for i in range(npt)]
                conns = None if nc is None else [[100 + j, 0, j % 2, 7.0 + j, -1.5 * j, 2.25, 'e'] for j in range(nc)]
                if kind == 'tree':
                    obj = {'type': 'tree', 'nodes': [[i + 1, i if i else -1, P[i][0], P[i][1], P[i][2], 0.01, 0] for i in range(npt)],
                           'conns': None if conns is None else [[c[0], min(npt, 1), c[2], c[3], c[4], c[5], c[6]] for c in conns] if npt else None,
                           'units': '8 nm'}
                elif kind == 'mesh':
                    obj = {'type': 'mesh', 'verts': P, 'faces': [[0, 1, 2]] + ([[1, 3, 2]] if npt > 3 else []), 'conns': conns, 'units': '1 um'}
                else:
                    obj = {'type': 'dots', 'points': P, 'conns': conns, 'units': '1 um', 'k': 2 if kind == 'dots_k' else None}
                    if kind == 'dots_nok':
                        obj['vect'] = [[1, 2, 2], [0, 3, 4], [1, 0, 0]][:npt]
                yield 'xform', {'obj': obj, 'tr': T if (npt + (nc or 0)) % 2 else [T[0], ['Q', [0.5, -1, 2]]], 'wrap': 'seq', 'stream': 'grid'}
    for i in range(ctx.budget(150, 4000)):
        steps, wrap = gen_steps(r)
        yield 'xform', {'obj': gen_neuron(r, small=(i % 9 == 0)), 'tr': steps, 'wrap': wrap, 'np_seed': r.randrange(10 ** 6), 'stream': 'random'}
    for i in range(ctx.budget(40, 1000)):
        steps, wrap = gen_steps(r, scale_stream=True)
        obj = gen_tree(r, dyadic_radius=True) if i % 3 else gen_neuron(r)
        if obj['type'] == 'tree' and len(obj['nodes']) < 2:
            obj = gen_tree(r, dyadic_radius=True)
        yield 'xform', {'obj': obj, 'tr': steps, 'wrap': wrap, 'np_seed': r.randrange(10 ** 6), 'stream': 'scale'}
    for i in range(ctx.budget(4, 20)):
        p = [q4(r), q4(r), q4(r)]
        steps, wrap = gen_steps(r)
        if i % 2:
            obj = {'type': 'tree', 'nodes': [[1, -1] + p + [0.01, 0], [2, 1] + p + [0.01, 0]], 'conns': None, 'units': '8 nm'}
        else:
            obj = {'type': 'tree', 'nodes': [[7, -1] + p + [0.01, 0]], 'conns': [[1, 7, 0] + p + ['a']], 'units': '8 nm'}
        yield 'xform', {'obj': obj, 'tr': steps, 'wrap': wrap, 'stream': 'coincident'}
    for i in range(ctx.budget(25, 600)):
        steps, wrap = gen_steps(r)
        k = r.choice([1, 2, 2, 3, 4])
        yield 'xform', {'obj': {'type': 'list', 'items': [gen_neuron(r) for _ in range(k)]}, 'tr': steps, 'wrap': wrap,
                        'np_seed': r.randrange(10 ** 6), 'stream': 'list'}
    for i in range(ctx.budget(60, 1500)):
        steps, wrap = gen_steps(r)
        yield 'table', {'obj': gen_tablelike(r), 'tr': steps, 'wrap': wrap, 'stream': 'table'}
    # --- mirror ----------------------------------------------------------------------------------
    for i in range(ctx.budget(110, 3000)):
        u = r.random()
        if u < 0.6:
            obj = gen_neuron(r)
        elif u < 0.7:
            obj = {'type': 'list', 'items': [gen_neuron(r) for _ in range(r.choice([1, 2, 3]))]}
        else:
            obj = gen_tablelike(r)
        if obj['type'] == 'tree' and obj.get('conns') and r.random() < 0.3:
            obj['int_conn_xyz'] = True
            obj['conns'] = [c[:3] + [int(c[3]), int(c[4]), int(c[5])] + c[6:] for c in obj['conns']]
        warp = r.choice(['false', 'false', 'false', 'auto', 'auto-reg', 'true-reg', 'obj'])
        t = gen_template(r, reg=warp in ('auto-reg', 'true-reg'))
        c = {'obj': obj, 'template': t, 'axis': r.choice('xyz'), 'warp': warp, 'stream': 'mirror',
             'template_as_object': warp in ('false', 'obj') and r.random() < 0.3}
        if warp == 'obj':
            c['warp_tr'] = gen_affine(r, 'shear')
        if obj['type'] == 'array' and warp in ('false', 'obj') and r.random() < 0.5:
            c['low_level'] = True
            c['template_as_object'] = False
            if obj.get('as_list'):
                obj['as_list'] = False
        yield 'mirror', c
    for i in range(ctx.budget(30, 800)):
        u = r.random()
        if u < 0.25:
            obj = gen_tree(r)
        elif u < 0.4:
            obj = gen_mesh(r)
        elif u < 0.7:
            obj = gen_dots(r, force_k=(r.random() < 0.5))
        else:
            obj = gen_tablelike(r)
            if obj['type'] in ('volume', 'trimesh') or obj.get('int_xyz') or obj.get('as_list'):
                obj = {'type': 'array', 'rows': [[q4(r), q4(r), q4(r)] for _ in range(r.choice([1, 3, 6]))]}
        yield 'symm', {'obj': obj, 'template': dict(gen_template(r, reg=True), form='3x2'), 'stream': 'symmetrize'}
    for i in range(ctx.budget(12, 150)):
        size = r.choice([7.5, 0.5, 10, 101, -2.5, 64.25])
        yield 'intmirror', {'rows': [[r.randint(-20, 20) for _ in range(3)] for _ in range(r.choice([1, 2, 4]))],
                            'size': size, 'axis': r.choice('xyz'), 'stream': 'int-dtype'}
    for i in range(ctx.budget(8, 120)):
        shape = [r.choice([2, 3, 4]), r.choice([2, 3, 5]), r.choice([2, 4])]
        vox = [[r.randrange(shape[0]), r.randrange(shape[1]), r.randrange(shape[2]), r.choice([1, 0.5, 2])] for _ in range(3)]
        d = [r.choice([0.5, 1, 2, 4]) for _ in range(3)]
        a = [d[0], 0, 0, r.choice([0, 1, -8]), 0, d[1], 0, r.choice([0, 2.5]), 0, 0, d[2], 0]
        yield 'voxel', {'obj': {'type': 'voxel', 'shape': shape, 'vox': vox, 'offset': [r.choice([0, 10, -4]) for _ in range(3)],
                                'units': r.choice(['1 um', '2 um', '4 nm'])}, 'tr': [['A', a]], 'stream': 'voxel'}


RUNNERS = {'xform': run_xform, 'table': run_table, 'mirror': run_mirror, 'symm': run_symm,
           'intmirror': run_intmirror, 'voxel': run_voxel}

from harness import c16_image as IMG   # noqa: E402  (image path: needs the definitions above)
from harness import c16_ext as EXT     # noqa: E402  (dtype / xform_brain / mirror-via / symmetrize-ext / options streams)
RUNNERS.update(IMG.RUNNERS)
RUNNERS.update(EXT.RUNNERS)


def all_cases(ctx):
    yield from EXT.gen_cases(ctx)
    yield from IMG.gen_cases(ctx)
    yield from gen_cases(ctx)


def nontrivial(kind, case):
    if kind == 'xform':
        o = case['obj']
        items = o['items'] if o['type'] == 'list' else [o]
        return any(len(s.get('nodes', s.get('verts', s.get('points', [])))) >= 2 for s in items)
    if kind in ('table', 'mirror', 'symm'):
        o = case['obj']
        return bool(o.get('rows') or o.get('verts') or o.get('nodes') or o.get('points') or o.get('items') or o.get('conns'))
    return True


def run(ctx):
    ctx.extra['rule'] = (
        'xform cases: materialised neuron spec (TreeNeuron: node rows id/parent/x/y/z/radius/label in given row order, '
        'optional connectors None/empty/rows, tags, soma, numeric soma_radius, units; MeshNeuron: vertices, faces; '
        'Dotprops with k or k-less with tangents/alpha; NeuronList of 1–4) + transform steps (dyadic affine, two in '
        'sequence, non-affine quadratic FunctionTransform, 10^k scalings) + how the transform is passed (single / '
        'TransformSequence / list). table cases: DataFrame (int or float xyz, column orders, custom index), arrays, lists, '
        'Volume, Trimesh. mirror cases: object + template bounding box (3x2, 2x3, flat, tuple) + axis + warp mode '
        '(False / auto without registration / auto or True with a registered affine mirror registration / explicit '
        'transform), template by label or object, low-level `mirror`. symmetrize / integer-dtype (int arrays, all-int DataFrames and connector tables mirrored about non-integer sizes) / coincident-rows / voxel streams. '
        'image cases: VoxelNeuron spec (shape, bright blocks, offset, per-axis voxel size, dtype) + 2–4 exact affine members '
        '(power-of-two scalings / flips, dyadic shifts, axis permutations, one power-of-two shear; every numpy inverse '
        'verified bit-exact at generation) + how the same map is also given (single composed affine, bridging path with '
        'forward / inverse / alias edges) + identity controls + tolerance mode (non-dyadic scalings, dark borders). '
        'dtype cases: (dtype, memory layout, entry point). brain cases: object + chain of registrations (directions, alias, '
        'consistent shortcut, decoys, templates with `_navis_units`) + queries (default / via / avoid / flags). '
        'mirror-via and symm-ext cases: object + template(s) + bridging chain + warp / mode. '
        'non-trivial = at least two coordinate rows (xform) or a non-empty object; distinct = distinct JSON digest')
    ctx.extra['assumptions'] = [
        'coordinates are dyadic (two fractional bits, |v| ≤ 40), matrices dyadic with small numerators: every transformed '
        'coordinate is an exact double, so coordinates are compared with ==',
        'the order of magnitude returned by the real `_guess_change` is recorded by a pass-through wrapper and handed to '
        'the model as its parameter; its random sample is not modelled (numpy RNG seeded per case)',
        'radius / units / soma_radius (multiplied by 10**m in floating point) and normalised tangents are compared with '
        'relative tolerance 2^-30 in exact rational arithmetic',
        'k-less Dotprops have ≥ 2 distinct points (sampling_resolution is undefined otherwise)',
        'VoxelNeuron (image stream): resampling IS modelled (tri-linear, constant 0 outside, pull-back through the reversed '
        'inverses); exact mode compares with ==, tolerance mode with 2^-20 relative in rational arithmetic and dark borders '
        '(scipy treats a source index outside [0, n-1] by any amount as outside)',
        'the bounding box of the transformed image is computed from the 8 corners in the model (navis adds edge mid-points, '
        'which cannot change the min / max under an affine map)',
        'registries are built from exact dyadic registrations; inverse-registered members have exact dyadic inverses',
    ]
    for kind, case in all_cases(ctx):
        c = dict(case, kind=kind)
        ctx.case(c, nontrivial=nontrivial(kind, case), sample_every=97)
        ctx.count('stream', case.get('stream', kind))
        RUNNERS[kind](ctx, c)
    for k, v in ctx.hist.get('note', {}).items():
        ctx.notes.append(f'{k} (seen {v}×)')


def replay(ctx, rp):
    case = rp['case']
    ctx.case(case)
    RUNNERS[case['kind']](ctx, case)


# ---------------------------------------------------------------------------------------------
# shrinking
# ---------------------------------------------------------------------------------------------
class _Probe:
    def __init__(self, ctx):
        self.ctx, self.fails = ctx, []
        self.search_mode = False
        self.hist = {}

    def count(self, *a, **k):
        pass

    def ask(self, line):
        return self.ctx.ask(line)

    def corr(self, *a, **k):
        return True

    def oracle(self, ok, what, case, signature=None, **k):
        if not ok and not (signature and self.ctx.match_known(signature)):
            self.fails.append(what)
        return ok


def _still_fails(ctx, case):
    p = _Probe(ctx)
    try:
        RUNNERS[case['kind']](p, copy.deepcopy(case))
    except Exception:
        return None
    return p.fails[0] if p.fails else None


def _shrink_obj(o):
    """candidate smaller objects"""
    out = []
    t = o['type']
    if t == 'list':
        for i in range(len(o['items'])):
            if len(o['items']) > 1:
                out.append(dict(o, items=o['items'][:i] + o['items'][i + 1:]))
        for i, it in enumerate(o['items']):
            for s in _shrink_obj(it):
                out.append(dict(o, items=o['items'][:i] + [s] + o['items'][i + 1:]))
        return out
    if o.get('conns'):
        for i in range(len(o['conns'])):
            out.append(dict(o, conns=o['conns'][:i] + o['conns'][i + 1:]))
    if t == 'tree':
        rows = o['nodes']
        used = {c[1] for c in (o.get('conns') or [])} | ({o['soma']} if o.get('soma') is not None else set())
        for i in range(len(rows) - 1, -1, -1):
            nid = rows[i][0]
            if nid in used or any(r[1] == nid for r in rows):
                continue
            o2 = dict(o, nodes=rows[:i] + rows[i + 1:])
            if o.get('tags'):
                o2['tags'] = {k: [x for x in v if x != nid] for k, v in o['tags'].items()}
            out.append(o2)
        for key in ('tags', 'soma', 'soma_radius', 'extra_col'):
            if o.get(key):
                out.append({k: v for k, v in o.items() if k != key})
    elif t == 'mesh' or t in ('volume', 'trimesh'):
        for i in range(len(o['faces'])):
            if len(o['faces']) > 1:
                out.append(dict(o, faces=o['faces'][:i] + o['faces'][i + 1:]))
    elif t == 'dots':
        n = len(o['points'])
        for i in range(n):
            if n > max(2, o.get('k') or 0):
                o2 = dict(o, points=o['points'][:i] + o['points'][i + 1:])
                if o.get('vect'):
                    o2['vect'] = o['vect'][:i] + o['vect'][i + 1:]
                if o.get('alpha'):
                    o2['alpha'] = o['alpha'][:i] + o['alpha'][i + 1:]
                out.append(o2)
    elif t == 'voxel':
        for i in range(len(o.get('blocks', []))):
            if len(o['blocks']) > 1:
                out.append(dict(o, blocks=o['blocks'][:i] + o['blocks'][i + 1:]))
    elif t in ('df', 'array'):
        for i in range(len(o['rows'])):
            if len(o['rows']) > 1:
                o2 = dict(o, rows=o['rows'][:i] + o['rows'][i + 1:])
                if o.get('index'):
                    o2['index'] = o['index'][:i] + o['index'][i + 1:]
                out.append(o2)
    return out


def shrink(ctx, failure):
    case = copy.deepcopy(failure['case'])
    case.pop('_steps', None)
    if case.get('kind') not in RUNNERS or _still_fails(ctx, case) is None:
        return None
    changed, rounds = True, 0
    while changed and rounds < 60:
        changed, rounds = False, rounds + 1
        cands = []
        if 'obj' in case:
            cands += [dict(case, obj=o) for o in _shrink_obj(case['obj'])]
        if case.get('tr') and len(case['tr']) > 1:
            cands += [dict(case, tr=case['tr'][:i] + case['tr'][i + 1:]) for i in range(len(case['tr']))]
        for c in cands:
            if _still_fails(ctx, c) is not None:
                case, changed = copy.deepcopy(c), True
                break
    what = _still_fails(ctx, case)
    if what is None:
        return None
    case.pop('_steps', None)
    return dict(failure, case=case, what=what)
