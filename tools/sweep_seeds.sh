#!/bin/bash
# tools/sweep_seeds.sh <tier> <par> <seed>... : run every property's check on the clean tree with several seeds; print non-zero exits.
ROOT=$(readlink -f "$(dirname "$0")/.."); cd "$ROOT"
tier=$1; par=$2; shift 2
out=${SWEEP_OUT:-/tmp/sweep_$$}; mkdir -p $out
PROPS=${PROPS:-"C01 C02 C03 C04 C05 C06 C07 C08 C09 C10 C11 C12 C13 C14 C15 C16 C17 C18 C19 C20"}
for s in "$@"; do for i in $PROPS; do echo "$s $i"; done; done | \
  xargs -P $par -L 1 sh -c 'VERIF_SEED=$0 ./check $1 --tier '$tier' > '$out'/$1.s$0.log 2>&1; echo "$1 seed=$0 exit=$?"' | tee $out/summary.txt
grep -v "exit=0" $out/summary.txt && grep -h "^VIOLATION\|infrastructure" $out/*.log
echo "sweep done: $(grep -c 'exit=0' $out/summary.txt) ok of $(wc -l < $out/summary.txt)"
