#!/usr/bin/env python3
"""Run the repository's baseline suite (guard OFF) and compare with /root/.vp/BASELINE.json stable_pass."""
import json, subprocess, sys, tempfile, os, xml.etree.ElementTree as ET
b = json.load(open('/root/.vp/BASELINE.json'))
out = tempfile.mktemp(suffix='.xml', dir='/var/tmp')
env = dict(os.environ); env.pop('NAVIS_VERIF', None)
cmd = b['cmd'].replace('<file>', out)
p = subprocess.run(cmd, shell=True, stdout=subprocess.PIPE, stderr=subprocess.STDOUT, text=True, env=env)
passed = set()
for tc in ET.parse(out).getroot().iter('testcase'):
    bad = any(ch.tag in ('failure', 'error', 'skipped') for ch in tc)
    name = f"{tc.get('classname')}::{tc.get('name')}"
    if not bad:
        passed.add(name)
os.remove(out)
want = set(b['stable_pass'])
missing = sorted(want - passed)
print(f'passed {len(passed)}; stable_pass {len(want)}; missing {len(missing)}')
for m in missing:
    print('  MISSING', m)
newly = sorted(passed - want)
if newly:
    print('newly passing:', newly)
sys.exit(1 if missing else 0)
