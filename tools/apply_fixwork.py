#!/usr/bin/env python3
"""tools/apply_fixwork.py Cxx : apply a fix bundle prepared under /tmp/fixwork_Cxx/out (see tools/FIX_BRIEF.md):
repo_<n>.diff/.msg → one `fix:` commit each in /repo; verif.diff → /verif working tree; PENDING_<n> → commit hashes."""
import re, subprocess, sys
from pathlib import Path

prop = sys.argv[1].upper()
W = Path(f'/tmp/fixwork_{prop}')
out = W / 'out'


def sh(*cmd, cwd=None, check=True):
    p = subprocess.run(cmd, cwd=cwd, stdout=subprocess.PIPE, stderr=subprocess.STDOUT, text=True)
    if check and p.returncode:
        print(p.stdout)
        raise SystemExit(f'FAILED: {" ".join(cmd)}')
    return p.stdout.strip()


diffs = sorted(out.glob('repo_*.diff'), key=lambda p: int(re.search(r'repo_(\d+)', p.name).group(1)))
hashes = {}
for d in diffs:
    n = re.search(r'repo_(\d+)', d.name).group(1)
    msg = (out / f'repo_{n}.msg').read_text().strip().splitlines()[0]
    assert msg.startswith('fix:'), msg
    if not d.read_text().strip():
        print('empty diff', d); continue
    sh('git', '-C', '/repo', 'apply', '--check', str(d))
    sh('git', '-C', '/repo', 'apply', str(d))
    sh('git', '-C', '/repo', 'commit', '-qam', msg)
    h = sh('git', '-C', '/repo', 'log', '--format=%h', '-1')
    hashes[n] = h
    print(f'repo_{n}: {h} {msg}')
vd = out / 'verif.diff'
if vd.exists() and vd.read_text().strip():
    chk = subprocess.run(['git', '-C', '/verif', 'apply', '--check', str(vd)], stdout=subprocess.PIPE, stderr=subprocess.STDOUT, text=True)
    if chk.returncode:
        print('verif.diff does not apply cleanly:\n', chk.stdout[:2000])
        # try with 3-way / excluding evidence
        r = subprocess.run(['git', '-C', '/verif', 'apply', '--3way', '--exclude=evidence/*', '--exclude=DESIGN.md', '--exclude=tools/*', str(vd)],
                           stdout=subprocess.PIPE, stderr=subprocess.STDOUT, text=True)
        print(r.stdout[-1500:])
        if r.returncode:
            raise SystemExit('verif.diff failed')
    else:
        sh('git', '-C', '/verif', 'apply', '--exclude=evidence/*', '--exclude=DESIGN.md', '--exclude=tools/*', str(vd))
    print('verif.diff applied')
kf = Path(f'/verif/known_findings/{prop}.json')
if kf.exists():
    s = kf.read_text()
    for n, h in hashes.items():
        s = s.replace(f'PENDING_{n}', h)
    kf.write_text(s)
    left = re.findall(r'PENDING_\d+', s)
    if left:
        print('WARNING unresolved', set(left))
print('done; now: cd /verif/lean && lake build NavisModel navisdrv; ./check', prop)
