#!/usr/bin/env python3
"""Run every seeded change under /verif/seeded against its property's check (and optional extra checks)
in a scratch worktree; write seeded/RESULTS.json and update each meta.json with what was run.

usage: tools/seed_matrix.py [ID ...]     (default: all directories under seeded/)
Extra checks per seed can be listed in seeded/<id>/also.txt (one property id per line)."""
import json, os, re, subprocess, sys, time
from pathlib import Path

ROOT = Path(__file__).resolve().parent.parent
SEEDED = ROOT / 'seeded'


def run_one(d: Path, prop: str):
    p = subprocess.run([str(ROOT / 'tools' / 'try_seed.sh'), str(d), prop], stdout=subprocess.PIPE, stderr=subprocess.STDOUT, text=True)
    out = p.stdout
    m = re.search(r'demo_mut=(\d+) demo_clean=(\d+) check_\w+=(\d+)\s*(VIOLATION.*)?', out)
    what = re.search(r'what: (.*)', out)
    if not m:
        return dict(error=out[-400:])
    return dict(demo_with_change=int(m.group(1)), demo_without=int(m.group(2)), check_exit=int(m.group(3)),
                violation_line=(m.group(4) or '').strip(), what=(what.group(1)[:300] if what else ''))


def main():
    ids = sys.argv[1:] or sorted(p.name for p in SEEDED.iterdir() if p.is_dir())
    res_file = SEEDED / 'RESULTS.json'
    results = json.loads(res_file.read_text()) if res_file.exists() else {}
    for sid in ids:
        d = SEEDED / sid
        prop = sid.split('_')[0]
        props = [prop]
        also = d / 'also.txt'
        if also.exists():
            props += [l.strip() for l in also.read_text().splitlines() if l.strip()]
        entry = {}
        for pr in props:
            t0 = time.time()
            r = run_one(d, pr)
            r['seconds'] = round(time.time() - t0, 1)
            entry[pr] = r
            print(sid, pr, r.get('check_exit'), r.get('violation_line', '')[:90], flush=True)
        results[sid] = entry
        meta_f = d / 'meta.json'
        meta = json.loads(meta_f.read_text()) if meta_f.exists() else {'property': prop}
        head = subprocess.run(['git', '-C', '/repo', 'log', '--format=%h', '-1'], stdout=subprocess.PIPE, text=True).stdout.strip()
        meta['coordinator_verification'] = {
            'repo_head': head,
            'ran': f'tools/try_seed.sh seeded/{sid} <prop>: scratch worktree of /repo HEAD + patch; demo with/without the change; '
                   f'./check <prop> --tier quick with NAVIS_REPO=<worktree>',
            'demo_fails_with_change': entry[prop].get('demo_with_change') not in (0, None),
            'demo_passes_without': entry[prop].get('demo_without') == 0,
            'caught_by': [pr for pr, r in entry.items() if r.get('check_exit') == 1],
            'details': entry,
        }
        meta_f.write_text(json.dumps(meta, indent=1))
        res_file.write_text(json.dumps(results, indent=1))


if __name__ == '__main__':
    main()
