#!/venv/bin/python
"""Regenerate every lean/NavisModel/Gen/*.lean from the current /repo (or NAVIS_REPO) tree."""
import os, sys
from pathlib import Path
sys.path.insert(0, str(Path(__file__).resolve().parent.parent))
from translator import gen as T
info = T.regenerate(Path(os.environ.get('NAVIS_REPO', '/repo')), Path(__file__).resolve().parent.parent / 'lean' / 'NavisModel' / 'Gen')
print('regenerated:', ', '.join(f"{k}{'*' if v.get('changed') else ''}" for k, v in info['files'].items()))
