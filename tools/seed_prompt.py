#!/usr/bin/env python3
"""tools/seed_prompt.py <PROP> <wave> [hint]: print the self-contained prompt for a red-team seeding sub-agent."""
import json, sys
from pathlib import Path
root = Path(__file__).resolve().parent.parent
pid, wave = sys.argv[1], sys.argv[2]
hint = sys.argv[3] if len(sys.argv) > 3 else ''
prop = [json.loads(l) for l in open(root / 'properties.jsonl') if json.loads(l)['id'] == pid][0]
brief = (root / 'tools' / 'SEED_BRIEF.md').read_text()
wt = f'/tmp/seedwt_{pid}_{wave}'
print(brief)
print(f"\n\n## Your assignment\n\nScratch worktree (create it): `{wt}`  (git -C /repo worktree add --detach {wt} HEAD)\n"
      f"Output directories: `/tmp/seed_out_{pid}_{wave}_1/` and `/tmp/seed_out_{pid}_{wave}_2/`\n\nProperty {pid}:\n\n```json\n{json.dumps(prop, indent=1)}\n```\n")
if hint:
    print(f"\nAdditional steer: {hint}\n")
