#!/usr/bin/env python3
"""Rewrite the generated tables of DESIGN.md (§14 findings, §15 seeded changes) from known_findings*.json
and seeded/*/meta.json."""
import json, re
from pathlib import Path

ROOT = Path(__file__).resolve().parent.parent


def findings_table():
    rows = []
    files = [ROOT / 'known_findings.json'] + sorted((ROOT / 'known_findings').glob('*.json'))
    for f in files:
        for k in json.loads(f.read_text()).get('findings', []):
            rows.append(k)
    rows.sort(key=lambda k: (k['property'], k.get('status') != 'fixed', k['signature']))
    out = ['| Prop | Status | Signature | What fails |', '|---|---|---|---|']
    for k in rows:
        st = f"fixed `{k.get('commit', '?')}`" if k.get('status') == 'fixed' else 'open'
        what = re.sub(r'\s+', ' ', k.get('what', '')).replace('|', '\\|')
        if len(what) > 260:
            what = what[:257] + '…'
        out.append(f"| {k['property']} | {st} | `{k['signature'][:90]}` | {what} |")
    n_fixed = sum(1 for k in rows if k.get('status') == 'fixed')
    head = f'{len(rows)} recorded defects: {n_fixed} repaired by `fix:` commits, {len(rows) - n_fixed} open (printed as `KNOWN-FINDING`).\n\n'
    return head + '\n'.join(out)


def seeds_table():
    out = ['| Seed | Breaks | What the change does / what it needs | Demo fails with / passes without | Caught by (quick tier) |', '|---|---|---|---|---|']
    for d in sorted((ROOT / 'seeded').iterdir()):
        if not d.is_dir():
            continue
        mf = d / 'meta.json'
        if not mf.exists():
            continue
        m = json.loads(mf.read_text())
        cv = m.get('coordinator_verification', {})
        summ = re.sub(r'\s+', ' ', m.get('summary', '')).replace('|', '\\|')[:230]
        needs = re.sub(r'\s+', ' ', m.get('needs', '')).replace('|', '\\|')[:200]
        caught = ', '.join(cv.get('caught_by', [])) or '**missed**'
        demo = f"{'yes' if cv.get('demo_fails_with_change') else 'NO'} / {'yes' if cv.get('demo_passes_without') else 'NO'}"
        out.append(f"| {d.name} | {m.get('property', d.name.split('_')[0])} | {summ} — *needs:* {needs} | {demo} | {caught} |")
    return '\n'.join(out)


def status_table():
    import importlib, sys, pkgutil
    sys.path.insert(0, str(ROOT))
    trans = {}
    import translator
    for m in pkgutil.iter_modules(translator.__path__):
        if m.name.startswith('gen_'):
            try:
                mod = importlib.import_module(f'translator.{m.name}')
                for pr in getattr(mod, 'PROPS', []):
                    trans.setdefault(pr, []).append(m.name)
            except Exception:
                pass
    fs = []
    files = [ROOT / 'known_findings.json'] + sorted((ROOT / 'known_findings').glob('*.json'))
    for f in files:
        fs += json.loads(f.read_text()).get('findings', [])
    seeds = {}
    for d in sorted((ROOT / 'seeded').iterdir()):
        mf = d / 'meta.json'
        if d.is_dir() and mf.exists():
            m = json.loads(mf.read_text())
            pr = m.get('property', d.name.split('_')[0])
            cv = m.get('coordinator_verification', {})
            tot, hit = seeds.get(pr, (0, 0))
            seeds[pr] = (tot + 1, hit + (1 if pr in cv.get('caught_by', []) else 0))
    out = ['| Prop | theorems in Props/Cxx.lean | translator modules | defects fixed / open | seeded changes caught by own check / total |', '|---|---|---|---|---|']
    for i in range(1, 21):
        pr = f'C{i:02d}'
        src = (ROOT / 'lean' / 'NavisModel' / 'Props' / f'{pr}.lean').read_text()
        src = re.sub(r'/-.*?-/', '', src, flags=re.S)
        n = len(re.findall(r'^\s*theorem\s', src, flags=re.M))
        fx = sum(1 for k in fs if k['property'] == pr and k.get('status') == 'fixed')
        op = sum(1 for k in fs if k['property'] == pr and k.get('status') != 'fixed')
        tot, hit = seeds.get(pr, (0, 0))
        out.append(f"| {pr} | {n} | {', '.join(sorted(trans.get(pr, []))) or '—'} | {fx} / {op} | {hit} / {tot} |")
    return '\n'.join(out)


def main():
    p = ROOT / 'DESIGN.md'
    s = p.read_text()
    for tag, body in (('FINDINGS', findings_table()), ('SEEDS', seeds_table()), ('STATUS', status_table())):
        b, e = f'<!-- BEGIN:{tag} -->', f'<!-- END:{tag} -->'
        if b in s:
            s = s[:s.index(b) + len(b)] + '\n' + body + '\n' + s[s.index(e):]
    p.write_text(s)


if __name__ == '__main__':
    main()
