#!/bin/bash
# tools/try_seed.sh <seed_dir> <PROP> [tier] : verify a seeded change in a scratch worktree and run the check against it.
# Prints a one-line summary:  SEED <dir> demo_mut=<rc> demo_clean=<rc> check=<rc> <VIOLATION line>
set -u
dir=$(readlink -f "$1"); prop=$2; tier=${3:-quick}
ROOT=$(readlink -f "$(dirname "$0")/..")
wt=/tmp/wt_seedtest_$$
git -C /repo worktree add -q --detach "$wt" HEAD >/dev/null 2>&1 || { echo "SEED $dir worktree-failed"; exit 2; }
cleanup() { git -C /repo worktree remove --force "$wt" >/dev/null 2>&1; }
trap cleanup EXIT
if ! git -C "$wt" apply "$dir/patch.diff" 2>/tmp/apply_err_$$; then
  echo "SEED $dir patch-does-not-apply: $(head -2 /tmp/apply_err_$$)"; rm -f /tmp/apply_err_$$; exit 2
fi
rm -f /tmp/apply_err_$$
NAVIS_REPO=$wt timeout 600 /venv/bin/python "$dir/demo.py" >/tmp/seed_demo_mut_$$.log 2>&1; dm=$?
NAVIS_REPO=/repo timeout 600 /venv/bin/python "$dir/demo.py" >/tmp/seed_demo_clean_$$.log 2>&1; dc=$?
cd "$ROOT"
NAVIS_REPO=$wt VERIF_SEED=${VERIF_SEED:-0} timeout 3000 ./check "$prop" --tier "$tier" >/tmp/seed_check_$$.log 2>&1; rc=$?
viol=$(grep -m1 '^VIOLATION' /tmp/seed_check_$$.log)
echo "SEED $dir demo_mut=$dm demo_clean=$dc check_$prop=$rc $viol"
if [ -n "$viol" ]; then
  rp=$(echo "$viol" | sed -n 's/.*replay=\([^ ]*\).*/\1/p')
  [ -f "$ROOT/$rp" ] && python3 -c "
import json,sys; d=json.load(open('$ROOT/$rp')); print('   what:', str(d.get('what'))[:300])"
fi
rm -f /tmp/seed_demo_mut_$$.log /tmp/seed_demo_clean_$$.log
mv /tmp/seed_check_$$.log /tmp/seed_check_last_$prop.log
# restore the generated Lean files from the clean tree
cd "$ROOT" && /venv/bin/python -c "
import sys; sys.path.insert(0,'$ROOT')
from pathlib import Path
from translator import gen as T
T.regenerate(Path('/repo'), Path('$ROOT/lean/NavisModel/Gen'))" >/dev/null 2>&1
# the driver binary embeds generated facts: rebuild it from the restored Gen files
(cd "$ROOT/lean" && lake build navisdrv >/dev/null 2>&1)
