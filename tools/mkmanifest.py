#!/usr/bin/env python3
"""Regenerate MANIFEST.json from the per-property claims below (single source of truth)."""
import json
from pathlib import Path

ROOT = Path(__file__).resolve().parent.parent
BASE = "cd /repo && /venv/bin/python -m pytest -ra -q -p no:cacheprovider --timeout=900 --continue-on-collection-errors"

COMMON_NOTE = ("Trusted base: Lean 4.33 kernel; axioms ⊆ {propext, Classical.choice, Quot.sound} audited per theorem on every run "
               "(no sorry / native_decide / bv_decide / own axioms); the translator and the correspondence harness incl. the driver's "
               "parser/printer; numpy/pandas/scipy/networkx/igraph/fastcore primitives are modelled, not verified; IEEE rounding avoided "
               "by exact-float inputs or bounded by a tolerance. ")

CLAIMS = {
    'C13': dict(
        text="Theorems (Props/C13.lean, 28, none partial) for line-by-line models of _downsample_treeneuron and resample_skeleton. Downsampling, "
             "for every well-formed correctly labelled forest, every factor incl. inf and every preserved / soma set: kept rows are original "
             "rows; all fix points are kept; every kept node hangs below its nearest kept proper ancestor with at most `factor` dropped nodes "
             "in between; every kept node keeps its exact number of children (roots / tips / forks unchanged); the result is a well-formed "
             "labelled forest; the run-time checker dsCheck is sound. Resampling, for every well-formed forest and every per-segment count: "
             "anchors keep id and coordinates; each small segment becomes a chain of fresh unique ids above max id; node-count formula; "
             "well-formedness; every sample is a convex combination of two consecutive original nodes with the same τ for x, y, z and radius; "
             "each new edge ≤ the arc it replaces; Σ√ ≤ cable length per segment and for the whole skeleton (real-valued); roundHalfEven is "
             "numpy round; the remap is an argmin of squared distance. Tie: navis' downsample output is diffed exactly against the model and "
             "judged by dsCheck; resample output is compared per segment (counts; positions against exact rational arc-length "
             "interpolation, 1e-9) and judged by anchor / fresh-id / on-cable / cable-length / nearest-node oracles.",
        note="Geometry theorems are over Rat and assume arc-length steps ≥ true edge lengths (exact on integer-length inputs); nearest-ancestor, gap and "
             "branching theorems assume correct labels (navis uses its current `type` column) — discharged along every history of catalogue operations by downsample_spec_after_history (C01's label invariant); non-linear method= kinds, cKDTree and np.interp "
             "are trusted / oracle-only; the round-vs-other-rounding node count is a correspondence clause.",
        technique="Lean 4 proof (nearest-kept-ancestor + gap + branching preservation; on-cable + chord ≤ arc) + exact correspondence",
        ref="§5 C13"),
    'C11': dict(
        text="Theorems (Props/C11.lean, 20, none partial), for every well-formed forest, method, max_dist, min_size and mask: healing keeps "
             "ids and coordinates, keeps every edge, adds exactly one edge per merged fragment pair, gives a single tree when unlimited, every "
             "bridging edge joins allowed nodes and is strictly shorter than max_dist; the result is a well-formed forest and the bridging "
             "edges are a spanning forest of the fragment quotient graph; MINIMAL TOTAL LENGTH (Kruskal optimality via the matroid rank "
             "lemma, for every monotone weight and against arbitrary allowed connections); rewire yields a well-formed forest for any edge "
             "list and realises acyclic lists exactly; fragments partition the nodes (same fragment ⇔ same root ⇔ connected) and breaking "
             "loses no edge; the stitch remap gives unique ids, preserves each input under one injective map, remaps parents, connectors and "
             "tags consistently, and the combined table is well-formed. Tie: exact correspondence of heal_skeleton / break_fragments / "
             "drop_fluff / stitch_skeletons / combine_neurons (default, igraph, networkx) with the model on tie-free lattice inputs; the Lean "
             "checker healOKB on navis' own output; minimality also tested by exhaustive spanning-forest enumeration (≤ 6 fragments).",
        note="Squared integer distances stand in for Euclidean lengths; inputs with equal cross-fragment distances are rejected (kd-tree tie-breaking "
             "not modelled); parent direction of non-main remaining trees after partial healing is arbitrary in navis (undirected edges compared); "
             "pykdtree / networkx / pandas primitives trusted.",
        technique="Lean 4 proof (Kruskal optimality, spanning-forest invariants, id-remap injectivity) + exact correspondence",
        ref="§5 C11"),
    'C17': dict(
        text="Theorems (Props/C17.lean, 25): the Strahler recurrence holds at every node, roots included, for both methods (fuel independence of "
             "the structural recursion on well-formed forests), has a unique solution (checker soundness), index ≥ 1, parent ≥ child, ignored "
             "twigs take the index of the first branch point or root above them; synapse flow centrality (total−distal)·distal with per-tree "
             "totals EQUALS the number of post→pre pairs whose explicit tree path runs through the node on its descending (centrifugal) or "
             "ascending (centripetal) leg, `sum` adds both, forks take the largest child's value (full, not partial); leaf-flow formula and "
             "bending-flow sum counted as pairs (partial: as written); chord² ≤ arc² for every small segment with equality on straight integer "
             "chains; the segregation index equals 0 / 1 in the forced cases and lies in [0,1] for every nonnegative concave entropy function. "
             "Tie: per-node equality of strahler_index, synapse_flow_centrality, flow_centrality, bending_flow with the model on random and "
             "exhaustive forests under fastcore, igraph and networkx; Lean checkers strahlerOKB / sfcOKB on navis' own columns; segregation, "
             "tortuosity and segment_analysis oracles.",
        note="The logarithmic entropy is not formalised ([0,1] bound is a theorem for abstract concave H only); Euclidean edge lengths validated on "
             "integer-length edges; flow_centrality and bending_flow are modelled as written; navis-fastcore is a third implementation.",
        technique="Lean 4 proof (Strahler fuel independence + uniqueness, flow = path count) + per-node differential correspondence",
        ref="§5 C17"),
    'C18': dict(
        text="Theorems (Props/C18.lean, 37): exact point membership for solids given as CSG programs over integer boxes (union, difference, "
             "nested / disjoint shells, voxel sets) and for convex polytopes with integer face planes, invariant under every integer pose, "
             "half-integer query points never on a surface; for EVERY inside test and every skeleton with unique node ids, in_volume IN and OUT "
             "partition the nodes and (connectors on existing nodes) the connectors, each part carrying exactly its own connectors; same for "
             "Dotprops unconditionally and for meshes without straddling faces (partial; counter-example proved); a dict / list of volumes "
             "returns under each name, in any order, exactly the single-volume answer; intersection_matrix cells follow; snap returns a true "
             "argmin of the squared distance with that distance, the id not the row, uniquely so for a unique nearest neighbour; run-time "
             "checkers sound. Tie: navis in_volume (ncollpyde, every n_rays; scipy hull on convex volumes) against the exact model on generated "
             "watertight meshes (box complexes incl. concave / nested, polytopes; integer poses); IN/OUT pruning of TreeNeuron / Dotprops / "
             "MeshNeuron; dict/list of volumes; intersection_matrix; all snap variants.",
        note="The ray caster (ncollpyde) is external: its agreement with exact membership is TESTED, not proved; pyoctree is not installed; snap "
             "compared on unique nearest neighbours only; mesh generation and trimesh watertightness checks are trusted harness code.",
        technique="Lean 4 proof (IN/OUT partition for any inside test, CSG membership, argmin) + exact correspondence on watertight meshes",
        ref="§5 C18"),
    'C03': dict(
        text="Theorems (Props/C03.lean, 25, none partial) over a heap model with object identity, shallow per-attribute copy, the networkx view "
             "alias, the stale-copy branch, @lock_neuron and the map_neuronlist list swap: for every store, receiver and body respecting "
             "writesOwn, copy-then-operate without inplace changes no pre-existing cell; later edits of the result cannot reach the input; "
             "inplace=True returns the same object in the same abstract state as the non-inplace result; list mapping keeps list and member "
             "identity in place and builds a fresh list otherwise; `nl | n` provably mutates the receiver. The premise 'copy guard before "
             "first write' is re-extracted from the source (path-sensitive AST interpreter) for all 76 functions with an inplace/copy "
             "parameter and proved by decide over the GENERATED table (all_guarded, lifted by okTrace_frame; necessity by "
             "write_before_guard_violates). Tie: primitives of pandas 3 / numpy / networkx / igraph behind the real copy() and map_neuronlist "
             "against the model; a before / after / mutate-result / inplace sweep over 141 public callables found by introspection, "
             "arithmetic operators and list operators.",
        note="Lean proves the pattern, not each function body: the per-function guarantee is the syntactic premise plus the sweep on sampled "
             "inputs. Delegations are covered by the callee's row. Tags and user attributes are outside the heap model (swept only). 54 callables "
             "are skipped with reasons listed in the evidence (GUI, template brains, missing optional deps, mutators by contract).",
        technique="Lean 4 proof (heap frame / separation after copy) + AST translator with a decide-checked table + catalogue sweep",
        ref="§5 C03"),
    'C07': dict(
        text="Theorems (Props/C07.lean, 22, none partial), for all well-formed node tables, all label / connector / metadata options and every row "
             "order the writer may choose: swcValidB decides the SWC validity spec (ids 1..N, roots -1, every parent earlier and lower); the "
             "depth-sorted ordering always yields a valid parent-first table; make_swc_table AS WRITTEN, for any tie-break of "
             "sort_values('parent_id'), yields a valid table iff every node with a child has parent_id < node_id (rerooted 5-chain "
             "counter-example); the node map is a bijection onto 1..N; readBack(write t) reproduces parents, coordinates, radius, labels, "
             "soma, exported synapse labels and header properties under the node map. Obligations over constants regenerated from swc_io.py "
             "(label codes, column order, first id, missing parent, radius source, meta keys). Tie: the BYTES of files written by the real "
             "write_swc are lexed and parsed by the Lean parser and compared with the model table; read_swc vs readBack; independent "
             "round-trip oracles; 12 source kinds and fmt patterns; hand-made SWC text and NaN rows.",
        note="The character/JSON lexers and matchFmt are trusted, not proved; pandas / csv / zipfile / tarfile modelled at token level; floats "
             "cross as shortest decimal repr read as exact rationals.",
        technique="Lean 4 proof (SWC validity characterisation, round trip under the node map) + byte-level correspondence",
        ref="§5 C07"),
    'C14': dict(
        text="Theorems (Props/C14.lean, 26, unbounded): little-endian word round trips for every width and value; for all vertex / edge / "
             "attribute lists the independent decoder and the model of navis' reader return exactly what encodeSkel / encodeMesh wrote, at "
             "table level parents come back relabelled by row; the decoder is a partial inverse of the encoder and rejects every byte string "
             "whose length differs from what its header announces (hence every truncation); navis' reader agrees with it wherever it accepts; "
             "batch reads equal filterMap read in order for log/ignore (a corrupt file removes only itself) and raise iff some file fails for "
             "raise; zip and chunked parallel reads agree with the plain loop; NRRD voxel units round-trip per axis; regenerated source facts "
             "(dtypes, field order, header format, edge column swap, handle_errors table, info literals, NRRD header keys) equal the model's "
             "layout and decision table. Tie: navis' bytes = Lean encoder bytes; the Lean decoder reads navis' files; the Lean encoder's "
             "multi-attribute files are read by navis; every truncation offset vs the Lean reader model; batches × containers × policies × "
             "corrupted subsets vs the Lean policy model; NRRD / HDF5 / JSON / mesh files by navis round trip plus pynrrd / h5py / json / trimesh.",
        note="float32 values are opaque 32-bit patterns; gzip, HDF5, zip, pynrrd, h5py, trimesh are external (table level tested only); "
             "'navis' reader rejects every truncation' is false for the code (only _partial proved, counter-example given), likewise Dotprops "
             "NRRD units.",
        technique="Lean 4 proof (codec inverses, length pinning, policy isolation) + translator + two-way byte-level correspondence",
        ref="§5 C14"),
    'C02': dict(
        text="The cache protocol of TreeNeuron is modelled as a state machine over the events navis actually executes (checksum stamp, sticky "
             "stale flag, lock, per-entry content tags, `type` column, clear with the literal exclude rule, the temp_property wrapper, copy, "
             "pickling). Theorems (Props/C02.lean, 19, none partial), for every history of any length: if the stamp is current every cached "
             "entry is current; a wrapped read on an unlocked neuron never returns a value computed before a change — for every call site of a "
             "table REGENERATED from the source on each run (TEMP_ATTR, CORE_DATA, wrapped views, 50 exclude literals, shapes of is_stale / "
             "_clear_temp_attr / wrapper / copy / __getstate__); views depend only on hashed columns (except simple/radius); removing an "
             "explicit clear keeps the theorem true (the checksum catches it); edit/undo without the freshness assumption for lock-free "
             "histories; negations with concrete witnesses (simple without the wrapper, ABA after a locked co-edit, permanently stale type "
             "column). Tie: per-primitive trace refinement of the real object against the model on random histories (31 operations, direct "
             "edits, table replacement, copy, pickle, 4 back-end configurations); property oracle: every derived view equals that of a "
             "freshly constructed neuron.",
        note="The content hash is assumed injective; history_fresh assumes changes yield content not seen before (ABA after a locked co-edit is "
             "a recorded finding); reads inside locked operations are covered by C10/C01 correspondence; viewDeps is hand-written and "
             "validated by the oracle only.",
        technique="Lean 4 proof (invariant + list induction over an event model) over an ast-generated spec + trace refinement",
        ref="§5 C02"),
    'C06': dict(
        text="Theorems (Props/C06.lean, 38): over an executable Rat model of Digitizer, Lookup2d, dist_dots, NBlaster and nblast/nblast_allbyall "
             "(square roots kept as radicands, compared by squares): digitize returns the unique bin whose half-open interval contains the value "
             "with clipping into the outer bins, equivalent to the declared interval labels; NBLAST as implemented (index bookkeeping, self "
             "hits, reverse query, assembly) equals the index-free definition entry for entry with labels in input order; mean/min/max/both "
             "are the stated combinations; self score is exactly 1 (computed path and short-cut); all-by-all = query-vs-self; normalised ≤ 1 "
             "for every entry and mode with the default table without alpha — decided (`decide +kernel`) over the GENERATED tables and lifted; "
             "with alpha a partial bound plus two kernel-checked counter-examples. Translator ties regenerated every run: both CSVs, the "
             "`side=` expression, the `- 1` offset, the default clip, ALLOWED_SCORES. Tie: exact correspondence on bins and matches (values on "
             "boundaries, both closednesses, limit_dist, float32), full score matrices compared in Rat to 2^-40, oracle clauses on real navis.",
        note="normalised ≤ 1 is FALSE with use_alpha=True for the published table (two open findings — a property of the definition itself, not "
             "repairable without changing the algorithm). kd-tree nearest neighbour and its strict bound are external (ties excluded by the "
             "generator); IEEE sums carry the 2^-40 tolerance; smat None/'v1'/callables are tests only.",
        technique="Lean 4 proof (decide +kernel over generated score tables, lifted) + translator + exact differential correspondence",
        ref="§5 C06"),
    'C15': dict(
        text="Theorems (Props/C15.lean, 34, over Rat, every to_compact prefix universally quantified): physical invariance of coordinates, "
             "connectors and radii under * and / (scalar, 3- and 4-vectors) for skeletons, meshes and dotprops, hence of every derived "
             "quantity; x*k/k = x and x+o-o = x for all four neuron types; connectors transformed like nodes; radius scaled only by * and /; "
             "convert_units yields exactly one target unit with physical sizes preserved; map_units returns length/unit within the "
             "round_smart bound, exactly when no rounding occurs, independent of how the unit is spelled; unit spellings normalise "
             "equivalently; metadata_preserved (full): every non-scaling operation class incl. re-wrapping and re-initialisation after a cut keeps (units, name, id); explicit units= overrides; bare tables are 1 dimensionless. Tie: correspondence for the units setter "
             "(85 spellings, pint as parsing oracle), arithmetic and in-place forms, convert_units, map_units, string-valued distance "
             "arguments of six functions, and a 47-operation metadata sweep over all four neuron types; Lean checker samePhysB on navis' output.",
        note="pint parsing and the to_compact prefix are external inputs to the model (the prefix is read from navis' output; theorems hold for "
             "every prefix). Dyadic data compared exactly, everything else within 2^-40 relative. VoxelNeuron arithmetic scales the units "
             "themselves: physical invariance and convert_units fail for voxels (open findings); convert_units raises for per-axis skeleton units "
             "(open). The units-lost-on-re-init defect was repaired by a fix: commit.",
        technique="Lean 4 proof over a Rat units model + differential correspondence + metadata sweep",
        ref="§5 C15"),
    'C16': dict(
        text="Theorems (Props/C16.lean, 28, unbounded, none partial): for every row function, detected magnitude and neuron kind / connector "
             "state, xform's stack → transform once → slice-by-counts returns exactly 'coordinates of nodes/vertices/points and connectors "
             "mapped by the transform, every other column, faces, links and meta data unchanged' (helper points of k-less dotprops included); "
             "sequences compose in order; the flip is x ↦ lo+hi−x — the reflection about the template midplane — and an involution on points, "
             "skeletons and meshes; face re-winding is an involution, reverses every normal and with a reflection preserves signed volume; the "
             "helper-point tangent is the normalised difference (squared-norm form); radius / units / soma radius follow 10^m with the physical "
             "radius invariant; symmetrize's masked assignment = conditional map; the run-time checkers are sound. Tie: exact-arithmetic "
             "correspondence (dyadic affine, sequences, a non-affine map, 10^k scalings) over all neuron types, lists, DataFrames, arrays, "
             "Volume, Trimesh; mirror_brain / mirror / symmetrize_brain over all axes, bounding-box layouts and warp modes; input untouched.",
        note="_guess_change's random sample is not modelled: its result is recorded and passed to the model as a parameter; sqrt normalisation, "
             "×10**m and pint to_compact compared at relative 2^-30; KD-tree / SVD tangent regeneration external (unit norm checked); voxel "
             "resampling oracle-only.",
        technique="Lean 4 proof (stack/slice exactness, mirror involution, rewinding) + exact differential correspondence",
        ref="§5 C16"),
    'C04': dict(
        text="One model, three back-ends: every case of the C05 (distances, segments), C10 (reroot, cut, subset), C12 (pruning) — and C17/C11/C13 "
             "when built — correspondence streams is executed with navis switched in-process to fastcore, igraph-only and networkx-only, each "
             "against the same Lean model output (equal up to order among exact ties), and 12 observables per forest are compared pairwise "
             "across back-ends directly. Theorems (Props/C04.lean, unbounded): the igraph graph builder (row positions + node_id attribute) "
             "encodes exactly the edges of the networkx builder for every well-formed table (any labelling / row order); degree-based and "
             "parent-column-based classification agree on every node; with correct labels both `_break_segments` variants use the same "
             "seeds and stops; the two constructions of cut's distal set — reverse BFS (networkx) and 'delete the edge to the parent, take the "
             "component' (igraph) — coincide for every well-formed forest and every cut node, hence both back-ends return identical fragments.",
        note="navis-fastcore is compiled code: agreement with it is differential testing only. The equivalence of the Python Strahler sweep with the recurrence is covered by the correspondence, not by a theorem. "
             "Five defects of the Python fall-backs were repaired by fix: commits; two mask-related divergences of navis-fastcore stay open.",
        technique="Lean 4 proof of builder/classifier/seed equivalences + three-way differential correspondence against one model",
        ref="§5 C04"),
    'C19': dict(
        text="Theorems (Props/C19.lean, 16, over Rat, none partial): half-to-even rounding spec; every point lies within one voxel size per "
             "axis of its voxel in the VoxelNeuron's own coordinates exactly as neuron2voxels indexes (round(p/pitch) − round(lo/pitch)); "
             "in-bounds points get 0 ≤ idx < shape and are covered by a filled voxel; filled voxels stay inside the grid and the requested "
             "extent; counts=True total = number of points whose voxel is in the grid (the code as written agrees whenever it does not "
             "raise); neuron2tangents = one entry per non-degenerate edge at the midpoint with vector child − parent and exact squared "
             "length; k = min(n, k); alpha ∈ [0,1] with equality cases; NaN rows dropped; collinear neighbourhoods have the line as "
             "principal axis; the run-time checkers coversB/insideB are sound and the model passes them. Tie: exact differential "
             "correspondence of navis.voxelize (3 neuron types, all pitch/bounds/units/counts forms, .5 ties) and make_dotprops(skeleton, k=0) "
             "with the model; Lean checkers evaluated on navis' own grids.",
        note="make_dotprops(k>0) tangents/alpha are TESTED (1e-8) against the exact Fraction inertia matrix of exactly recomputed neighbours; "
             "KD-tree, SVD, marching cubes, tube meshing and skeletor are external numerics — tube / voxel-mesh / mesh→skeleton clauses are "
             "oracle-only tests.",
        technique="Lean 4 proof over Rat/Int voxel + tangent model + exact differential correspondence",
        ref="§5 C19"),
    'C08': dict(
        text="Theorems (Props/C08.lean, 29, unbounded, none partial): exact rational affine maps — `-T` is the two-sided inverse for det ≠ 0, "
             "matrix product = sequential application; the TransformSequence loop as written (NaN mask, write-back) equals the row-wise fold "
             "of its members, NaN rows untouched, rows independent, `-seq` (reversed, negated) is the inverse; telescoping: in any group of "
             "transforms every chain of edges of the bridging graph (forward/inverted, any parallel edge, any route) composes to "
             "frame(target)∘frame(source)⁻¹, instantiated with affine maps down to rows of points; the repaired via/avoid logic honours both "
             "and a kernel-checked witness shows the code as written does not; NoPath errors are sound w.r.t. a sound-and-complete "
             "enumerator of simple paths; the lru_cache of bridging_graph is coherent along every register/query history. Tie: fresh "
             "TemplateRegistry instances with hidden exact dyadic frames — graph edges, find_bridging_path decision and transforms, "
             "xform_brain / shortest_bridging_seq equal to the direct change of frame bit-exactly; NaN rows, input unmodified, -seq, cache histories.",
        note="TPS/MLS landmark interpolation and float matrices are tolerance tests, not proofs; networkx shortest_path/all_simple_paths assumed "
             "to meet their specification; CMTK/H5/elastix transforms not covered.",
        technique="Lean 4 proof (group telescoping, affine inverse, sequence fold) + exact dyadic correspondence",
        ref="§5 C08"),
    'C12': dict(
        text="Every pruning function of the model is `subset t keep` for an explicit keep-set, so kept nodes' ids / coordinates / mutual parent "
             "links are untouched by C10's subset theorem (restated). Theorems (Props/C12.lean, unbounded): one round of prune_twigs removes "
             "exactly twigDelete = all-but-last nodes of terminal branches (leaf → next fork) with length ≤ size whose leaf is in the mask; "
             "prune_at_depth keeps exactly the nodes with geodesic distance ≤ depth; longest_neurite keeps exactly the selected greedy "
             "segments or their complement; Strahler index-set semantics for positive / negative / zero ints; connector relocation returns "
             "the nearest surviving ancestor. Tie: navis' node table after prune_twigs (sizes equal to twig lengths, masks as ids/bool, "
             "recursion depths), prune_by_strahler (ints, lists, ranges, slices, negatives; connector drop/relocate), prune_at_depth "
             "(depth equal to a distance, any source), longest_neurite (n int/slice, inverse) diffed against the model on integer-length "
             "forests; exact=True: heights decide — untouched nodes are farther than size from their farthest tip, a surviving moved tip is "
             "EXACTLY size of cable from the farthest original tip below it, everything else within size is removed, the result is a forest "
             "(exact_spec, exact_removed, exact_forest) — and navis' node set, parents and new tip positions are compared with it.",
        note="The greedy segment order under ties is decided by the proved-sound checker only; recursive pruning reaches a fixpoint within |t| "
             "rounds and removes only twigs (pruneTwigs_fixpoint, pruneTwigs_only_twigs). Two open findings live in compiled navis-fastcore "
             "(mask applied per node; chains pruned only when a mask is given); five defects were repaired by fix: commits.",
        technique="Lean 4 keep-set definitions + subset theorem + exact differential correspondence incl. ties",
        ref="§5 C12"),
    'C20': dict(
        text="Theorems (Props/C20.lean, 17, unbounded, none partial): for all connector tables, under PreUnique (one presynaptic neuron per "
             "connector id) the edge stream of the NeuronConnector model is a permutation of the relational join of pre- and postsynaptic "
             "rows with exact multiplicities (polyadic / duplicated rows), `__OTHER__` edges exactly when requested; for every edge stream "
             "adjacency cell = digraph weight = number of multigraph edges, with equal per-edge connector and node ids; group_matrix(SUM) "
             "conserves the total for every grouping (kept sub-matrix total under drop_ungrouped); run-time checkers proved sound. Tie: real "
             "TreeNeuron/NeuronConnector/group_matrix output vs the compiled model on exhaustive small tables and structured random "
             "tables, plus the Lean checker and independent oracles on navis' own output.",
        note="Outside PreUnique navis keeps only the last presynaptic writer (documented by a proved witness, checked by correspondence only). "
             "pandas groupby/itertuples and networkx are modelled; AVERAGE compared with relative tolerance 1e-11.",
        technique="Lean 4 proof (edge multiset = relational join; three views agree) + differential correspondence",
        ref="§5 C20"),
    'C01': dict(
        text="Theorems (Props/C01.lean, unbounded): the executable check wfB decides the rank-form well-formedness WF (unique non-negative ids, "
             "parents present, acyclic) exactly; labelsOKB means 'label = labelOf(child count, is-root)'; navis' classify rule computes that "
             "label for every node of every table; subset / reroot / cut (both pieces) / remove_nodes / downsample / reclassify preserve WF for every "
             "table and argument (no side condition), and by list induction every finite operation history does; remove_nodes links each kept "
             "node to its nearest kept ancestor; downsample keeps original ids/coordinates and every fix point; insert_nodes preserves WF "
             "under the edge guard the code validates; re-classifying operations return fresh labels. A UNIFIED operation language (Model/OpsAll.lean, 21 "
             "constructors: the above plus multi-cut, prune_twigs / prune_at_depth / longest_neurite / prune_by_strahler, heal, rewire, "
             "break_fragments / drop_fluff, stitch / combine with foreign skeletons, resample, insert_nodes) preserves WF and label "
             "correctness along every finite history (opsAll_preserve_WF, opsAll_labels_ok; only side condition: foreign skeletons passed to "
             "stitch are themselves well-formed, checked at run time by applyAllChecked). Tie: random operation histories (7 modelled + "
             "19 watched operations, in place or on copies) on real TreeNeurons over generated forests (13 shapes × 6 labelings × 3 row "
             "orders); after every step the implementation's table is diffed against Lean applyOp on the implementation's own pre-state "
             "and the proved-sound Lean checkers wfB/labelsOKB are evaluated on the implementation's table, plus no-NaN and soma-exists.",
        note="Watched-only operations (prune_*, heal, stitch, resample, insert_nodes, smoothing, arithmetic, copy, pickle, rewire, …) are "
             "covered by the run-time oracle, not by a theorem about their body. Construction from networkx graphs uses nx.predecessor "
             "(external). Coordinates' absence of NaN is an oracle clause.",
        technique="Lean 4 proof (rank-form invariant preserved by every operation, list induction over histories) + per-step correspondence",
        ref="§5 C01"),
    'C05': dict(
        text="The Lean model is the definition (walk parent links, sum edge lengths). Theorems (Props/C05.lean, unbounded, none partial): "
             "geodesic distance is symmetric, infinite exactly across fragments, equals the edge-length sum of an explicit duplicate-free "
             "path through the lowest common ancestor; directed distance finite iff the target lies on the source's root path (= distal_to); "
             "distance to self 0; `limit` keeps distances equal to the limit; adjacency = parent relation; root distance recurrence; cable = "
             "sum of child-parent lengths; the model's small_segments and greedy segments satisfy the property for every well-formed forest "
             "(child->parent paths whose non-last elements are a permutation of the non-root nodes = every edge in exactly one segment; small "
             "segments leaf/branch -> branch/root with only slabs between; segments longest first, isolated nodes as single-node segments); any "
             "list accepted by the run-time checkers has these properties and its segment lengths sum to the cable length. Tie: "
             "geodesic_matrix (directed, weight, from_, limit incl. limits equal to a distance), dist_between, dist_to_root, distal_to, "
             "cable_length, adjacency matrix, segments, small_segments, segment_length of real TreeNeurons with integer edge lengths (checked "
             "per case) on shuffled/sparse/large ids and shuffled rows, diffed exactly against the model; checkers run on navis' own lists.",
        note="csgraph.dijkstra / igraph / fastcore compute the values in navis; the model is the definition. `segments` is compared with the "
             "greedy-longest model only when leaf depths and segment lengths have no ties (otherwise only the proved-sound checker decides).",
        technique="Lean 4 proof (LCA path distances, edge-partition of segment decompositions) + exact differential correspondence",
        ref="§5 C05"),
    'C10': dict(
        text="Theorems (Props/C10.lean, 23, unbounded): subset returns exactly the requested present ids in table order, keeps the original "
             "parent link iff both ends survive (new root otherwise) with unchanged coordinates, and yields a well-formed, correctly "
             "labelled forest; reroot keeps the node set and coordinates, makes the target a root, leaves every node off the reversed path "
             "(hence every other fragment) untouched, permutes the undirected edge set (Perm), keeps labels correct through navis' "
             "incremental relabel, and yields a well-formed forest for any target sequence; cut: distal piece = descendants-or-self of the "
             "cut node, proximal = complement + cut node, pieces well-formed, share exactly the cut node and their edges are a permutation "
             "of the original edges; prevent_fragments: the connected subgraph contains every requested present node, only existing nodes, is "
             "connected within every tree, is contained in every tree-connected superset of the request (minimality), and the trailing reroot is "
             "a no-op so the operation is subset on that set. Tie: navis' node table after "
             "reroot/cut/multi-cut/subset (list, set, array, mask, graph, DataFrame; prevent_fragments) is diffed against the Lean model "
             "on generated forests; the oracle evaluates every clause of the property directly on navis' output (node set, undirected "
             "edges, coordinates, cable length, root, untouched fragments, distal/proximal sets, edge partition, connectors/tags).",
        note="Iteration orders navis leaves to Python set/dict order in connected_subgraph are fixed to table order in the model (the theorems are about the included SET). "
             "Back-end variants are exercised by C04.",
        technique="Lean 4 proof (rank-form WF, exact subset/reroot/cut characterisation) + table-level correspondence",
        ref="§5 C10"),
    'C09': dict(
        text="Theorems (Props/C09.lean, unbounded): array_split chunks concatenate to range n; for every |q|,|t|, every rows×cols ≥ 1 and "
             "every permutation of job completion the assembled matrix is exactly f(r,c) in every cell (nblast job-local indices) and "
             "likewise for all-by-all under any enumeration of set(qix)|set(tix); find_optimal_partition always returns a usable "
             "partition; NeuronProcessor: per-neuron argument matching, results in list order, omit_failures removes only failures, "
             "parallel (ordered imap, any chunk size) = serial. Tie: a controlled executor records navis' real job grid and blocks and "
             "delivers them in a seeded permutation; grid, local indices, assembled matrix, partition functions and apply() results are "
             "diffed against the compiled Lean model; the serial run is the property oracle.",
        note="The OS scheduler / real pools are not modelled (the theorem covers every completion order; the thorough tier also runs real "
             "spawn and pathos pools). The score function itself is a parameter here (its definition is C06).",
        technique="Lean 4 proof (permutation-invariant block placement) + recorded-job correspondence",
        ref="§5 C09"),
}

# per-property overrides written after an extension pass: tools/claims/Cxx.json = {text, note, technique}
for _f in sorted((ROOT / 'tools' / 'claims').glob('C*.json')):
    _c = json.loads(_f.read_text())
    CLAIMS[_f.stem] = dict(CLAIMS.get(_f.stem, {}), **_c)

# built but temporarily withdrawn while being adapted to a repaired /repo
PENDING = set()

NOT_YET = "not claimed at this commit: the Lean model / correspondence for this property is not built yet (work in progress, see DESIGN.md §5)"


def fix_count(pid, text):
    """Keep the theorem count quoted in a claim text equal to what Props/Cxx.lean holds now."""
    import re
    src = (ROOT / 'lean' / 'NavisModel' / 'Props' / f'{pid}.lean').read_text()
    src = re.sub(r'/-.*?-/', '', src, flags=re.S)
    n = len(re.findall(r'^\s*theorem\s', src, flags=re.M))
    for pat in (r'(Props/' + pid + r'\.lean, )(\d+)', r'()(\d+)(?= (?:Lean |unbounded )?theorems)'):
        m = re.search(pat, text)
        if m:
            return text[:m.start(2)] + str(n) + text[m.end(2):]
    return text + f' (Props/{pid}.lean: {n} theorems.)'


def findings_note(pid):
    fs = []
    for f in [ROOT / 'known_findings.json'] + sorted((ROOT / 'known_findings').glob('*.json')):
        fs += [k for k in json.loads(f.read_text()).get('findings', []) if k.get('property') == pid]
    op = [k['signature'] for k in fs if k.get('status') == 'open']
    fx = [k for k in fs if k.get('status') == 'fixed']
    out = f" Genuine defects found by this check: {len(fx)} repaired by fix: commits in /repo, {len(op)} open"
    if op:
        out += " (printed as KNOWN-FINDING, each suppresses exactly its signature: " + "; ".join(x[:70] for x in op) + ")"
    return out + "."


def main():
    props = [json.loads(l) for l in (ROOT / 'properties.jsonl').read_text().splitlines() if l.strip()]
    checks, na = [], []
    for p in props:
        pid = p['id']
        if pid in CLAIMS and pid not in PENDING:
            c = CLAIMS[pid]
            checks.append({
                'property_id': pid,
                'quick_cmd': f'./check {pid} --tier quick',
                'thorough_cmd': f'./check {pid} --tier thorough',
                'evidence_file': f'evidence/{pid}.json',
                'replay_cmd_template': f'./check {pid} --replay {{path}}',
                'engine': 'lean-proof+correspondence',
                'level_claimed': {'category': 'proof', 'text': fix_count(pid, c['text']), 'design_ref': c['ref']},
                'level_note': COMMON_NOTE + c['note'] + findings_note(pid),
                'technique': c['technique'],
            })
        else:
            na.append({'property_id': pid, 'reason': NOT_YET})
    m = {
        'version': 1,
        'setup_cmd': '/venv/bin/python tools/regen.py && cd lean && lake build NavisModel navisdrv',
        'hooks': {
            'guard': 'NAVIS_VERIF',
            'enable': "no source hooks are needed: checks import /repo's working tree in-process (editable install) and assign module "
                      "attributes from the harness; ./check exports NAVIS_VERIF=1 for any future hook",
            'baseline_off_cmd': BASE,
            'source_commits': [],
            'add_only': True,
        },
        'engines': [{
            'name': 'lean-proof+correspondence', 'path': 'check', 'serves_properties': [c['property_id'] for c in checks],
            'kind_free_text': 'Lean 4 theorems over import-free executable models (lean/NavisModel), tied to /repo on every run by a '
                              'translator (translator/ → lean/NavisModel/Gen) and a differential correspondence harness (harness/) that '
                              'drives the compiled model (lean/Driver.lean → navisdrv) and the real navis on the same inputs',
        }],
        'checks': checks,
        'notes': 'Single entry point ./check Cxx --tier quick|thorough [--replay f]; VERIF_SEED seeds all randomness; exit 0/1/2 as in DESIGN.md §2.1.',
        'not_applicable': na,
    }
    (ROOT / 'MANIFEST.json').write_text(json.dumps(m, indent=1, ensure_ascii=False) + '\n')
    print(f'{len(checks)} claimed, {len(na)} not applicable')


if __name__ == '__main__':
    main()
