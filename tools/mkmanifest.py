#!/usr/bin/env python3
"""Regenerate MANIFEST.json from the per-property claims below (single source of truth)."""
import json
from pathlib import Path

ROOT = Path(__file__).resolve().parent.parent
BASE = "cd /repo && /venv/bin/python -m pytest -ra -q -p no:cacheprovider --timeout=900 --continue-on-collection-errors"

COMMON_NOTE = ("Trusted base: Lean 4.33 kernel; axioms ⊆ {propext, Classical.choice, Quot.sound} audited per theorem on every run "
               "(no sorry / native_decide / bv_decide / own axioms); the translator and the correspondence harness incl. the driver's "
               "parser/printer; numpy/pandas/scipy/networkx/igraph/fastcore primitives are modelled, not verified; IEEE rounding avoided "
               "by exact-float inputs or bounded by a tolerance. ")

CLAIMS = {
    'C09': dict(
        text="Theorems (Props/C09.lean, unbounded): array_split chunks concatenate to range n; for every |q|,|t|, every rows×cols ≥ 1 and "
             "every permutation of job completion the assembled matrix is exactly f(r,c) in every cell (nblast job-local indices) and "
             "likewise for all-by-all under any enumeration of set(qix)|set(tix); find_optimal_partition always returns a usable "
             "partition; NeuronProcessor: per-neuron argument matching, results in list order, omit_failures removes only failures, "
             "parallel (ordered imap, any chunk size) = serial. Tie: a controlled executor records navis' real job grid and blocks and "
             "delivers them in a seeded permutation; grid, local indices, assembled matrix, partition functions and apply() results are "
             "diffed against the compiled Lean model; the serial run is the property oracle.",
        note="The OS scheduler / real pools are not modelled (the theorem covers every completion order; the thorough tier also runs real "
             "spawn and pathos pools). The score function itself is a parameter here (its definition is C06).",
        technique="Lean 4 proof (permutation-invariant block placement) + recorded-job correspondence",
        ref="§5 C09"),
}

NOT_YET = "not claimed at this commit: the Lean model / correspondence for this property is not built yet (work in progress, see DESIGN.md §5)"


def main():
    props = [json.loads(l) for l in (ROOT / 'properties.jsonl').read_text().splitlines() if l.strip()]
    checks, na = [], []
    for p in props:
        pid = p['id']
        if pid in CLAIMS:
            c = CLAIMS[pid]
            checks.append({
                'property_id': pid,
                'quick_cmd': f'./check {pid} --tier quick',
                'thorough_cmd': f'./check {pid} --tier thorough',
                'evidence_file': f'evidence/{pid}.json',
                'replay_cmd_template': f'./check {pid} --replay {{path}}',
                'engine': 'lean-proof+correspondence',
                'level_claimed': {'category': 'proof', 'text': c['text'], 'design_ref': c['ref']},
                'level_note': COMMON_NOTE + c['note'],
                'technique': c['technique'],
            })
        else:
            na.append({'property_id': pid, 'reason': NOT_YET})
    m = {
        'version': 1,
        'setup_cmd': 'cd lean && lake build NavisModel navisdrv',
        'hooks': {
            'guard': 'NAVIS_VERIF',
            'enable': "no source hooks are needed: checks import /repo's working tree in-process (editable install) and assign module "
                      "attributes from the harness; ./check exports NAVIS_VERIF=1 for any future hook",
            'baseline_off_cmd': BASE,
            'source_commits': [],
            'add_only': True,
        },
        'engines': [{
            'name': 'lean-proof+correspondence', 'path': 'check', 'serves_properties': [c['property_id'] for c in checks],
            'kind_free_text': 'Lean 4 theorems over import-free executable models (lean/NavisModel), tied to /repo on every run by a '
                              'translator (translator/ → lean/NavisModel/Gen) and a differential correspondence harness (harness/) that '
                              'drives the compiled model (lean/Driver.lean → navisdrv) and the real navis on the same inputs',
        }],
        'checks': checks,
        'notes': 'Single entry point ./check Cxx --tier quick|thorough [--replay f]; VERIF_SEED seeds all randomness; exit 0/1/2 as in DESIGN.md §2.1.',
        'not_applicable': na,
    }
    (ROOT / 'MANIFEST.json').write_text(json.dumps(m, indent=1, ensure_ascii=False) + '\n')
    print(f'{len(checks)} claimed, {len(na)} not applicable')


if __name__ == '__main__':
    main()
