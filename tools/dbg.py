#!/venv/bin/python
"""tools/dbg.py Cxx [seed] : run a property's harness and print all failures in detail (no build/audit)."""
import sys, os, json
sys.path.insert(0, '/verif'); os.chdir('/verif')
sys.path.insert(0, os.environ.get('NAVIS_REPO', '/repo'))
from harness import common as C
import importlib
prop = sys.argv[1].upper(); seed = int(sys.argv[2]) if len(sys.argv) > 2 else 0
ctx = C.Ctx(prop, os.environ.get('VERIF_TIER', 'quick'), seed)
mod = importlib.import_module(f'harness.{prop.lower()}')
try:
    mod.run(ctx)
finally:
    ctx.drv.close()
print('cases', ctx.evaluations, 'failures', len(ctx.failures), 'known', ctx.known_hit.keys())
seen = set()
for f in ctx.failures:
    key = (f['kind'], f['what'][:60])
    if key in seen: continue
    seen.add(key)
    print('-' * 100); print(f['kind'], f['what']); print('sig', f.get('signature'))
    c = dict(f['case']); print(json.dumps(c, default=str)[:1500])
    if 'impl' in f: print('impl :', f['impl'][:600]); print('model:', f['model'][:600])
    if len(seen) >= int(os.environ.get('DBG_MAX', '6')): break
