#!/bin/bash
# tools/intake_seed.sh <PROP> <wave> <n1> [<n2>...] : move /tmp/seed_out_<PROP>_<wave>_<k> into seeded/<PROP>_<n>, remove the agent's worktree
ROOT=$(readlink -f "$(dirname "$0")/.."); cd "$ROOT"
p=$1; w=$2; shift 2; k=1
git -C /repo worktree remove --force /tmp/seedwt_${p}_${w} 2>/dev/null
for n in "$@"; do
  src=/tmp/seed_out_${p}_${w}_$k
  if [ -f $src/patch.diff ]; then mkdir -p seeded/${p}_$n; cp $src/patch.diff $src/demo.py $src/meta.json seeded/${p}_$n/; echo "seeded/${p}_$n"; fi
  rm -rf $src; k=$((k+1))
done
rm -f /tmp/seedwt_${p}_${w}_*.log
