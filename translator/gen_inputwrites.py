"""C03 translator, second module: which public functions WITHOUT an `inplace` parameter write to their input?

The property says such functions leave their input alone "apart from the single documented annotation column that analysis
functions add".  For every public (no leading underscore) module-level function under `navis/` (sub-packages in SKIP_DIRS and
the `utils` helpers, whose first argument is a table / function / list, excluded) that has a positional first parameter and
neither an `inplace` nor a `copy` flag, the body is walked with the path-sensitive interpreter of `gen_inplace` (same alias /
copy tracking: `y = x` aliases, `x = x.copy()` owns, `for n in x` aliases the members) and every statement that writes THROUGH
the first parameter (or an alias of it) is recorded in canonical form:

    col:<name>    assignment / del of a subscript whose last string literal index is <name>
                  (`x.nodes['strahler_index'] = …`, `nodes.loc[mask, 'compartment'] = …` with `nodes = original.nodes`)
    attr:<name>   assignment / del of an attribute (`x.fragments = …`, `n.tree = …`)
    item          any other subscript assignment
    call:<callee> a call that edits the object in place (`x.reroot(…, inplace=True)`, `out=x.…`, `setattr(x, …)`)
    via:<callee>  the input is handed (as first argument) to another function of this very list, i.e. to a function that
                  writes to ITS input (`strahler_index(x)` inside `segment_analysis`): the callee's writes land in our input

Output: `Navis.Gen.InputWrites.inputWrites : List (String × String)` (function key, canonical write), sorted, and
`scannedFunctions`.  `Props/C03.input_writes_whitelisted` proves by `decide` that every entry is in the hand-written whitelist
of `Model/InputWrites.lean` (documented annotation columns per function and per column; the open defects of
known_findings/C03.json; first arguments that are not neurons).  A new write to an input in any function of the catalogue
changes the generated list and the theorem stops checking; removing a write (a repaired defect) keeps it true.

Nothing is imported or executed."""
import ast
from pathlib import Path

from . import gen_inplace as G

PROPS = ['C03']
SKIP_DIRS = G.SKIP_DIRS + ('utils',)
SKIP_FILES = ('conftest.py',)
NOFLAG = '\0no-flag'


def last_string_index(node):
    """the last string literal used as (part of) a subscript index along an Attribute/Subscript chain"""
    found = None
    chain = []
    while isinstance(node, (ast.Attribute, ast.Subscript, ast.Starred)):
        chain.append(node)
        node = node.value
    for n in reversed(chain):            # from the root outwards: the outermost literal wins
        if isinstance(n, ast.Subscript):
            sl = n.slice
            elts = sl.elts if isinstance(sl, ast.Tuple) else [sl]
            for e in elts:
                if isinstance(e, ast.Constant) and isinstance(e.value, str):
                    found = e.value
    return found


def canonical_target(tg):
    col = last_string_index(tg)
    if col is not None:
        return f'col:{col}'
    if isinstance(tg, ast.Attribute):
        return f'attr:{tg.attr}'
    return 'item'


class W(G.Walker):
    def __init__(self, fn, subject, writers=()):
        super().__init__(fn, subject, NOFLAG, +1, {})
        self.writes = set()
        self.writers = set(writers)       # bare names of functions known to write to their first argument

    def target_write(self, st, tg):
        r = G.root_name(tg, min_depth=1)
        if r and r in st.tainted:
            self.writes.add(canonical_target(tg))
        return super().target_write(st, tg)

    def do_calls(self, st, node, discarded=None):
        for c in self.iter_calls(node):
            eff, names = self.call_effect(c)
            if eff == 'write' and any(n in st.tainted for n in names):
                self.writes.add(f'call:{G.callee_name(c)}')
            if G.callee_name(c) in self.writers and c.args and isinstance(c.args[0], ast.Name) and c.args[0].id in st.tainted:
                f = c.func
                plain = isinstance(f, ast.Name)
                qualified = isinstance(f, ast.Attribute) and isinstance(f.value, ast.Name) \
                    and f.value.id not in st.tainted and f.value.id not in st.owned          # `mmetrics.strahler_index(x)`
                if plain or qualified:
                    self.writes.add(f'via:{G.callee_name(c)}')
        return super().do_calls(st, node, discarded)

    def stmt(self, s, states):
        # `x *= 2` on the input itself
        if isinstance(s, ast.AugAssign) and isinstance(s.target, ast.Name):
            if any(s.target.id in st.tainted for st in states):
                self.writes.add('augassign')
        return super().stmt(s, states)


def analyse(repo: Path):
    rows, scanned = analyse_pass(repo, ())
    for _ in range(4):                                   # inputs handed on to functions that write to theirs: to a fixpoint
        writers = {k.split(':')[1] for k, _ in rows}
        rows2, scanned = analyse_pass(repo, writers)
        if rows2 == rows:
            break
        rows = rows2
    return rows, scanned


def analyse_pass(repo: Path, writers):
    base = Path(repo) / 'navis'
    rows, scanned = [], 0
    for p in sorted(base.rglob('*.py')):
        parts = p.relative_to(base).parts
        rel = p.relative_to(base).as_posix()
        if any(part in SKIP_DIRS for part in parts) or rel in SKIP_FILES:
            continue
        try:
            tree = ast.parse(p.read_text())
        except SyntaxError as e:
            raise ValueError(f'cannot parse {rel}: {e}')
        for node in tree.body:
            if not isinstance(node, (ast.FunctionDef, ast.AsyncFunctionDef)) or node.name.startswith('_') or G.is_overload(node):
                continue
            pos, allp, _ = G.params(node)
            if not pos or 'inplace' in allp or 'copy' in allp:
                continue
            scanned += 1
            w = W(node, pos[0], writers)
            w.run()
            for t in sorted(w.writes):
                rows.append((f'{rel}:{node.name}', t))
    return sorted(set(rows)), scanned


def split_kind(t):
    k, _, n = t.partition(':')
    return k, n


def generate(repo: Path):
    rows, scanned = analyse(repo)
    if scanned < 100:
        raise ValueError(f'only {scanned} public functions without an inplace flag found — source layout changed?')
    lines = [
        '/- GENERATED by translator/gen_inputwrites.py: every write through the first parameter in the public module-level',
        '   functions of navis that take NO `inplace` / `copy` flag.  Do not edit: regenerated on every `./check C03`. -/',
        'namespace Navis.Gen.InputWrites',
        '',
        f'def scannedFunctions : Nat := {scanned}',
        '',
        '/-- (function, kind of write through its first parameter, name) -/',
        'def inputWrites : List (String × String × String) := [',
        ',\n'.join('  ("%s", "%s", "%s")' % ((k,) + split_kind(t)) for k, t in rows),
        ']',
        '',
        'end Navis.Gen.InputWrites',
        '',
    ]
    meta = {'scanned': scanned, 'writes': [f'{k} {t}' for k, t in rows]}
    return 'InputWrites.lean', '\n'.join(lines), meta


if __name__ == '__main__':
    import sys
    rows, scanned = analyse(Path(sys.argv[1] if len(sys.argv) > 1 else '/repo'))
    for k, t in rows:
        print(k, t)
    print(scanned, 'functions scanned;', len(rows), 'writes')
