"""Translator for C14: re-extract the declarative facts of navis' I/O code from the *current* source
(`navis/io/base.py`, `precomputed_io.py`, `nrrd_io.py`, `mesh_io.py`, `hdf_io.py`) with `ast` and emit them as Lean definitions
(`Gen/IoConsts.lean`).  `Props/C14.lean` proves that they coincide with the layout / decision table the
Lean codec and policy model implement, so an edit of a dtype, the field order, the edge column swap, the
`errors` decision table, the `format_output` filter or the NRRD header keys makes a theorem stop checking.

Anything the extractor cannot find in the expected shape raises (a broken tie is reported, never guessed)."""
import ast
from pathlib import Path

PROPS = ['C14']


# ------------------------------------------------------------------------------------------------
def _parse(p: Path):
    return ast.parse(p.read_text())


def _func(tree, name, cls=None):
    body = tree.body
    if cls:
        for n in body:
            if isinstance(n, ast.ClassDef) and n.name == cls:
                body = n.body
                break
        else:
            raise ValueError(f'class {cls} not found')
    for n in body:
        if isinstance(n, ast.FunctionDef) and n.name == name:
            return n
    raise ValueError(f'function {cls + "." if cls else ""}{name} not found')


def _const(n):
    if isinstance(n, ast.Constant):
        return n.value
    raise ValueError(f'expected a literal, got {ast.dump(n)[:80]}')


def _is_self_errors_eq(test):
    """`self.errors == "<lit>"` -> lit"""
    if (isinstance(test, ast.Compare) and len(test.ops) == 1 and isinstance(test.ops[0], ast.Eq)
            and isinstance(test.left, ast.Attribute) and test.left.attr == 'errors'
            and isinstance(test.left.value, ast.Name) and test.left.value.id == 'self'):
        return _const(test.comparators[0])
    return None


def _contains(nodes, typ):
    return any(isinstance(x, typ) for n in nodes for x in ast.walk(n))


def _if_chain(stmt):
    """[(literal, body)] of an if/elif chain on self.errors, plus the final else body."""
    out = []
    while True:
        lit = _is_self_errors_eq(stmt.test)
        if lit is None:
            raise ValueError('unexpected test in errors chain: ' + ast.dump(stmt.test)[:100])
        out.append((lit, stmt.body))
        if len(stmt.orelse) == 1 and isinstance(stmt.orelse[0], ast.If):
            stmt = stmt.orelse[0]
        else:
            return out, stmt.orelse


def policy(base):
    he = _func(base, 'handle_errors')
    wrapper = next(n for n in he.body if isinstance(n, ast.FunctionDef))
    tr = next(n for n in wrapper.body if isinstance(n, ast.Try))
    if len(tr.handlers) != 1:
        raise ValueError('handle_errors: expected exactly one except clause')
    h = tr.handlers[0]
    catches = h.type.id if isinstance(h.type, ast.Name) else ('*' if h.type is None else ast.unparse(h.type))
    chain = next((s for s in h.body if isinstance(s, ast.If) and _is_self_errors_eq(s.test) is not None), None)
    if chain is None:
        raise ValueError('handle_errors: no `if self.errors == ...` chain in the except clause')
    branches, orelse = _if_chain(chain)
    after = h.body[h.body.index(chain) + 1:]

    def action(body):
        if _contains(body, ast.Raise):
            return 'raise'
        rets = [x for n in body for x in ast.walk(n) if isinstance(x, ast.Return)]
        if rets:
            return 'none' if all(r.value is None or (isinstance(r.value, ast.Constant) and r.value.value is None) for r in rets) else 'value'
        return None   # falls through

    fall = action(orelse) or action(after)
    if fall is None:
        fall = 'none'   # function end: implicit `return None`
    # allowed literals: `assert errors in (...)` in BaseReader.__init__
    init = _func(base, '__init__', 'BaseReader')
    allowed = None
    for n in ast.walk(init):
        if isinstance(n, ast.Assert) and isinstance(n.test, ast.Compare) and isinstance(n.test.ops[0], ast.In):
            allowed = [_const(e) for e in n.test.comparators[0].elts]
    if allowed is None:
        raise ValueError('BaseReader.__init__: `assert errors in (...)` not found')
    bd = {lit: action(body) for lit, body in branches}
    table = [(lit, bd.get(lit) or fall) for lit in allowed]
    return table, catches


def format_output_filters(tree, cls):
    """Does `<cls>.format_output` drop falsy entries (`[n for n in x if n]`) on every NeuronList path?"""
    fo = _func(tree, 'format_output', cls)
    comps = [n for n in ast.walk(fo) if isinstance(n, ast.ListComp)]
    return bool(comps) and all(c.generators and c.generators[0].ifs for c in comps)


def zip_swallows(base):
    f = _func(base, 'read_from_zip', 'BaseReader')
    for n in ast.walk(f):
        if isinstance(n, ast.ExceptHandler):
            chain = next((s for s in n.body if isinstance(s, ast.If)), None)
            if chain is None:
                raise ValueError('read_from_zip: except clause without policy test')
            branches, orelse = _if_chain(chain)
            sw = [lit for lit, body in branches if not _contains(body, ast.Raise)]
            if not _contains(orelse, ast.Raise):
                raise ValueError('read_from_zip: else branch no longer re-raises')
            return sw
    raise ValueError('read_from_zip: no except clause')


def parallel_map(base):
    f = _func(base, 'parallel_read')
    names = [n.func.attr for n in ast.walk(f) if isinstance(n, ast.Call) and isinstance(n.func, ast.Attribute)
             and isinstance(n.func.value, ast.Name) and n.func.value.id == 'pool']
    if len(names) != 1:
        raise ValueError(f'parallel_read: expected one pool.<map> call, got {names}')
    return names[0]


# ------------------------------------------------------------------------------------------------
def _astype_dtype(call):
    """dtype literal of `<expr>.astype("dtype", ...)` or np.asarray(x, dtype="...")."""
    if isinstance(call, ast.Call):
        if isinstance(call.func, ast.Attribute) and call.func.attr == 'astype':
            return _const(call.args[0])
        for kw in call.keywords:
            if kw.arg == 'dtype':
                return _const(kw.value)
    return None


_CAST_AFTER = None


def skel_writer(pre):
    f = _func(pre, '_write_skeleton')
    dtypes, swap, order, hdr = {}, None, [], None
    for st in ast.walk(f):
        if isinstance(st, ast.Assign) and len(st.targets) == 1 and isinstance(st.targets[0], ast.Name):
            tgt = st.targets[0].id
            dt = _astype_dtype(st.value)
            if dt and tgt in ('vertex_positions', 'edges'):
                dtypes[tgt] = dt
            # edges = edges[:, [1, 0]]
            if tgt == 'edges' and isinstance(st.value, ast.Subscript) and isinstance(st.value.slice, ast.Tuple):
                last = st.value.slice.elts[-1]
                if isinstance(last, ast.List):
                    swap = [_const(e) for e in last.elts]
    # order of result.write(...) calls in source order
    writes = sorted((n for n in ast.walk(f) if isinstance(n, ast.Call) and isinstance(n.func, ast.Attribute)
                     and n.func.attr == 'write' and isinstance(n.func.value, ast.Name) and n.func.value.id == 'result'),
                    key=lambda n: (n.lineno, n.col_offset))
    for w in writes:
        a = w.args[0]
        src = ast.unparse(a)
        if 'struct.pack' in src:
            hdr = _const(a.args[0])
            cnt = [ast.unparse(x) for x in a.args[1:]]
            if cnt != ['vertex_positions.shape[0]', 'edges.shape[0]']:
                raise ValueError(f'_write_skeleton: unexpected header counts {cnt}')
            order.append('header')
        elif src.startswith('vertex_positions'):
            order.append('vertex_positions')
        elif src.startswith('edges'):
            order.append('edges')
        elif 'radius' in src:
            order.append('radius')
            inner = a.func.value if isinstance(a, ast.Call) else None   # <...>.astype('float32').tobytes()
            dtypes['radius'] = _astype_dtype(inner)
        else:
            order.append(src[:30])
    if swap is None:
        swap = [0, 1]   # no column swap in the writer
    # is the uint32 cast of the edges done after the id -> row-index mapping (`node_ix.loc[...]`)?
    cast_line = max((st.lineno for st in ast.walk(f) if isinstance(st, ast.Assign) and isinstance(st.targets[0], ast.Name)
                     and st.targets[0].id == 'edges' and _astype_dtype(st.value)), default=0)
    map_lines = [st.lineno for st in ast.walk(f) if isinstance(st, ast.Assign) and 'node_ix.loc' in ast.unparse(st.value)
                 and isinstance(st.targets[0], ast.Subscript)]
    if len(map_lines) != 2:
        raise ValueError('_write_skeleton: id -> index mapping of the edges not recognised')
    global _CAST_AFTER
    _CAST_AFTER = cast_line > max(map_lines)
    if hdr is None or set(dtypes) != {'vertex_positions', 'edges', 'radius'}:
        raise ValueError(f'_write_skeleton: layout not recognised ({hdr}, {dtypes})')
    return order, hdr, [(k, dtypes[k]) for k in ('vertex_positions', 'edges', 'radius')], swap


def _np_dtype(n):
    """np.uint32 -> 'uint32'; "uint32" -> 'uint32'"""
    if isinstance(n, ast.Attribute):
        return n.attr
    return str(_const(n))


def _mults(n):
    """integer factors of a product expression like int(3 * 4 * num_nodes)"""
    if isinstance(n, ast.Call) and n.args:
        n = n.args[0]
    out = []

    def go(e):
        if isinstance(e, ast.BinOp) and isinstance(e.op, ast.Mult):
            go(e.left); go(e.right)
        elif isinstance(e, ast.Constant):
            out.append(e.value)
        else:
            out.append(ast.unparse(e))
    go(n)
    return out


def _frombuffers(f):
    """[(target, dtype, read-size factors or None, reshape cols or None, exact?)] for
    `t = [int(] np.frombuffer(f.read(k) | _read_exactly(f, k, what), dt)[.reshape(-1,c)][[0]] [)]`"""
    res = []
    for st in f.body:
        if not (isinstance(st, ast.Assign) and isinstance(st.targets[0], ast.Name)):
            continue
        v, cols = st.value, None
        if isinstance(v, ast.Call) and isinstance(v.func, ast.Name) and v.func.id == 'int' and v.args:
            v = v.args[0]
        if isinstance(v, ast.Subscript):
            v = v.value
        if isinstance(v, ast.Call) and isinstance(v.func, ast.Attribute) and v.func.attr == 'reshape':
            cols = _const(v.args[-1])
            v = v.func.value
        if isinstance(v, ast.Call) and isinstance(v.func, ast.Attribute) and v.func.attr == 'frombuffer':
            size, exact = _read_call(v.args[0])
            res.append((st.targets[0].id, _np_dtype(v.args[1]), size, cols, exact))
    return res


def _read_call(rd):
    """(size factors, exact?) of `f.read(k)` / `f.read()` / `_read_exactly(f, k, what)`"""
    if isinstance(rd, ast.Call) and isinstance(rd.func, ast.Name) and rd.func.id == '_read_exactly':
        return _mults(rd.args[1]), True
    if isinstance(rd, ast.Call) and isinstance(rd.func, ast.Attribute) and rd.func.attr == 'read':
        return (_mults(rd.args[0]) if rd.args else None), False
    raise ValueError('unrecognised read expression: ' + ast.unparse(rd)[:80])


def _attr_read_exact(f):
    """is the vertex-attribute block inside the `for attr in ...` loop read with _read_exactly?"""
    for loop in (n for n in ast.walk(f) if isinstance(n, ast.For)):
        for n in ast.walk(loop):
            if isinstance(n, ast.Call) and isinstance(n.func, ast.Attribute) and n.func.attr == 'frombuffer':
                return _read_call(n.args[0])[1]
    raise ValueError('read_buffer: vertex attribute loop not found')


def skel_reader(pre):
    f = _func(pre, 'read_buffer', 'PrecomputedSkeletonReader')
    fb = _frombuffers(f)
    mk = _func(pre, 'make_swc', 'PrecomputedSkeletonReader')
    key = val = None
    for n in ast.walk(mk):
        if isinstance(n, ast.Call) and isinstance(n.func, ast.Name) and n.func.id == 'zip' and len(n.args) == 2:
            try:
                key = _const(n.args[0].slice.elts[-1]); val = _const(n.args[1].slice.elts[-1])
            except Exception:
                pass
    default = None
    for n in ast.walk(mk):
        if isinstance(n, ast.Call) and isinstance(n.func, ast.Attribute) and n.func.attr == 'get' and len(n.args) == 2:
            default = ast.literal_eval(n.args[1])
    if key is None or default is None:
        raise ValueError('make_swc: edge dictionary not recognised')
    return fb, key, val, default, _attr_read_exact(f)


def mesh_writer(pre):
    f = _func(pre, '_write_mesh')
    dt, order = {}, None
    for st in ast.walk(f):
        if isinstance(st, ast.Assign) and isinstance(st.targets[0], ast.Name):
            t = st.targets[0].id
            d = _astype_dtype(st.value)
            if d and t in ('vertices', 'faces'):
                dt[t] = d
            if t == 'n_vertices' and isinstance(st.value, ast.Call):
                dt['n_vertices'] = _np_dtype(st.value.func)
            if t == 'vertex_index_format' and isinstance(st.value, ast.List):
                order = [ast.unparse(e) for e in st.value.elts]
    if order is None or set(dt) != {'vertices', 'faces', 'n_vertices'}:
        raise ValueError(f'_write_mesh: layout not recognised ({order}, {dt})')
    return order, [(k, dt[k]) for k in order]


def mesh_reader(pre):
    return _frombuffers(_func(pre, 'read_buffer', 'PrecomputedMeshReader'))


def info_literals(pre):
    f = _func(pre, 'write_info_file')
    types = [_const(st.value) for st in ast.walk(f) if isinstance(st, ast.Assign) and isinstance(st.targets[0], ast.Subscript)
             and isinstance(st.targets[0].slice, ast.Constant) and st.targets[0].slice.value == '@type']
    w = _func(pre, 'write_any', 'PrecomputedWriter')
    attr = None
    for n in ast.walk(w):
        if isinstance(n, ast.Dict) and any(isinstance(k, ast.Constant) and k.value == 'data_type' for k in n.keys):
            attr = ast.literal_eval(n)
    rd = _func(pre, 'read_precomputed')
    rtypes = []
    for n in ast.walk(rd):
        if isinstance(n, ast.Compare) and isinstance(n.ops[0], ast.Eq) and isinstance(n.comparators[0], ast.Constant) \
                and str(n.comparators[0].value).startswith('neuroglancer'):
            rtypes.append(n.comparators[0].value)
    if attr is None or len(types) != 2:
        raise ValueError('write_info_file / PrecomputedWriter.write_any: literals not recognised')
    # transform: dtype of the matrix and whether per-axis units are used
    tdt, per_axis = None, False
    for n in ast.walk(f):
        if isinstance(n, ast.Assign) and isinstance(n.targets[0], ast.Name) and n.targets[0].id == 'tr' and isinstance(n.value, ast.Call):
            for kw in n.value.keywords:
                if kw.arg == 'dtype':
                    tdt = ast.unparse(kw.value)
        if isinstance(n, ast.Attribute) and n.attr == 'units_xyz':
            per_axis = True
    if tdt is None:
        raise ValueError('write_info_file: transform matrix not recognised')
    return types, rtypes, attr, tdt, per_axis


def nrrd_header(nr):
    f = _func(nr, '_write_nrrd')
    keys = []
    for st in f.body:
        for n in ast.walk(st):
            if isinstance(n, ast.Assign) and isinstance(n.targets[0], ast.Subscript) and isinstance(n.targets[0].value, ast.Name) \
                    and n.targets[0].value.id == 'header':
                keys.append((_const(n.targets[0].slice), ast.unparse(n.value)))
    rd = _func(nr, 'read_buffer', 'NrrdReader')
    rkeys = sorted({n.comparators[0].id and _const(n.left) for n in ast.walk(rd)
                    if isinstance(n, ast.Compare) and isinstance(n.ops[0], ast.In) and isinstance(n.left, ast.Constant)
                    and isinstance(n.comparators[0], ast.Name) and n.comparators[0].id == 'header'})
    return keys, rkeys


def misc_facts(base, nr, h5):
    """small behavioural facts repaired by fix: commits (a regression flips them)"""
    he = _func(base, 'handle_errors')
    wrapper = next(n for n in he.body if isinstance(n, ast.FunctionDef))
    attrs_safe = False
    for st in wrapper.body:
        if isinstance(st, ast.Assign) and isinstance(st.targets[0], ast.Name) and st.targets[0].id == 'attrs':
            attrs_safe = isinstance(st.value, ast.BoolOp) and isinstance(st.value.op, ast.Or)
    ci = _func(base, 'convert_image', 'ImageReader')
    k_cast = any(isinstance(n, ast.Call) and isinstance(n.func, ast.Name) and n.func.id == 'int' and n.args
                 and isinstance(n.args[0], ast.Name) and n.args[0].id == 'k' for n in ast.walk(ci))
    dp_units = any(isinstance(n, ast.Assign) and isinstance(n.targets[0], ast.Attribute) and n.targets[0].attr == 'units'
                   and isinstance(n.value, ast.Name) and n.value.id == 'units' for n in ast.walk(ci))
    wn = _func(h5, 'write_neurons', 'H5WriterV1')
    fwd = []
    for n in ast.walk(wn):
        if isinstance(n, ast.Call) and isinstance(n.func, ast.Attribute) and n.func.attr == 'write_neurons':
            fwd = sorted(kw.arg for kw in n.keywords if kw.arg in ('serialized', 'raw'))
    ra = _func(h5, 'read_annotations', 'H5ReaderV1')
    isin = [ast.unparse(n.args[1]) for n in ast.walk(ra) if isinstance(n, ast.Call) and isinstance(n.func, ast.Name)
            and n.func.id == 'isinstance' and 'grp' in ast.unparse(n.args[0])]
    return attrs_safe, k_cast, dp_units, fwd, (isin[0] if isin else '')


# ------------------------------------------------------------------------------------------------
def _s(x):
    return '"' + str(x).replace('\\', '\\\\').replace('"', '\\"') + '"'


def _lst(xs, f=_s):
    return '[' + ', '.join(f(x) for x in xs) + ']'


def _pairs(xs, f1=_s, f2=_s):
    return '[' + ', '.join(f'({f1(a)}, {f2(b)})' for a, b in xs) + ']'


def generate(repo: Path):
    io = Path(repo) / 'navis' / 'io'
    base, pre, nr = _parse(io / 'base.py'), _parse(io / 'precomputed_io.py'), _parse(io / 'nrrd_io.py')
    mesh_io = _parse(io / 'mesh_io.py')
    h5 = _parse(io / 'hdf_io.py')
    table, catches = policy(base)
    fo_base = format_output_filters(base, 'BaseReader')
    fo_nrrd = format_output_filters(nr, 'NrrdReader')
    fo_mesh = format_output_filters(mesh_io, 'MeshReader')
    zsw = zip_swallows(base)
    pmap = parallel_map(base)
    w_order, w_hdr, w_dt, swap = skel_writer(pre)
    r_fb, kcol, vcol, dflt, attr_exact = skel_reader(pre)
    m_order, m_dt = mesh_writer(pre)
    m_fb = mesh_reader(pre)
    itypes, rtypes, rattr, tr_dtype, tr_per_axis = info_literals(pre)
    attrs_safe, k_cast, dp_units, h5_fwd, h5_isin = misc_facts(base, nr, h5)
    nkeys, nrkeys = nrrd_header(nr)

    def fb(xs):
        return '[' + ', '.join(f'({_s(t)}, {_s(d)}, {_lst(s or [], lambda v: _s(v))}, {c if c is not None else 0})' for t, d, s, c, _ in xs) + ']'

    def ex(xs):
        return '[' + ', '.join(f'({_s(t)}, {str(bool(e)).lower()})' for t, _, _, _, e in xs) + ']'
    b = lambda v: str(bool(v)).lower()  # noqa

    src = f"""/- GENERATED by translator/gen_consts.py from navis/io/base.py, precomputed_io.py, nrrd_io.py, mesh_io.py.
   Do not edit: regenerated from the current source tree on every `./check C14`. -/
namespace Navis.Gen.IoConsts

/-- `handle_errors`: for every allowed `errors` literal, what happens to an exception of the wrapped reader. -/
def policyTable : List (String × String) := {_pairs(table)}
/-- The exception class `handle_errors` catches. -/
def policyCatches : String := {_s(catches)}
/-- `format_output` drops `None` entries before building the NeuronList (per reader class). -/
def baseFormatOutputFilters : Bool := {str(fo_base).lower()}
def nrrdFormatOutputFilters : Bool := {str(fo_nrrd).lower()}
def meshFormatOutputFilters : Bool := {str(fo_mesh).lower()}
/-- `read_from_zip`: policies for which an escaping exception is swallowed (all others re-raise). -/
def zipSwallows : List String := {_lst(zsw)}
/-- The pool method used by `parallel_read` (`imap` is ordered). -/
def parallelMap : String := {_s(pmap)}

/-- `_write_skeleton`: order of the `result.write(...)` calls, header format, dtypes, edge column permutation. -/
def skelWriterOrder : List String := {_lst(w_order)}
def skelHeaderFmt : String := {_s(w_hdr)}
def skelWriterDtypes : List (String × String) := {_pairs(w_dt)}
def skelEdgeColumns : List Nat := {_lst(swap, str)}
/-- `PrecomputedSkeletonReader.read_buffer`: (target, dtype, factors of the read size, reshape columns). -/
def skelReaderFields : List (String × String × List String × Nat) := {fb(r_fb)}
/-- Which blocks are read with `_read_exactly` (a short read raises) rather than `f.read` (short reads pass). -/
def skelReaderExact : List (String × Bool) := {ex(r_fb)}
def skelAttrReadExact : Bool := {b(attr_exact)}
/-- `_write_skeleton`: the uint32 cast of the edges comes after the id → row-index mapping. -/
def skelEdgesCastAfterMapping : Bool := {b(_CAST_AFTER)}
/-- `make_swc`: `dict(zip(edges[:, key], edges[:, val]))`, `.get(i, default)`. -/
def edgeDictKeyCol : Nat := {kcol}
def edgeDictValCol : Nat := {vcol}
def edgeDictDefault : Int := {dflt}

/-- `_write_mesh`: concatenation order and dtypes; reader fields. -/
def meshWriterOrder : List String := {_lst(m_order)}
def meshWriterDtypes : List (String × String) := {_pairs(m_dt)}
def meshReaderFields : List (String × String × List String × Nat) := {fb(m_fb)}
def meshReaderExact : List (String × Bool) := {ex(m_fb)}

/-- `info` file literals. -/
def infoTypesWritten : List String := {_lst(itypes)}
def infoTypesRead : List String := {_lst(sorted(rtypes))}
def radiusAttr : String × String × Nat := ({_s(rattr['id'])}, {_s(rattr['data_type'])}, {rattr['num_components']})
/-- `write_info_file`: dtype of the transform matrix; nm scale taken per axis (`units_xyz`). -/
def infoTransformDtype : String := {_s(tr_dtype)}
def infoTransformPerAxis : Bool := {b(tr_per_axis)}

/-- `_write_nrrd`: header keys assigned (in order) with the expression assigned; keys the reader consults. -/
def nrrdHeaderWritten : List (String × String) := {_pairs(nkeys)}
def nrrdHeaderRead : List String := {_lst(nrkeys)}
/-- `ImageReader.convert_image`: header `k` cast to int; units of 2-D point data taken from the header's voxel size. -/
def nrrdKCastToInt : Bool := {b(k_cast)}
def nrrdDotpropsUnitsFromHeader : Bool := {b(dp_units)}

/-- `handle_errors` tolerates `attrs=None`. -/
def policyAttrsNoneSafe : Bool := {b(attrs_safe)}
/-- `H5WriterV1.write_neurons`: which of `serialized`/`raw` the NeuronList recursion forwards;
`H5ReaderV1.read_annotations`: the class the annotation groups are tested against. -/
def h5ListForwards : List String := {_lst(h5_fwd)}
def h5AnnotationGroupClass : String := {_s(h5_isin)}

end Navis.Gen.IoConsts
"""
    meta = {'source': ['navis/io/base.py', 'navis/io/precomputed_io.py', 'navis/io/nrrd_io.py', 'navis/io/mesh_io.py', 'navis/io/hdf_io.py'],
            'policy_table': table, 'skeleton_writer': {'order': w_order, 'header': w_hdr, 'dtypes': w_dt, 'edge_columns': swap},
            'skeleton_reader': [list(map(str, x)) for x in r_fb], 'repaired_facts': dict(
                attr_read_exact=attr_exact, cast_after_mapping=_CAST_AFTER, transform_dtype=tr_dtype, transform_per_axis=tr_per_axis,
                attrs_none_safe=attrs_safe, k_cast=k_cast, dotprops_units_from_header=dp_units, h5_forwards=h5_fwd, h5_isinstance=h5_isin), 'edge_dict': [kcol, vcol, dflt],
            'mesh_writer': m_dt, 'nrrd_header_keys': [k for k, _ in nkeys],
            'format_output_filters': {'BaseReader': fo_base, 'NrrdReader': fo_nrrd, 'MeshReader': fo_mesh}}
    return 'IoConsts.lean', src, meta
