"""Translator for C01: re-extract from the *current* navis source (read as text, walked with `ast`; nothing is imported from
navis) the declarative facts the Lean soma-bookkeeping model and the `skip_errors` branch of the resampling model hard-wire,
and emit them as Lean definitions (`Gen/SomaSpec.lean`).  `Props/C01.lean` proves that the clean-up functions *interpreted from
these facts* are the model's `filterSoma` / `filterSomaSubset`, and that the Python slice of the fall-back rows is `dropLast`.

Facts (semantic, not a fingerprint: locals may be renamed, independent statements reordered, logging added):

* `TreeNeuron._clear_temp_attr` (core/skeleton.py) and `_subset_treeneuron` (morpho/subset.py), the block that cleans the
  stored soma.  Per block:
    - `skipsCallable` – the guard excludes a stored detection function (`not callable(<x>._soma)`);
    - `skipsNone`     – the guard excludes `None`;
    - `listFiltered`  – in the `is_iterable(<x>._soma)` branch `_soma` is re-bound to a value that is (built from) the stored
                        list indexed by an `np.isin(<list>, <… node_id …>)` mask;
    - `listEmptyReset`– … and is reset to `None` when nothing is left (`if len(…) == 0: … = None` or `… if len(…) else None`);
    - `scalarAbsentReset` – the other branch tests `<x>._soma not in <… node_id …>` and assigns `None`.
* `resample_skeleton` (sampling/resampling.py):
    - `keepSlice` – the slice of `seg` inside `…node_id.isin(seg[<slice>])` in the `except ValueError: if skip_errors:` branch;
    - `keepContinues` – that branch ends in `continue` (the id counter is not advanced);
    - `dedupKeepsFirst` – `new_nodes[~new_nodes.node_id.duplicated()]` with the default `keep='first'`;
    - `pinsToNewIds` – the soma is re-bound through a map onto `new_nodes.node_id.values[ix]`;
    - `noSomaSetsNone` – otherwise `x.soma = None`;
    - `endsWithClear` – the last statement before `return x` is an argument-free `x._clear_temp_attr()`.

Anything that is not found in the expected shape raises (a broken tie is reported, never guessed)."""
import ast
from pathlib import Path

PROPS = ['C01']


def _func(tree, name, cls=None):
    body = tree.body
    if cls:
        for n in body:
            if isinstance(n, ast.ClassDef) and n.name == cls:
                body = n.body
                break
        else:
            raise ValueError(f'class {cls} not found')
    hits = [n for n in body if isinstance(n, ast.FunctionDef) and n.name == name]
    if not hits:
        raise ValueError(f'function {name} not found')
    return hits[-1]


def _is_soma_attr(e):
    return isinstance(e, ast.Attribute) and e.attr in ('_soma', 'soma') and isinstance(e.value, ast.Name)


def _mentions(e, pred):
    return any(pred(n) for n in ast.walk(e))


def _mentions_soma(e):
    return _mentions(e, _is_soma_attr)


def _mentions_node_id(e):
    return _mentions(e, lambda n: isinstance(n, ast.Attribute) and n.attr == 'node_id')


def _is_none(e):
    return isinstance(e, ast.Constant) and e.value is None or \
        (isinstance(e, ast.Call) and isinstance(e.func, ast.Name) and e.func.id == 'type' and e.args and _is_none(e.args[0]))


def _is_isin(e):
    return isinstance(e, ast.Call) and isinstance(e.func, ast.Attribute) and e.func.attr == 'isin'


def _assign_targets(stmt):
    if isinstance(stmt, ast.Assign):
        return stmt.targets, stmt.value
    if isinstance(stmt, ast.AnnAssign) and stmt.value is not None:
        return [stmt.target], stmt.value
    return [], None


def _guard_facts(test):
    """which stored values the guard of the soma block lets through"""
    conj = test.values if isinstance(test, ast.BoolOp) and isinstance(test.op, ast.And) else [test]
    skips_callable = skips_none = False
    for c in conj:
        # not callable(x._soma)
        if isinstance(c, ast.UnaryOp) and isinstance(c.op, ast.Not) and isinstance(c.operand, ast.Call) \
                and isinstance(c.operand.func, ast.Name) and c.operand.func.id == 'callable' and _mentions_soma(c.operand):
            skips_callable = True
        # not isinstance(x._soma, type(None))
        if isinstance(c, ast.UnaryOp) and isinstance(c.op, ast.Not) and isinstance(c.operand, ast.Call) \
                and isinstance(c.operand.func, ast.Name) and c.operand.func.id == 'isinstance' and _mentions_soma(c.operand) \
                and len(c.operand.args) == 2 and _is_none(c.operand.args[1]):
            skips_none = True
        # x._soma is not None
        if isinstance(c, ast.Compare) and len(c.ops) == 1 and isinstance(c.ops[0], ast.IsNot) and _mentions_soma(c.left) \
                and _is_none(c.comparators[0]):
            skips_none = True
    return skips_callable, skips_none


def _find_soma_block(fn):
    """the `if <guard on _soma>:` whose body starts with `if is_iterable(<x>._soma): … elif/else …`"""
    for n in ast.walk(fn):
        if isinstance(n, ast.If) and _mentions_soma(n.test):
            for inner in n.body:
                if isinstance(inner, ast.If) and isinstance(inner.test, ast.Call) and \
                        getattr(inner.test.func, 'attr', getattr(inner.test.func, 'id', '')) == 'is_iterable' and _mentions_soma(inner.test):
                    return n, inner
    raise ValueError(f'{fn.name}: soma clean-up block not found')


def _id_names(fn):
    """local names bound to an expression over the id column (`ids = x.nodes.node_id.values`)"""
    out = set()
    for st in ast.walk(fn):
        targets, value = _assign_targets(st)
        for t in targets:
            if isinstance(t, ast.Name) and value is not None and _mentions_node_id(value) and not _is_isin(value):
                out.add(t.id)
    return out


def _list_branch_facts(stmts, idnames=frozenset()):
    """data flow inside the `is_iterable` branch: is `_soma` re-bound to the isin-filtered list, and reset when empty?"""
    masks, filtered, derived = set(), set(), set()     # names bound to an isin mask / to a filtered list / to the stored list
    list_filtered = empty_reset = False

    def over_ids(e):
        return _mentions_node_id(e) or _mentions(e, lambda n: isinstance(n, ast.Name) and n.id in idnames)

    def is_mask(e):
        return (_is_isin(e) and len(e.args) >= 2 and over_ids(e.args[1])
                and (_mentions_soma(e.args[0]) or _mentions(e.args[0], lambda n: isinstance(n, ast.Name) and n.id in derived))) \
            or (isinstance(e, ast.Name) and e.id in masks)

    def is_filtered(e):
        if isinstance(e, ast.Name) and e.id in filtered:
            return True
        if isinstance(e, ast.Subscript) and is_mask(e.slice):
            v = e.value
            return _mentions_soma(v) or _mentions(v, lambda n: isinstance(n, ast.Name) and n.id in derived | filtered)
        return False

    def len_of_filtered(e):
        return isinstance(e, ast.Call) and isinstance(e.func, ast.Name) and e.func.id == 'len' and e.args and \
            (is_filtered(e.args[0]) or (_is_soma_attr(e.args[0]) and list_filtered))

    for st in stmts:
        targets, value = _assign_targets(st)
        for t in targets:
            if isinstance(t, ast.Name):
                if is_mask(value):
                    masks.add(t.id)
                elif is_filtered(value):
                    filtered.add(t.id)
                elif _mentions_soma(value):
                    derived.add(t.id)
            if _is_soma_attr(t):
                if isinstance(value, ast.IfExp):
                    if is_filtered(value.body) and len_of_filtered(value.test) and _is_none(value.orelse):
                        list_filtered = empty_reset = True
                    elif is_filtered(value.body):
                        list_filtered = True
                elif is_filtered(value):
                    list_filtered = True
        if isinstance(st, ast.If):
            t = st.test
            # if len(<filtered>) == 0:  <x>._soma = None      /   if not len(<filtered>): …
            zero = (isinstance(t, ast.Compare) and len(t.ops) == 1 and isinstance(t.ops[0], ast.Eq) and len_of_filtered(t.left)
                    and isinstance(t.comparators[0], ast.Constant) and t.comparators[0].value == 0) or \
                   (isinstance(t, ast.UnaryOp) and isinstance(t.op, ast.Not) and len_of_filtered(t.operand))
            if zero and any(any(_is_soma_attr(x) for x in _assign_targets(b)[0]) and _is_none(_assign_targets(b)[1]) for b in st.body):
                empty_reset = True
    return list_filtered, empty_reset


def _scalar_branch_facts(orelse, idnames=frozenset()):
    """`elif <x>._soma not in <… node_id …>: <x>.soma = None`"""
    for st in orelse:
        if isinstance(st, ast.If):
            t = st.test
            if isinstance(t, ast.Compare) and len(t.ops) == 1 and isinstance(t.ops[0], ast.NotIn) and _mentions_soma(t.left) \
                    and (_mentions_node_id(t.comparators[0])
                         or _mentions(t.comparators[0], lambda n: isinstance(n, ast.Name) and n.id in idnames)):
                if any(any(_is_soma_attr(x) for x in _assign_targets(b)[0]) and _is_none(_assign_targets(b)[1]) for b in st.body):
                    return True
    return False


def cleanup_facts(fn):
    outer, inner = _find_soma_block(fn)
    sc, sn = _guard_facts(outer.test)
    idn = _id_names(fn)
    lf, er = _list_branch_facts(inner.body, idn)
    sr = _scalar_branch_facts(inner.orelse, idn)
    return dict(skipsCallable=sc, skipsNone=sn, listFiltered=lf, listEmptyReset=er, scalarAbsentReset=sr)


# ------------------------------------------------------------------------------------------------ resample_skeleton
def _const_int(e):
    if e is None:
        return None
    if isinstance(e, ast.Constant) and isinstance(e.value, int):
        return e.value
    if isinstance(e, ast.UnaryOp) and isinstance(e.op, ast.USub) and isinstance(e.operand, ast.Constant):
        return -e.operand.value
    raise ValueError(f'slice bound is not an integer literal: {ast.unparse(e)}')


def resample_facts(fn):
    out = {}
    # the `except ValueError` handler of the interpolation
    handlers = [h for n in ast.walk(fn) if isinstance(n, ast.Try) for h in n.handlers
                if h.type is not None and 'ValueError' in ast.unparse(h.type)]
    if not handlers:
        raise ValueError('resample_skeleton: no `except ValueError` handler')
    keep = None
    for h in handlers:
        for st in h.body:
            if isinstance(st, ast.If) and isinstance(st.test, ast.Name) and st.test.id == 'skip_errors':
                keep = st
    if keep is None:
        raise ValueError('resample_skeleton: `if skip_errors:` not found in the handler')
    isins = [n for n in ast.walk(keep) if _is_isin(n) and n.args]
    if len(isins) != 1:
        raise ValueError('resample_skeleton: expected exactly one isin(...) in the skip_errors branch')
    a = isins[0].args[0]
    if isinstance(a, ast.Name):
        lo = hi = None
        seg_name = a.id
    elif isinstance(a, ast.Subscript) and isinstance(a.slice, ast.Slice) and isinstance(a.value, ast.Name) and a.slice.step is None:
        lo, hi = _const_int(a.slice.lower), _const_int(a.slice.upper)
        seg_name = a.value.id
    else:
        raise ValueError(f'resample_skeleton: unexpected isin argument {ast.unparse(a)}')
    # it must be the loop variable of the segment loop
    loops = [n for n in ast.walk(fn) if isinstance(n, ast.For) and 'small_segments' in ast.unparse(n.iter)]
    if not loops or seg_name not in [x.id for x in ast.walk(loops[0].target) if isinstance(x, ast.Name)]:
        raise ValueError('resample_skeleton: the fall-back rows are not selected by the segment loop variable')
    out['keepSlice'] = (lo, hi)
    out['keepContinues'] = isinstance(keep.body[-1], ast.Continue)
    # de-duplication
    dd = [n for n in ast.walk(fn) if isinstance(n, ast.Call) and isinstance(n.func, ast.Attribute) and n.func.attr == 'duplicated'
          and 'node_id' in ast.unparse(n.func.value)]
    if len(dd) != 1:
        raise ValueError('resample_skeleton: de-duplication not found')
    kw = {k.arg: ast.unparse(k.value) for k in dd[0].keywords}
    out['dedupKeepsFirst'] = (not dd[0].args) and kw.get('keep', "'first'") == "'first'"
    # soma pin: `if x.soma is not None:` … x._soma = [<map>[n] for n in x.soma] / <map>[x.soma]; else x.soma = None
    pins = None
    for n in ast.walk(fn):
        if isinstance(n, ast.If) and isinstance(n.test, ast.Compare) and len(n.test.ops) == 1 and isinstance(n.test.ops[0], ast.IsNot) \
                and _is_soma_attr(n.test.left) and _is_none(n.test.comparators[0]):
            pins = n
            break
    if pins is None:
        raise ValueError('resample_skeleton: soma re-attachment block not found')
    maps = {}          # name -> is it a dict(zip(…, new_nodes.node_id.values[ix]))
    for st in ast.walk(pins):
        targets, value = _assign_targets(st)
        for t in targets:
            if isinstance(t, ast.Name) and isinstance(value, ast.Call) and ast.unparse(value.func) == 'dict':
                src = ast.unparse(value)
                maps[t.id] = 'new_nodes.node_id.values[' in src
    soma_assigns = [(_assign_targets(st)) for st in ast.walk(pins) if any(_is_soma_attr(t) for t in _assign_targets(st)[0])]
    in_body = [v for ts, v in soma_assigns if any(v is x or any(v is y for y in ast.walk(b)) for b in pins.body for x in ast.walk(b))]
    through_map = [v for v in in_body if any(isinstance(s, ast.Subscript) and isinstance(s.value, ast.Name) and maps.get(s.value.id)
                                             for s in ast.walk(v))]
    out['pinsToNewIds'] = bool(in_body) and len(through_map) == len(in_body)
    out['noSomaSetsNone'] = any(any(_is_soma_attr(t) for t in _assign_targets(st)[0]) and _is_none(_assign_targets(st)[1])
                                for st in pins.orelse)
    # last statement before `return x`
    body = [s for s in fn.body if not (isinstance(s, ast.Expr) and isinstance(s.value, ast.Constant))]
    if not isinstance(body[-1], ast.Return):
        raise ValueError('resample_skeleton: does not end in a return')
    last = body[-2]
    out['endsWithClear'] = (isinstance(last, ast.Expr) and isinstance(last.value, ast.Call) and isinstance(last.value.func, ast.Attribute)
                            and last.value.func.attr == '_clear_temp_attr' and not last.value.args and not last.value.keywords)
    return out


# ------------------------------------------------------------------------------------------------ output
def _b(v):
    return 'true' if v else 'false'


def _oi(v):
    return 'none' if v is None else f'some ({v})'


def generate(repo: Path):
    repo = Path(repo)
    sk = ast.parse((repo / 'navis/core/skeleton.py').read_text())
    sb = ast.parse((repo / 'navis/morpho/subset.py').read_text())
    rs = ast.parse((repo / 'navis/sampling/resampling.py').read_text())
    clear = cleanup_facts(_func(sk, '_clear_temp_attr', 'TreeNeuron'))
    sub = cleanup_facts(_func(sb, '_subset_treeneuron'))
    res = resample_facts(_func(rs, 'resample_skeleton'))
    order = ['skipsCallable', 'skipsNone', 'listFiltered', 'listEmptyReset', 'scalarAbsentReset']
    L = ['/- GENERATED by translator/gen_somaspec.py from navis/core/skeleton.py (TreeNeuron._clear_temp_attr),',
         '   navis/morpho/subset.py (_subset_treeneuron) and navis/sampling/resampling.py (resample_skeleton).',
         '   Do not edit: regenerated on every `./check C01`. -/',
         'namespace Navis.Gen.SomaSpec',
         '',
         '/-- What a soma clean-up block does with the stored `_soma` (see translator/gen_somaspec.py). -/',
         'structure CleanUp where',
         '  skipsCallable : Bool',
         '  skipsNone : Bool',
         '  listFiltered : Bool',
         '  listEmptyReset : Bool',
         '  scalarAbsentReset : Bool',
         'deriving Repr, DecidableEq',
         '',
         '/-- the block at the end of `TreeNeuron._clear_temp_attr` -/',
         'def clearTemp : CleanUp := ⟨' + ', '.join(_b(clear[k]) for k in order) + '⟩',
         '',
         '/-- the block in `_subset_treeneuron` -/',
         'def subsetTree : CleanUp := ⟨' + ', '.join(_b(sub[k]) for k in order) + '⟩',
         '',
         '/-- `x.nodes.node_id.isin(seg[<lower>:<upper>])` in the `skip_errors` fall-back of `resample_skeleton` -/',
         f'def keepSlice : Option Int × Option Int := ({_oi(res["keepSlice"][0])}, {_oi(res["keepSlice"][1])})',
         f'def keepContinues : Bool := {_b(res["keepContinues"])}',
         f'def dedupKeepsFirst : Bool := {_b(res["dedupKeepsFirst"])}',
         f'def pinsToNewIds : Bool := {_b(res["pinsToNewIds"])}',
         f'def noSomaSetsNone : Bool := {_b(res["noSomaSetsNone"])}',
         f'def endsWithClear : Bool := {_b(res["endsWithClear"])}',
         '',
         'end Navis.Gen.SomaSpec',
         '']
    meta = dict(clearTemp=clear, subsetTree=sub, resample={k: (list(v) if isinstance(v, tuple) else v) for k, v in res.items()},
                source=['navis/core/skeleton.py', 'navis/morpho/subset.py', 'navis/sampling/resampling.py'])
    return 'SomaSpec.lean', '\n'.join(L), meta
