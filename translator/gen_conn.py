"""Translator for C20: re-extract the declarative facts of navis' connectivity code from the *current* source
(`navis/connectivity/adjacency.py`, `navis/connectivity/matrix_utils.py`, `navis/graph/converters.py`; read as
text, walked with `ast`; nothing is imported from navis) and emit them as Lean definitions (`Gen/Conn.lean`).
`Props/C20.lean` proves that they coincide with what the Lean model (`Model/Conn.lean`, `Model/ConnViews.lean`)
hard-wires, so that an edit of

* the `__OTHER__` constant, the `type` codes that make a row post-/presynaptic, which dict each branch fills and
  how (`setdefault(..).append` vs. last-writer assignment), the key / value stored, the columns read from a row;
* `edges()`: which dicts are joined, the defaults for an unknown partner, the two `include_other` tests (which
  variable is tested, `is None`, on which loop level), the order of the yielded tuple, the defaults of `include_other`;
* `to_adjacency`: index source, when `__OTHER__` is appended, cell dtype, which tuple positions index the cell, the increment;
* `to_digraph` / `to_multidigraph`: grouping key, per-edge row layout, the column names, `weight`, edge attributes,
  whether a `key=` is passed to `MultiDiGraph.add_edge`, whether `include_other` is forwarded to `edges()`;
* `group_matrix`: the permissible methods, the method → pandas aggregation of the row branch and of the column
  branch, the defaults, `groups.get(s, s)`, the `drop_ungrouped` filter, the `str` conversions, the copy;
* `network2nx`: the comparison operator of the threshold filter and the thresholded column

makes a theorem stop checking.  Local variable names are normalised to roles (SRC, TGT, …), conjunct order and
statement order of independent statements are irrelevant: a harmless refactor keeps the tie.
Anything the extractor cannot find in the expected shape raises (a broken tie is reported, never guessed)."""
import ast
import json
from pathlib import Path

PROPS = ['C20']


# ------------------------------------------------------------------------------------------------ helpers
def _func(tree, name, cls=None):
    body = tree.body
    if cls:
        for n in body:
            if isinstance(n, ast.ClassDef) and n.name == cls:
                body = n.body
                break
        else:
            raise ValueError(f'class {cls} not found')
    for n in body:
        if isinstance(n, ast.FunctionDef) and n.name == name:
            return n
    raise ValueError(f'function {cls + "." if cls else ""}{name} not found')


def _self_attr(n):
    """`self.<attr>` -> attr"""
    if isinstance(n, ast.Attribute) and isinstance(n.value, ast.Name) and n.value.id == 'self':
        return n.attr
    return None


def _attr_of(n, base):
    """`<base>.<attr>` -> attr"""
    if isinstance(n, ast.Attribute) and isinstance(n.value, ast.Name) and n.value.id == base:
        return n.attr
    return None


class _Rename(ast.NodeTransformer):
    def __init__(self, m):
        self.m = m

    def visit_Name(self, n):
        return ast.copy_location(ast.Name(id=self.m.get(n.id, n.id), ctx=n.ctx), n)


def _norm(n, roles):
    return ast.unparse(_Rename(roles).visit(ast.parse(ast.unparse(n), mode='eval').body))


def _conjunct(p, roles):
    """Normal form of one conjunct of an `include_other` test.  The equivalent ways of saying "this partner is
    unknown" (`X_NODE is None`, `X_NODE == None`, `X is OTHER`, `X == OTHER`) and of saying "not requested"
    (`not include_other`, `include_other is False`, `include_other == False`) collapse; anything else
    (truthiness of the node id, …) stays as source text."""
    t = _norm(p, roles)
    for side in ('SRC', 'TGT'):
        if t in (f'{side}_NODE is None', f'{side}_NODE == None', f'{side} is OTHER', f'{side} == OTHER', f'OTHER == {side}',
                 f'None is {side}_NODE'):
            return f'UNKNOWN({side})'
    if t in ('not include_other', 'include_other is False', 'include_other == False'):
        return 'NOT_REQUESTED'
    return t


def _conjuncts(test, roles):
    parts = test.values if isinstance(test, ast.BoolOp) and isinstance(test.op, ast.And) else [test]
    return sorted(_conjunct(p, roles) for p in parts)


def _names(t):
    if isinstance(t, ast.Tuple) and all(isinstance(e, ast.Name) for e in t.elts):
        return [e.id for e in t.elts]
    raise ValueError(f'expected a tuple of names, got {ast.unparse(t)}')


def _default_of(fn, arg):
    a = fn.args
    pos = a.posonlyargs + a.args
    for p, d in zip(pos[len(pos) - len(a.defaults):], a.defaults):
        if p.arg == arg:
            return ast.literal_eval(d)
    for p, d in zip(a.kwonlyargs, a.kw_defaults):
        if p.arg == arg and d is not None:
            return ast.literal_eval(d)
    raise ValueError(f'{fn.name}: no default for `{arg}`')


def _edges_call(loop, who):
    """`for … in self.edges(<x>)` -> does it forward `include_other`?"""
    it = loop.iter
    if not (isinstance(it, ast.Call) and _self_attr(it.func) == 'edges'):
        raise ValueError(f'{who}: loop does not iterate over self.edges(...)')
    args = [a for a in it.args] + [k.value for k in it.keywords if k.arg == 'include_other']
    return len(args) == 1 and isinstance(args[0], ast.Name) and args[0].id == 'include_other'


def _edge_loop(fn, who):
    loops = [n for n in ast.walk(fn) if isinstance(n, ast.For) and isinstance(n.iter, ast.Call)
             and _self_attr(n.iter.func) == 'edges']
    if len(loops) != 1:
        raise ValueError(f'{who}: expected exactly one loop over self.edges(...), found {len(loops)}')
    return loops[0]


def _other_guard(fn, who, how):
    """The `if <test>:` under which `__OTHER__` is added (`index.append(OTHER)` / `g.add_node(OTHER, …)`)."""
    for n in ast.walk(fn):
        if isinstance(n, ast.If):
            for c in ast.walk(ast.Module(body=n.body, type_ignores=[])):
                if isinstance(c, ast.Call) and isinstance(c.func, ast.Attribute) and c.func.attr == how \
                        and c.args and isinstance(c.args[0], ast.Name) and c.args[0].id == 'OTHER':
                    return ast.unparse(n.test)
    # unconditional?
    for c in ast.walk(fn):
        if isinstance(c, ast.Call) and isinstance(c.func, ast.Attribute) and c.func.attr == how \
                and c.args and isinstance(c.args[0], ast.Name) and c.args[0].id == 'OTHER':
            return 'True'
    return 'False'


# ------------------------------------------------------------------------------------------------ adjacency.py
def add_neuron_facts(tree):
    fn = _func(tree, 'add_neuron', 'NeuronConnector')
    nrn = fn.args.args[1].arg
    # self.neurons[<nrn>.<key>] = nrn
    key = None
    for n in ast.walk(fn):
        if isinstance(n, ast.Assign) and len(n.targets) == 1 and isinstance(n.targets[0], ast.Subscript) \
                and _self_attr(n.targets[0].value) == 'neurons':
            key = _attr_of(n.targets[0].slice, nrn)
    if key is None:
        raise ValueError('add_neuron: `self.neurons[nrn.<key>] = nrn` not found')
    # if nrn.connectors is None: … return
    none_guard = False
    for n in fn.body:
        if isinstance(n, ast.If) and isinstance(n.test, ast.Compare) and isinstance(n.test.ops[0], ast.Is) \
                and _attr_of(n.test.left, nrn) == 'connectors' and isinstance(n.test.comparators[0], ast.Constant) \
                and n.test.comparators[0].value is None and any(isinstance(s, ast.Return) for s in n.body):
            none_guard = True
    loops = [n for n in fn.body if isinstance(n, ast.For)]
    if len(loops) != 1:
        raise ValueError('add_neuron: expected exactly one row loop')
    loop = loops[0]
    it = loop.iter
    if not (isinstance(it, ast.Call) and isinstance(it.func, ast.Attribute)
            and _attr_of(it.func.value, nrn) == 'connectors'):
        raise ValueError(f'add_neuron: row loop iterates over {ast.unparse(it)}')
    iter_how = it.func.attr
    row = loop.target.id if isinstance(loop.target, ast.Name) else None
    if row is None:
        raise ValueError('add_neuron: row loop target is not a single name')
    chains = [s for s in loop.body if isinstance(s, ast.If)]
    if len(chains) != 1:
        raise ValueError('add_neuron: expected exactly one if/elif chain on the row type')

    def type_lit(test):
        if isinstance(test, ast.Compare) and len(test.ops) == 1 and isinstance(test.ops[0], ast.Eq):
            l, r = test.left, test.comparators[0]
            if _attr_of(l, row) and isinstance(r, ast.Constant):
                return _attr_of(l, row), r.value
            if _attr_of(r, row) and isinstance(l, ast.Constant):
                return _attr_of(r, row), l.value
        raise ValueError(f'add_neuron: unrecognised type test `{ast.unparse(test)}`')

    def writes(body):
        out = []
        for st in body:
            for n in ast.walk(st):
                # self.D.setdefault(key, []).append(value)
                if isinstance(n, ast.Call) and isinstance(n.func, ast.Attribute) and n.func.attr == 'append' \
                        and isinstance(n.func.value, ast.Call) and isinstance(n.func.value.func, ast.Attribute) \
                        and n.func.value.func.attr == 'setdefault' and _self_attr(n.func.value.func.value):
                    sd = n.func.value
                    if not (len(sd.args) == 2 and isinstance(sd.args[1], ast.List) and not sd.args[1].elts):
                        raise ValueError('add_neuron: setdefault default is not []')
                    out.append((_self_attr(sd.func.value), 'append', sd.args[0], n.args[0]))
                # self.D[key] = value
                if isinstance(n, ast.Assign) and len(n.targets) == 1 and isinstance(n.targets[0], ast.Subscript) \
                        and _self_attr(n.targets[0].value) in ('conn_inputs', 'conn_outputs'):
                    out.append((_self_attr(n.targets[0].value), 'assign', n.targets[0].slice, n.value))
        return out

    branches, type_col, key_cols, val_fields = [], set(), set(), set()
    st = chains[0]
    while True:
        col, lit = type_lit(st.test)
        type_col.add(col)
        ws = writes(st.body)
        if len(ws) != 1:
            raise ValueError(f'add_neuron: branch `{ast.unparse(st.test)}` writes {len(ws)} dict entries (expected 1)')
        d, how, k, v = ws[0]
        if type(lit) is not int:
            raise ValueError(f'add_neuron: type literal {lit!r} is not an int')
        branches.append((lit, d, how))
        key_cols.add(_attr_of(k, row) or ast.unparse(k))
        if not (isinstance(v, ast.Tuple) and len(v.elts) == 2):
            raise ValueError(f'add_neuron: stored value `{ast.unparse(v)}` is not a pair')
        val_fields.add((_attr_of(v.elts[0], nrn) or ast.unparse(v.elts[0]), _attr_of(v.elts[1], row) or ast.unparse(v.elts[1])))
        if len(st.orelse) == 1 and isinstance(st.orelse[0], ast.If):
            st = st.orelse[0]
            continue
        if st.orelse and writes(st.orelse):
            raise ValueError('add_neuron: the else branch of the type chain writes to the dicts')
        break
    if len(type_col) != 1 or len(key_cols) != 1 or len(val_fields) != 1:
        raise ValueError(f'add_neuron: branches disagree on columns: {type_col} {key_cols} {val_fields}')
    return dict(neuronKey=key, noneGuard=none_guard, iterHow=iter_how, typeColumn=type_col.pop(),
                keyColumn=key_cols.pop(), valueFields=list(val_fields.pop()), branches=branches)


def edges_facts(tree):
    fn = _func(tree, 'edges', 'NeuronConnector')
    outer = [n for n in fn.body if isinstance(n, ast.For)]
    if len(outer) != 1:
        raise ValueError('edges: expected exactly one outer loop')
    outer = outer[0]
    if not isinstance(outer.target, ast.Name):
        raise ValueError('edges: outer loop target is not a name')
    roles = {outer.target.id: 'CID'}
    key_sources = sorted({_self_attr(n) for n in ast.walk(outer.iter) if _self_attr(n)})
    key_ops = sorted({n.func.attr for n in ast.walk(outer.iter) if isinstance(n, ast.Call) and isinstance(n.func, ast.Attribute)}
                     | {type(n.op).__name__ for n in ast.walk(outer.iter) if isinstance(n, ast.BinOp)})
    src = dict(dict=None)
    inner = None
    src_skip = tgt_skip = None

    def get_call(v):
        if isinstance(v, ast.Call) and isinstance(v.func, ast.Attribute) and v.func.attr == 'get' and _self_attr(v.func.value) \
                and len(v.args) == 2:
            return _self_attr(v.func.value), v.args[0], v.args[1]
        raise ValueError(f'edges: expected self.<dict>.get(id, default), got `{ast.unparse(v)}`')

    def skip(st, level):
        if not (isinstance(st, ast.If) and len(st.body) == 1 and isinstance(st.body[0], ast.Continue) and not st.orelse):
            raise ValueError(f'edges: unrecognised statement on the {level} level: `{ast.unparse(st)[:60]}`')
        return _conjuncts(st.test, roles)

    for st in outer.body:
        if isinstance(st, ast.Assign) and isinstance(st.targets[0], ast.Tuple):
            a, b = _names(st.targets[0])
            roles[a], roles[b] = 'SRC', 'SRC_NODE'
            d, k, dflt = get_call(st.value)
            if _norm(k, roles) != 'CID' or not isinstance(dflt, ast.Tuple):
                raise ValueError('edges: source lookup not recognised')
            src = dict(dict=d, default=[ast.unparse(e) for e in dflt.elts])
        elif isinstance(st, ast.If):
            if src_skip is not None or inner is not None:
                raise ValueError('edges: second test on the outer level')
            src_skip = skip(st, 'outer')
        elif isinstance(st, ast.For):
            if inner is not None:
                raise ValueError('edges: two inner loops')
            inner = st
        elif isinstance(st, ast.Expr) and isinstance(st.value, ast.Constant):
            pass
        else:
            raise ValueError(f'edges: unrecognised statement `{ast.unparse(st)[:60]}`')
    if inner is None or src['dict'] is None:
        raise ValueError('edges: join shape not recognised')
    a, b = _names(inner.target)
    roles[a], roles[b] = 'TGT', 'TGT_NODE'
    d, k, dflt = get_call(inner.iter)
    if _norm(k, roles) != 'CID' or not (isinstance(dflt, ast.List) and len(dflt.elts) == 1 and isinstance(dflt.elts[0], ast.Tuple)):
        raise ValueError('edges: target lookup not recognised')
    tgt = dict(dict=d, default=[ast.unparse(e) for e in dflt.elts[0].elts])
    yielded = None
    for st in inner.body:
        if isinstance(st, ast.If):
            if tgt_skip is not None or yielded is not None:
                raise ValueError('edges: second test / test after the yield on the inner level')
            tgt_skip = skip(st, 'inner')
        elif isinstance(st, ast.Expr) and isinstance(st.value, ast.Yield):
            y = st.value.value
            if not (isinstance(y, ast.Call) and isinstance(y.func, ast.Name) and not y.keywords):
                raise ValueError('edges: yield is not a positional constructor call')
            yielded = (y.func.id, [_norm(x, roles) for x in y.args])
        else:
            raise ValueError(f'edges: unrecognised inner statement `{ast.unparse(st)[:60]}`')
    if yielded is None:
        raise ValueError('edges: no yield')
    # Edge NamedTuple field order
    fields = None
    for n in tree.body:
        if isinstance(n, ast.ClassDef) and n.name == yielded[0]:
            fields = [s.target.id for s in n.body if isinstance(s, ast.AnnAssign)]
    if fields is None:
        raise ValueError(f'edges: class {yielded[0]} not found')
    return dict(keySources=key_sources, keyOps=key_ops, srcDict=src['dict'], srcDefault=src['default'],
                srcSkip=src_skip or [], tgtDict=tgt['dict'], tgtDefault=tgt['default'], tgtSkip=tgt_skip or [],
                yieldArgs=yielded[1], edgeFields=fields)


def adjacency_facts(tree):
    fn = _func(tree, 'to_adjacency', 'NeuronConnector')
    loop = _edge_loop(fn, 'to_adjacency')
    tnames = _names(loop.target)
    aug = [n for n in ast.walk(loop) if isinstance(n, ast.AugAssign)]
    if len(aug) != 1:
        raise ValueError('to_adjacency: expected exactly one augmented assignment in the edge loop')
    aug = aug[0]
    t = aug.target
    if not (isinstance(t, ast.Subscript) and isinstance(t.value, ast.Attribute) and t.value.attr in ('loc', 'at')
            and isinstance(t.slice, ast.Tuple) and len(t.slice.elts) == 2 and isinstance(aug.value, ast.Constant)):
        raise ValueError(f'to_adjacency: cell update `{ast.unparse(aug)}` not recognised')
    r, c = _names(t.slice)
    if [x for x in tnames if x != '_'].count(r) != 1 or [x for x in tnames if x != '_'].count(c) != 1:
        raise ValueError('to_adjacency: cell indices are not loop variables')
    index_src = None
    for n in ast.walk(fn):
        if isinstance(n, ast.Assign) and isinstance(n.targets[0], ast.Name) and n.targets[0].id == 'index':
            attrs = sorted({_self_attr(x) for x in ast.walk(n.value) if _self_attr(x)})
            index_src = (attrs, sorted(x.func.id for x in ast.walk(n.value) if isinstance(x, ast.Call) and isinstance(x.func, ast.Name)))
    if index_src is None:
        raise ValueError('to_adjacency: `index = …` not found')
    dtype = None
    for n in ast.walk(fn):
        if isinstance(n, ast.Call) and isinstance(n.func, ast.Attribute) and n.func.attr == 'zeros':
            dt = n.args[1] if len(n.args) > 1 else next((k.value for k in n.keywords if k.arg == 'dtype'), None)
            dtype = ast.unparse(dt).split('.')[-1].strip('\'"') if dt is not None else 'float64'
    if dtype is None:
        raise ValueError('to_adjacency: np.zeros(...) not found')
    return dict(tuplePos=[tnames.index(r), tnames.index(c)], op=type(aug.op).__name__, increment=aug.value.value,
                indexAttrs=index_src[0], indexFuncs=index_src[1], otherGuard=_other_guard(fn, 'to_adjacency', 'append'),
                dtype=dtype, forwardsIO=_edges_call(loop, 'to_adjacency'), default=_default_of(fn, 'include_other'))


def digraph_facts(tree):
    fn = _func(tree, 'to_digraph', 'NeuronConnector')
    loop = _edge_loop(fn, 'to_digraph')
    tnames = _names(loop.target)
    sd = [n for n in ast.walk(loop) if isinstance(n, ast.Call) and isinstance(n.func, ast.Attribute) and n.func.attr == 'append'
          and isinstance(n.func.value, ast.Call) and isinstance(n.func.value.func, ast.Attribute) and n.func.value.func.attr == 'setdefault']
    if len(sd) != 1:
        raise ValueError('to_digraph: `edges.setdefault(key, []).append(row)` not found')
    key = _names(sd[0].func.value.args[0])
    rowv = sd[0].args[0]
    if not isinstance(rowv, (ast.List, ast.Tuple)):
        raise ValueError('to_digraph: appended row is not a literal list')
    rown = [e.id for e in rowv.elts]
    headers = None
    for n in ast.walk(fn):
        if isinstance(n, ast.Assign) and isinstance(n.targets[0], ast.Name) and n.targets[0].id == 'headers' and isinstance(n.value, ast.Dict):
            headers = [k.value for k in n.value.keys]
    if headers is None:
        raise ValueError('to_digraph: `headers = {…}` not found')
    add = [n for n in ast.walk(fn) if isinstance(n, ast.Call) and isinstance(n.func, ast.Attribute) and n.func.attr == 'add_edge']
    if len(add) != 1:
        raise ValueError('to_digraph: expected one add_edge call')
    kws = {k.arg: k.value for k in add[0].keywords}
    w = kws.get('weight')
    if w is None:
        raise ValueError('to_digraph: add_edge has no weight')
    is_len = isinstance(w, ast.Call) and isinstance(w.func, ast.Name) and w.func.id == 'len' and len(w.args) == 1 and isinstance(w.args[0], ast.Name)
    is_shape0 = isinstance(w, ast.Subscript) and isinstance(w.value, ast.Attribute) and w.value.attr == 'shape' \
        and isinstance(w.value.value, ast.Name) and isinstance(w.slice, ast.Constant) and w.slice.value == 0
    if is_len or is_shape0:
        weight = 'len(rows)'        # `rows`, `df_tmp`, `df` all have one row per appended edge
        # … unless the table is de-duplicated / filtered on the way
        for n in ast.walk(fn):
            if isinstance(n, ast.Call) and isinstance(n.func, ast.Attribute) and n.func.attr in (
                    'drop_duplicates', 'unique', 'nunique', 'dropna', 'groupby', 'query'):
                weight = f'len(rows) after .{n.func.attr}()'
    else:
        weight = ast.unparse(w)
    pos_items = None
    for n in ast.walk(fn):
        if isinstance(n, ast.For) and isinstance(n.iter, ast.Call) and isinstance(n.iter.func, ast.Attribute) and n.iter.func.attr == 'items' \
                and isinstance(n.iter.func.value, ast.Name) and n.iter.func.value.id == 'edges':
            pos_items = [ast.unparse(a) for a in add[0].args]
            k = n.target.elts[0]
            if not (isinstance(k, ast.Tuple) and [e.id for e in k.elts] == pos_items):
                raise ValueError('to_digraph: add_edge endpoints are not the grouping key in order')
    if pos_items is None:
        raise ValueError('to_digraph: `for (src, tgt), rows in edges.items()` not found')
    return dict(keyPos=[tnames.index(x) for x in key], rowPos=[tnames.index(x) for x in rown], headers=headers,
                weight=weight, edgeAttrs=sorted(kws), otherGuard=_other_guard(fn, 'to_digraph', 'add_node'),
                forwardsIO=_edges_call(loop, 'to_digraph'), default=_default_of(fn, 'include_other'))


def multidigraph_facts(tree):
    fn = _func(tree, 'to_multidigraph', 'NeuronConnector')
    loop = _edge_loop(fn, 'to_multidigraph')
    tnames = _names(loop.target)
    add = [n for n in ast.walk(loop) if isinstance(n, ast.Call) and isinstance(n.func, ast.Attribute) and n.func.attr == 'add_edge']
    if len(add) != 1:
        raise ValueError('to_multidigraph: expected one add_edge call per edge')
    pos = [a.id for a in add[0].args]
    attrs = []
    for k in add[0].keywords:
        if k.arg is None:
            raise ValueError('to_multidigraph: **kwargs in add_edge')
        attrs.append((k.arg, tnames.index(k.value.id) if isinstance(k.value, ast.Name) and k.value.id in tnames else -1))
    return dict(endpointPos=[tnames.index(x) for x in pos], attrs=sorted(attrs), otherGuard=_other_guard(fn, 'to_multidigraph', 'add_node'),
                forwardsIO=_edges_call(loop, 'to_multidigraph'), default=_default_of(fn, 'include_other'))


# ------------------------------------------------------------------------------------------------ matrix_utils.py
def group_matrix_facts(tree):
    fn = _func(tree, 'group_matrix')
    methods = None
    for n in ast.walk(fn):
        if isinstance(n, ast.Assign) and isinstance(n.targets[0], ast.Name) and n.targets[0].id == 'PERMISSIBLE_METHODS':
            methods = list(ast.literal_eval(n.value))
    if methods is None:
        raise ValueError('group_matrix: PERMISSIBLE_METHODS not found')

    def branch(stmt, col):
        """`if <x>_groups:` body -> (method -> pandas aggregation, label expression, drop filter, transposes)"""
        aggs, label, drop = {}, None, None
        for n in ast.walk(stmt):
            if isinstance(n, ast.If) and isinstance(n.test, ast.Compare) and isinstance(n.test.left, ast.Name) and n.test.left.id == 'method' \
                    and isinstance(n.test.ops[0], ast.Eq) and isinstance(n.test.comparators[0], ast.Constant):
                calls = [c for s in n.body for c in ast.walk(s) if isinstance(c, ast.Call) and isinstance(c.func, ast.Attribute)
                         and isinstance(c.func.value, ast.Call) and isinstance(c.func.value.func, ast.Attribute) and c.func.value.func.attr == 'groupby']
                if len(calls) != 1:
                    raise ValueError(f'group_matrix: branch for {n.test.comparators[0].value} has no single groupby(...).<agg>()')
                gb = calls[0].func.value
                if calls[0].args or calls[0].keywords or len(gb.args) != 1 or gb.keywords or not isinstance(gb.args[0], ast.Constant) \
                        or gb.args[0].value != col:
                    raise ValueError(f'group_matrix: groupby call `{ast.unparse(calls[0])}` not recognised')
                aggs[n.test.comparators[0].value] = calls[0].func.attr
            # mat['row_groups'] = [row_groups.get(s, s) for s in mat.index]
            if isinstance(n, ast.Assign) and isinstance(n.targets[0], ast.Subscript) and isinstance(n.targets[0].slice, ast.Constant) \
                    and n.targets[0].slice.value == col and isinstance(n.value, ast.ListComp):
                lc = n.value
                v = lc.generators[0].target.id if isinstance(lc.generators[0].target, ast.Name) else '?'
                e = lc.elt
                if isinstance(e, ast.Call) and isinstance(e.func, ast.Attribute) and e.func.attr == 'get' \
                        and isinstance(e.func.value, ast.Name) and e.func.value.id == col and not e.keywords \
                        and all(isinstance(a, ast.Name) and a.id == v for a in e.args):
                    label = 'get(label, label)' if len(e.args) == 2 else 'get(label)'
                else:
                    label = _norm(e, {v: 'LABEL'})
                if 'index' not in ast.unparse(lc.generators[0].iter) or lc.generators[0].ifs:
                    label += ' over ' + ast.unparse(lc.generators[0].iter)
            # if drop_ungrouped: mat = mat.loc[mat.index.isin(row_groups.keys())]
            if isinstance(n, ast.If) and isinstance(n.test, ast.Name) and n.test.id == 'drop_ungrouped':
                rhs = n.body[0].value if len(n.body) == 1 and isinstance(n.body[0], ast.Assign) else None
                isin = [c for c in ast.walk(rhs) if isinstance(c, ast.Call) and isinstance(c.func, ast.Attribute) and c.func.attr == 'isin'] if rhs is not None else []
                negated = rhs is not None and any(isinstance(c, ast.UnaryOp) and isinstance(c.op, (ast.Invert, ast.Not)) for c in ast.walk(rhs))
                if len(isin) == 1 and not negated and 'index' in ast.unparse(isin[0].func.value) \
                        and any(isinstance(x, ast.Name) and x.id == col for x in ast.walk(isin[0].args[0])) \
                        and 'values' not in ast.unparse(isin[0].args[0]):
                    drop = 'keep index.isin(keys)'
                else:
                    drop = ast.unparse(rhs) if rhs is not None else '?'
        transposes = sum(1 for n in ast.walk(stmt) if isinstance(n, ast.Attribute) and n.attr == 'T')
        return aggs, label, drop, transposes

    rows = cols = None
    order = []
    for st in fn.body:
        if isinstance(st, ast.If) and isinstance(st.test, ast.Name) and st.test.id in ('row_groups', 'col_groups'):
            # the two format-conversion ifs have a BoolOp test; these two are the grouping branches
            if st.test.id == 'row_groups':
                rows = branch(st, 'row_groups'); order.append('rows')
            else:
                cols = branch(st, 'col_groups'); order.append('cols')
    if rows is None or cols is None:
        raise ValueError('group_matrix: row / column branch not found')
    src = ast.unparse(fn)
    fmt = []
    for st in fn.body:
        if isinstance(st, ast.If) and isinstance(st.test, ast.BoolOp) and isinstance(st.test.op, ast.And) and len(st.body) == 1 \
                and isinstance(st.body[0], ast.Assign) and isinstance(st.body[0].value, ast.DictComp):
            which = st.test.values[0].id if isinstance(st.test.values[0], ast.Name) else '?'
            det = ast.unparse(st.test.values[1]).replace(which, 'G')
            if 'is_iterable' in det and 'values()' in det and det.rstrip(')').endswith('[0]'):
                det = 'first value is iterable'
            dc = st.body[0].value
            inv = ast.unparse(dc).replace(which, 'G')
            if len(dc.generators) == 2 and isinstance(dc.key, ast.Name) and isinstance(dc.value, ast.Name) \
                    and dc.key.id == getattr(dc.generators[1].target, 'id', None) and dc.value.id == getattr(dc.generators[0].target, 'id', None) \
                    and not dc.generators[0].ifs and not dc.generators[1].ifs:
                inv = 'member -> group, later groups win'
            fmt.append((which, det, inv))
    # str() of labels and of both sides of the dicts
    strconv = []
    for n in ast.walk(fn):
        if isinstance(n, ast.Assign) and isinstance(n.targets[0], ast.Attribute) and n.targets[0].attr in ('index', 'columns') \
                and 'astype(str)' in ast.unparse(n.value) and n.targets[0].attr in ast.unparse(n.value):
            strconv.append('labels:' + n.targets[0].attr)
        if isinstance(n, ast.Assign) and isinstance(n.targets[0], ast.Name) and n.targets[0].id in ('row_groups', 'col_groups') \
                and isinstance(n.value, ast.DictComp) and len(n.value.generators) == 1 \
                and ast.unparse(n.value.key).startswith('str(') and ast.unparse(n.value.value).startswith('str('):
            strconv.append('dict:' + n.targets[0].id)
    strconv = sorted(set(strconv))
    copies = any(isinstance(n, ast.Assign) and isinstance(n.value, ast.Call) and isinstance(n.value.func, ast.Attribute)
                 and n.value.func.attr in ('copy', 'deepcopy') for n in ast.walk(fn))
    return dict(methods=methods, rowAgg=sorted(rows[0].items()), colAgg=sorted(cols[0].items()),
                rowLabel=rows[1] or '?', colLabel=cols[1] or '?', rowDrop=rows[2] or 'none', colDrop=cols[2] or 'none',
                rowTransposes=rows[3], colTransposes=cols[3], order=order, formats=sorted(fmt), strConversions=strconv,
                copies=copies,
                defaultMethod=_default_of(fn, 'method'), defaultDrop=_default_of(fn, 'drop_ungrouped'))


# ------------------------------------------------------------------------------------------------ converters.py
def network2nx_facts(tree):
    fn = _func(tree, 'network2nx')
    th = None
    for n in ast.walk(fn):
        if isinstance(n, ast.Compare) and isinstance(n.comparators[0], ast.Name) and n.comparators[0].id == 'threshold' \
                and isinstance(n.left, ast.Subscript):
            col = n.left.slice.elts[1].value if isinstance(n.left.slice, ast.Tuple) and isinstance(n.left.slice.elts[1], ast.Constant) else -1
            th = (type(n.ops[0]).__name__, col)
    if th is None:
        raise ValueError('network2nx: threshold filter not found')
    builder = sorted(n.func.attr for n in ast.walk(fn) if isinstance(n, ast.Call) and isinstance(n.func, ast.Attribute)
                     and n.func.attr.startswith('add_') and n.func.attr.endswith('_from'))
    cols = None
    for n in ast.walk(fn):
        if isinstance(n, ast.Subscript) and isinstance(n.slice, ast.List) and all(isinstance(e, ast.Constant) for e in n.slice.elts) \
                and len(n.slice.elts) == 3:
            cols = [e.value for e in n.slice.elts]
    melt = any(isinstance(n, ast.Attribute) and n.attr == 'melt' for n in ast.walk(fn))
    return dict(thresholdOp=th[0], thresholdColumn=th[1], builder=builder, edgeColumns=cols or [], melts=melt)


# ------------------------------------------------------------------------------------------------ Lean emission
def lstr(s):
    return json.dumps(str(s), ensure_ascii=True)


def lstrs(l):
    return '[' + ', '.join(lstr(x) for x in l) + ']'


def lint(i):
    return str(i) if i >= 0 else f'({i})'


def lints(l):
    return '[' + ', '.join(lint(int(x)) for x in l) + ']'


def lbool(b):
    return 'true' if b else 'false'


def lpairs(l):
    return '[' + ', '.join(f'({lstr(a)}, {lstr(b)})' for a, b in l) + ']'


def generate(repo: Path):
    adj_p = repo / 'navis' / 'connectivity' / 'adjacency.py'
    mu_p = repo / 'navis' / 'connectivity' / 'matrix_utils.py'
    cv_p = repo / 'navis' / 'graph' / 'converters.py'
    adj = ast.parse(adj_p.read_text())
    other = None
    for n in adj.body:
        if isinstance(n, ast.Assign) and isinstance(n.targets[0], ast.Name) and n.targets[0].id == 'OTHER':
            other = ast.literal_eval(n.value)
    if not isinstance(other, str):
        raise ValueError('adjacency.py: module constant OTHER not found')
    an = add_neuron_facts(adj)
    ed = edges_facts(adj)
    ed_default = _default_of(_func(adj, 'edges', 'NeuronConnector'), 'include_other')
    ta = adjacency_facts(adj)
    dg = digraph_facts(adj)
    mg = multidigraph_facts(adj)
    gm = group_matrix_facts(ast.parse(mu_p.read_text()))
    nx_ = network2nx_facts(ast.parse(cv_p.read_text()))

    L = []
    L.append('/- GENERATED by translator/gen_conn.py from navis/connectivity/adjacency.py, navis/connectivity/matrix_utils.py,\n'
             '   navis/graph/converters.py.  Do not edit: regenerated from the current source tree on every `./check C20`. -/')
    L.append('namespace Navis.Gen.Conn\n')
    L.append('/-- `OTHER = …` -/')
    L.append(f'def other : String := {lstr(other)}\n')
    L.append('/-! ### `NeuronConnector.add_neuron` -/')
    L.append('/-- `self.neurons[nrn.<key>] = nrn` -/')
    L.append(f'def neuronKey : String := {lstr(an["neuronKey"])}')
    L.append('/-- `if nrn.connectors is None: … return self` present -/')
    L.append(f'def noneGuard : Bool := {lbool(an["noneGuard"])}')
    L.append('/-- `for row in nrn.connectors.<how>()` -/')
    L.append(f'def rowIteration : String := {lstr(an["iterHow"])}')
    L.append('/-- the if/elif chain `row.<typeColumn> == <literal>` in source order: (literal, dict written, how) -/')
    L.append(f'def typeColumn : String := {lstr(an["typeColumn"])}')
    L.append('def typeBranches : List (Int × String × String) := ['
             + ', '.join(f'({lint(l)}, {lstr(d)}, {lstr(h)})' for l, d, h in an['branches']) + ']')
    L.append('/-- key `row.<keyColumn>`, stored value `(nrn.<v0>, row.<v1>)` (the same in every branch) -/')
    L.append(f'def keyColumn : String := {lstr(an["keyColumn"])}')
    L.append(f'def valueFields : List String := {lstrs(an["valueFields"])}\n')
    L.append('/-! ### `NeuronConnector.edges` (locals normalised to CID, SRC, SRC_NODE, TGT, TGT_NODE) -/')
    L.append(f'def edgesDefaultIncludeOther : Bool := {lbool(ed_default)}')
    L.append('/-- the dicts whose keys are iterated, and the operations combining them -/')
    L.append(f'def keySources : List String := {lstrs(ed["keySources"])}')
    L.append(f'def keyOps : List String := {lstrs(ed["keyOps"])}')
    L.append('/-- `SRC, SRC_NODE = self.<srcDict>.get(CID, <default>)` -/')
    L.append(f'def srcDict : String := {lstr(ed["srcDict"])}')
    L.append(f'def srcDefault : List String := {lstrs(ed["srcDefault"])}')
    L.append('/-- conjuncts (sorted, normalised) of the `if …: continue` on the outer level, before the inner loop -/')
    L.append(f'def srcSkip : List String := {lstrs(ed["srcSkip"])}')
    L.append('/-- `for TGT, TGT_NODE in self.<tgtDict>.get(CID, [<default>])` -/')
    L.append(f'def tgtDict : String := {lstr(ed["tgtDict"])}')
    L.append(f'def tgtDefault : List String := {lstrs(ed["tgtDefault"])}')
    L.append('/-- conjuncts (sorted) of the `if …: continue` inside the inner loop, before the yield -/')
    L.append(f'def tgtSkip : List String := {lstrs(ed["tgtSkip"])}')
    L.append('/-- `yield Edge(<args>)` and the field order of the `Edge` named tuple -/')
    L.append(f'def yieldArgs : List String := {lstrs(ed["yieldArgs"])}')
    L.append(f'def edgeFields : List String := {lstrs(ed["edgeFields"])}\n')
    L.append('/-! ### `to_adjacency` -/')
    L.append(f'def adjDefaultIncludeOther : Bool := {lbool(ta["default"])}')
    L.append(f'def adjForwardsIncludeOther : Bool := {lbool(ta["forwardsIO"])}')
    L.append('/-- `index = list(self.neurons)`: attributes of self / builtins used -/')
    L.append(f'def adjIndexAttrs : List String := {lstrs(ta["indexAttrs"])}')
    L.append(f'def adjIndexFuncs : List String := {lstrs(ta["indexFuncs"])}')
    L.append('/-- test under which `index.append(OTHER)` runs -/')
    L.append(f'def adjOtherGuard : String := {lstr(ta["otherGuard"])}')
    L.append('/-- dtype of the zero matrix -/')
    L.append(f'def adjDtype : String := {lstr(ta["dtype"])}')
    L.append('/-- `df.loc[e[i], e[j]] <op>= <k>`: positions in the edge tuple, operator, constant -/')
    L.append(f'def adjCellPos : List Nat := {lints(ta["tuplePos"])}')
    L.append(f'def adjOp : String := {lstr(ta["op"])}')
    L.append(f'def adjIncrement : Int := {lint(int(ta["increment"]))}\n')
    L.append('/-! ### `to_digraph` -/')
    L.append(f'def dgDefaultIncludeOther : Bool := {lbool(dg["default"])}')
    L.append(f'def dgForwardsIncludeOther : Bool := {lbool(dg["forwardsIO"])}')
    L.append(f'def dgOtherGuard : String := {lstr(dg["otherGuard"])}')
    L.append('/-- `edges.setdefault((e[i], e[j]), []).append([e[a], e[b], e[c]])`: positions in the edge tuple -/')
    L.append(f'def dgKeyPos : List Nat := {lints(dg["keyPos"])}')
    L.append(f'def dgRowPos : List Nat := {lints(dg["rowPos"])}')
    L.append(f'def dgHeaders : List String := {lstrs(dg["headers"])}')
    L.append(f'def dgWeight : String := {lstr(dg["weight"])}')
    L.append(f'def dgEdgeAttrs : List String := {lstrs(dg["edgeAttrs"])}\n')
    L.append('/-! ### `to_multidigraph` -/')
    L.append(f'def mgDefaultIncludeOther : Bool := {lbool(mg["default"])}')
    L.append(f'def mgForwardsIncludeOther : Bool := {lbool(mg["forwardsIO"])}')
    L.append(f'def mgOtherGuard : String := {lstr(mg["otherGuard"])}')
    L.append('/-- `g.add_edge(e[i], e[j], <attr>=e[k], …)`; position -1 = not an element of the edge tuple -/')
    L.append(f'def mgEndpointPos : List Nat := {lints(mg["endpointPos"])}')
    L.append('def mgAttrs : List (String × Int) := [' + ', '.join(f'({lstr(a)}, {lint(p)})' for a, p in mg['attrs']) + ']\n')
    L.append('/-! ### `group_matrix` -/')
    L.append(f'def gmMethods : List String := {lstrs(gm["methods"])}')
    L.append(f'def gmDefaultMethod : String := {lstr(gm["defaultMethod"])}')
    L.append(f'def gmDefaultDrop : Bool := {lbool(gm["defaultDrop"])}')
    L.append('/-- method literal ↦ pandas aggregation called on `groupby(<axis>_groups)`, sorted by method -/')
    L.append(f'def gmRowAgg : List (String × String) := {lpairs(gm["rowAgg"])}')
    L.append(f'def gmColAgg : List (String × String) := {lpairs(gm["colAgg"])}')
    L.append('/-- label of a row / column in the temporary grouping column: `<axis>_groups.get(label, label)` over the index -/')
    L.append(f'def gmRowLabel : String := {lstr(gm["rowLabel"])}')
    L.append(f'def gmColLabel : String := {lstr(gm["colLabel"])}')
    L.append('/-- what the `if drop_ungrouped:` assignment keeps -/')
    L.append(f'def gmRowDrop : String := {lstr(gm["rowDrop"])}')
    L.append(f'def gmColDrop : String := {lstr(gm["colDrop"])}')
    L.append('/-- number of `.T` in each branch, and the order of the two branches -/')
    L.append(f'def gmRowTransposes : Nat := {gm["rowTransposes"]}')
    L.append(f'def gmColTransposes : Nat := {gm["colTransposes"]}')
    L.append(f'def gmOrder : List String := {lstrs(gm["order"])}')
    L.append('/-- dict-format detection and inversion per axis -/')
    L.append('def gmFormats : List (String × String × String) := ['
             + ', '.join(f'({lstr(a)}, {lstr(b)}, {lstr(c)})' for a, b, c in gm['formats']) + ']')
    L.append(f'def gmStrConversions : List String := {lstrs(gm["strConversions"])}')
    L.append(f'def gmCopies : Bool := {lbool(gm["copies"])}\n')
    L.append('/-! ### `network2nx` -/')
    L.append(f'def nxThresholdOp : String := {lstr(nx_["thresholdOp"])}')
    L.append(f'def nxThresholdColumn : Int := {lint(int(nx_["thresholdColumn"]))}')
    L.append(f'def nxBuilder : List String := {lstrs(nx_["builder"])}')
    L.append(f'def nxEdgeColumns : List String := {lstrs(nx_["edgeColumns"])}')
    L.append(f'def nxMelts : Bool := {lbool(nx_["melts"])}\n')
    L.append('end Navis.Gen.Conn')
    meta = dict(sources=[str(p.relative_to(repo)) for p in (adj_p, mu_p, cv_p)],
                extracted=dict(other=other, add_neuron=an, edges=ed, to_adjacency=ta, to_digraph=dg, to_multidigraph=mg,
                               group_matrix=gm, network2nx=nx_))
    return 'Conn.lean', '\n'.join(L) + '\n', meta
