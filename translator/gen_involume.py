"""C18 translator: the shape of the neuron branch of `navis.intersection.intersect.in_volume` (and of
`TreeNeuron.prune_by_volume`), re-extracted from the navis source with `ast` (nothing is imported or executed) as a
`Navis.Volume.Shape` value (lean/NavisModel/Gen/InVolume.lean).

Every fact is tri-state: `some true` = recognised and as the model assumes, `some false` = recognised and different,
`none` = pattern not recognised (nothing is claimed; a refactoring must not break the tie).  Recognised patterns:

  invertBeforeShortcut  an `if <mode compared with a literal>:` whose body re-assigns the mask with `~…` /
                        `np.logical_not(…)` / `np.invert(…)`, and an `if` on `all(mask)` / `mask.all()` / `any(…)` whose body
                        calls `subset_neuron`: true iff the inversion is not nested in the short-circuit and precedes it
  invertOnOUT           the literal of that comparison is 'OUT' (with `==`) — or 'IN' with `!=`
  innerModeIN           the call that computes the mask passes the literal mode='IN'
  dictForwardsMode      the `for` over the volumes that stores `data[v] = in_volume(…)` passes `mode=mode`
  listForwardsMode      the `for` over the NeuronList that calls `in_volume(n, …)` passes `mode=mode`
  pruneForwardsMode     `TreeNeuron.prune_by_volume` passes `mode=mode` to `in_volume`
  treeSubsetById        the `subset=` argument of the skeleton branch mentions `.node_id`
  defaultModeIN         the default of the `mode` parameter of `in_volume` is 'IN'
"""
import ast
from pathlib import Path

PROPS = ['C18']


def _parents(tree):
    par = {}
    for n in ast.walk(tree):
        for c in ast.iter_child_nodes(n):
            par[c] = n
    return par


def _is_in_volume_call(n):
    return isinstance(n, ast.Call) and ((isinstance(n.func, ast.Name) and n.func.id == 'in_volume')
                                        or (isinstance(n.func, ast.Attribute) and n.func.attr == 'in_volume'))


def _kw(call, name):
    for k in call.keywords:
        if k.arg == name:
            return k.value
    return None


def _forwards(call, name):
    """some true: `name=name`; some false: keyword missing or a literal; none: anything else."""
    v = _kw(call, name)
    if v is None:
        return False if not any(k.arg is None for k in call.keywords) else None
    if isinstance(v, ast.Name) and v.id == name:
        return True
    if isinstance(v, ast.Constant):
        return False
    return None


def _desc(a, b, par):
    """a is a (strict) descendant of b"""
    while a in par:
        a = par[a]
        if a is b:
            return True
    return False


def shape(repo):
    tree = ast.parse((repo / 'navis' / 'intersection' / 'intersect.py').read_text())
    fn = next(n for n in tree.body if isinstance(n, ast.FunctionDef) and n.name == 'in_volume'
              and not any(getattr(d, 'id', None) == 'overload' for d in n.decorator_list))
    par = _parents(fn)
    out = dict(invertBeforeShortcut=None, invertOnOUT=None, innerModeIN=None, dictForwardsMode=None,
               listForwardsMode=None, pruneForwardsMode=None, treeSubsetById=None, defaultModeIN=None)
    # default of `mode`
    args = fn.args.args
    defaults = [None] * (len(args) - len(fn.args.defaults)) + list(fn.args.defaults)
    for a, d in zip(args, defaults):
        if a.arg == 'mode' and isinstance(d, ast.Constant):
            out['defaultModeIN'] = (d.value == 'IN')
    # the mask: `<name> = in_volume(data, …)` inside the function
    mask, inner = None, None
    for n in ast.walk(fn):
        if isinstance(n, ast.Assign) and len(n.targets) == 1 and isinstance(n.targets[0], ast.Name) and _is_in_volume_call(n.value):
            mask, inner = n.targets[0].id, n.value
            break
    if inner is not None:
        v = _kw(inner, 'mode')
        if isinstance(v, ast.Constant):
            out['innerModeIN'] = (v.value == 'IN')
    inv_if, sc_if = None, None
    if mask:
        for n in ast.walk(fn):
            if not isinstance(n, ast.If):
                continue
            # inversion
            cmp_ = [c for c in ast.walk(n.test) if isinstance(c, ast.Compare) and isinstance(c.left, ast.Name) and c.left.id == 'mode'
                    and len(c.ops) == 1 and isinstance(c.comparators[0], ast.Constant)]
            inverts = any(isinstance(s, ast.Assign) and any(isinstance(t, ast.Name) and t.id == mask for t in s.targets)
                          and any((isinstance(e, ast.UnaryOp) and isinstance(e.op, ast.Invert))
                                  or (isinstance(e, ast.Call) and isinstance(e.func, ast.Attribute) and e.func.attr in ('logical_not', 'invert'))
                                  for e in ast.walk(s.value))
                          for s in n.body)
            if cmp_ and inverts and inv_if is None:
                inv_if = n
                c = cmp_[0]
                lit = c.comparators[0].value
                if isinstance(c.ops[0], ast.Eq):
                    out['invertOnOUT'] = (lit == 'OUT')
                elif isinstance(c.ops[0], ast.NotEq):
                    out['invertOnOUT'] = (lit == 'IN')
            # short-circuit
            looks = any((isinstance(e, ast.Call) and isinstance(e.func, ast.Name) and e.func.id in ('all', 'any')
                         and any(isinstance(a, ast.Name) and a.id == mask for a in ast.walk(e)))
                        or (isinstance(e, ast.Call) and isinstance(e.func, ast.Attribute) and e.func.attr in ('all', 'any')
                            and any(isinstance(a, ast.Name) and a.id == mask for a in ast.walk(e.func.value)))
                        for e in ast.walk(n.test))
            subsets = any(isinstance(e, ast.Call) and ((isinstance(e.func, ast.Attribute) and e.func.attr == 'subset_neuron')
                                                       or (isinstance(e.func, ast.Name) and e.func.id == 'subset_neuron'))
                          for s in n.body for e in ast.walk(s))
            if looks and subsets and sc_if is None:
                sc_if = n
    if inv_if is not None and sc_if is not None:
        out['invertBeforeShortcut'] = (not _desc(inv_if, sc_if, par)) and inv_if.lineno < sc_if.lineno
    # subset of the skeleton branch
    if sc_if is not None:
        for n in ast.walk(sc_if):
            if isinstance(n, ast.If) and any(isinstance(e, ast.Attribute) and e.attr == 'TreeNeuron' for e in ast.walk(n.test)) \
                    and not any(isinstance(e, ast.Attribute) and e.attr in ('MeshNeuron', 'Dotprops') for e in ast.walk(n.test)):
                for c in ast.walk(ast.Module(body=n.body, type_ignores=[])):
                    if isinstance(c, ast.Call) and isinstance(c.func, (ast.Attribute, ast.Name)) \
                            and getattr(c.func, 'attr', getattr(c.func, 'id', '')) == 'subset_neuron':
                        sub = _kw(c, 'subset')
                        if sub is not None:
                            attrs = {e.attr for e in ast.walk(sub) if isinstance(e, ast.Attribute)}
                            calls = {getattr(e.func, 'attr', getattr(e.func, 'id', '')) for e in ast.walk(sub) if isinstance(e, ast.Call)}
                            if 'node_id' in attrs:
                                out['treeSubsetById'] = True
                            elif calls & {'where', 'arange', 'nonzero', 'flatnonzero', 'argwhere'}:
                                out['treeSubsetById'] = False
                break
    # loops
    for n in ast.walk(fn):
        if not isinstance(n, ast.For):
            continue
        for s in ast.walk(ast.Module(body=n.body, type_ignores=[])):
            if isinstance(s, ast.Assign) and isinstance(s.targets[0], ast.Subscript) and _is_in_volume_call(s.value) \
                    and out['dictForwardsMode'] is None:
                out['dictForwardsMode'] = _forwards(s.value, 'mode')
            if isinstance(s, ast.Expr) and _is_in_volume_call(s.value) and out['listForwardsMode'] is None:
                out['listForwardsMode'] = _forwards(s.value, 'mode')
    # prune_by_volume
    sk = ast.parse((repo / 'navis' / 'core' / 'skeleton.py').read_text())
    for n in ast.walk(sk):
        if isinstance(n, ast.FunctionDef) and n.name == 'prune_by_volume':
            for c in ast.walk(n):
                if _is_in_volume_call(c):
                    out['pruneForwardsMode'] = _forwards(c, 'mode')
                    break
            break
    return out


def _opt(v):
    return 'none' if v is None else ('some true' if v else 'some false')


FIELDS = ['invertBeforeShortcut', 'invertOnOUT', 'innerModeIN', 'dictForwardsMode', 'listForwardsMode', 'pruneForwardsMode',
          'treeSubsetById', 'defaultModeIN']


def generate(repo: Path):
    sh = shape(Path(repo))
    L = ['import NavisModel.Model.InVolumeShape',
         '/-! GENERATED by translator/gen_involume.py from the navis source — do not edit.',
         'Shape of the neuron branch of `in_volume` / `prune_by_volume` (tri-state facts: `none` = pattern not recognised). -/',
         'namespace Navis.Gen.InVolume', 'open Navis.Volume', '',
         'def shape : Shape :=',
         '  { ' + ',\n    '.join(f'{f} := {_opt(sh[f])}' for f in FIELDS) + ' }', '',
         'end Navis.Gen.InVolume']
    return 'InVolume.lean', '\n'.join(L) + '\n', {'source': ['navis/intersection/intersect.py', 'navis/core/skeleton.py'], 'shape': sh}
