"""Translator for C19: re-extract the geometry-deciding expressions and declarative facts of navis' conversion code from the
*current* source (read as text, walked with `ast`; nothing is imported from navis) and emit them as Lean definitions
(`Gen/Conv.lean`).

* arithmetic expressions become terms of `Navis.ConvExpr.E` (one coordinate of the elementwise numpy expression): the voxel index
  (`_make_voxels` + `neuron2voxels`), grid shape, `VoxelNeuron` offset and units, edge midpoint / tangent vector of
  `neuron2tangents`, alpha of `make_dotprops` / `recalculate_tangents` / the voxel loop, the clipped `k`, the vertex placement of both
  marching-cubes paths.  `Props/C19` proves for *every* assignment of the names that they evaluate to what the model computes;
* masks, filters, indices, defaults and keyword bindings become literals (`Cmp`, `Bool`, `Nat`, `String`), compared with the
  structure the model hard-wires.

Locals are inlined and the remaining names are canonical *roles* decided by how a value is produced or consumed (the array that
indexes `grid[...] = True` is the voxel index, the `shape=` of `np.zeros` is the shape, the second output of `np.linalg.svd` is `s`,
the tuple positions of the `return` are points / vect / length, …), so a renamed local, an extra alias, a moved independent
statement, a comment or a log line do not change the output.  Anything the extractor cannot find in the expected shape raises (a
broken tie is reported, never guessed)."""
import ast
from fractions import Fraction
from pathlib import Path

PROPS = ['C19']


# ------------------------------------------------------------------------------------------------------------------
# expression terms
# ------------------------------------------------------------------------------------------------------------------
def V(n): return ('var', n)
def L(n): return ('lit', int(n))
def B(op, a, b): return (op, a, b)
def U(op, a): return (op, a)


INTEGRAL_HEADS = {'round', 'floor', 'ceil', 'trunc', 'lit'}


def is_integral(e):
    if e[0] in INTEGRAL_HEADS:
        return True
    if e[0] in ('add', 'sub', 'mul'):
        return is_integral(e[1]) and is_integral(e[2])
    if e[0] == 'neg':
        return is_integral(e[1])
    return False


def lean(e):
    h = e[0]
    if h == 'var':
        return f'(.var "{e[1]}")'
    if h == 'lit':
        return f'(.lit {e[1]})' if e[1] >= 0 else f'(.lit ({e[1]}))'
    if h in ('add', 'sub', 'mul', 'div', 'min'):
        return f'(.{h} {lean(e[1])} {lean(e[2])})'
    if h in ('neg', 'round', 'floor', 'ceil', 'trunc'):
        return f'(.{h} {lean(e[1])})'
    if h == 'iteGt':
        return f'(.iteGt {lean(e[1])} {lean(e[2])} {lean(e[3])} {lean(e[4])})'
    if h == 'op1':
        return f'(.op1 "{e[1]}" {lean(e[2])})'
    if h == 'op2':
        return f'(.op2 "{e[1]}" {lean(e[2])} {lean(e[3])})'
    raise ValueError(f'cannot print {e!r}')


def names_in(e):
    if e[0] == 'var':
        return {e[1]}
    out = set()
    for x in e[1:]:
        if isinstance(x, tuple):
            out |= names_in(x)
    return out


class Untranslatable(ValueError):
    pass


def _attr_chain(n):
    out = []
    while isinstance(n, ast.Attribute):
        out.append(n.attr)
        n = n.value
    if isinstance(n, ast.Name):
        out.append(n.id)
        return out[::-1]
    return None


def _kw(call, name):
    for k in call.keywords:
        if k.arg == name:
            return k.value
    return None


def _is_np(func, name):
    return isinstance(func, ast.Attribute) and func.attr == name and isinstance(func.value, ast.Name) and func.value.id in ('np', 'numpy')


def _slice_key(sl):
    return ast.unparse(sl).replace(' ', '').replace('(', '').replace(')', '')


def _src(n):
    return ast.unparse(n).replace(' ', '').replace('"', "'")


class Sym:
    """Tiny symbolic evaluator for straight-line numpy code.  `env` maps local names to terms; `roles(node)` may claim a node."""

    def __init__(self, env=None, roles=None):
        self.env = dict(env or {})
        self.roles = roles or (lambda node: None)

    def ev(self, n):
        r = self.roles(n)
        if r is not None:
            return r
        if isinstance(n, ast.Name):
            if n.id in self.env:
                return self.env[n.id]
            return V(n.id)
        if isinstance(n, ast.Constant):
            if isinstance(n.value, bool) or not isinstance(n.value, (int, float)):
                raise Untranslatable(f'constant {n.value!r}')
            if float(n.value) != int(n.value):
                f = Fraction(str(n.value))
                return B('div', L(f.numerator), L(f.denominator))
            return L(int(n.value))
        if isinstance(n, ast.UnaryOp) and isinstance(n.op, ast.USub):
            return U('neg', self.ev(n.operand))
        if isinstance(n, ast.BinOp):
            if isinstance(n.op, ast.Pow):
                if isinstance(n.right, ast.Constant) and n.right.value == 2:
                    a = self.ev(n.left)
                    return B('mul', a, a)
                raise Untranslatable('power other than 2')
            if isinstance(n.op, ast.MatMult):
                return ('op2', 'matmul', self.ev(n.left), self.ev(n.right))
            op = {ast.Add: 'add', ast.Sub: 'sub', ast.Mult: 'mul', ast.Div: 'div'}.get(type(n.op))
            if op is None:
                raise Untranslatable(f'operator {type(n.op).__name__}')
            return B(op, self.ev(n.left), self.ev(n.right))
        if isinstance(n, ast.Attribute):
            if n.attr == 'values':
                return self.ev(n.value)
            ch = _attr_chain(n)
            if ch and ch[-2:] == ['units_xyz', 'magnitude']:
                return V('u')
            raise Untranslatable(f'attribute {ast.unparse(n)}')
        if isinstance(n, ast.Subscript):
            base = n.value
            key = _slice_key(n.slice)
            if isinstance(base, ast.Attribute) and base.attr == 'shape' and key == '0':
                return V('n')
            b = self.ev(base)
            if b[0] == 'var':
                return V(f'{b[1]}[{key}]')
            raise Untranslatable(f'subscript of a compound value: {ast.unparse(n)}')
        if isinstance(n, ast.Call):
            return self.call(n)
        if isinstance(n, ast.List) and len(n.elts) == 1:
            return self.ev(n.elts[0])
        raise Untranslatable(ast.unparse(n)[:80])

    def call(self, n):
        f = n.func
        for name, head in (('round', 'round'), ('rint', 'round'), ('around', 'round'), ('floor', 'floor'), ('ceil', 'ceil')):
            if _is_np(f, name):
                if len(n.args) != 1 or n.keywords:
                    raise Untranslatable(f'np.{name} with extra arguments')
                return U(head, self.ev(n.args[0]))
        if _is_np(f, 'unique') or _is_np(f, 'array') or _is_np(f, 'asarray'):
            return self.ev(n.args[0])
        if _is_np(f, 'sqrt'):
            return ('op1', 'sqrt', self.ev(n.args[0]))
        if _is_np(f, 'mean'):
            return ('op1', 'mean', self.ev(n.args[0]))
        if _is_np(f, 'sum'):
            a = self.ev(n.args[0])
            if a == V('s'):
                return B('add', B('add', V('s[:,0]'), V('s[:,1]')), V('s[:,2]'))
            return ('op1', 'sum', a)
        if _is_np(f, 'divide'):
            where, out = _kw(n, 'where'), _kw(n, 'out')
            a, b = self.ev(n.args[0]), self.ev(n.args[1])
            if where is None:
                return B('div', a, b)
            if not (isinstance(out, ast.Call) and _is_np(out.func, 'zeros_like')):
                raise Untranslatable('np.divide(where=...) without out=np.zeros_like(...)')
            if not (isinstance(where, ast.Compare) and len(where.ops) == 1 and isinstance(where.ops[0], ast.Gt)):
                raise Untranslatable('np.divide(where=...) with a guard other than `a > b`')
            return ('iteGt', self.ev(where.left), self.ev(where.comparators[0]), B('div', a, b), L(0))
        ch = _attr_chain(f) if isinstance(f, ast.Attribute) else None
        if ch and ch[-3:] == ['np', 'linalg', 'norm']:
            return ('op1', 'norm', self.ev(n.args[0]))
        if isinstance(f, ast.Name) and f.id == 'min' and len(n.args) == 2:
            return B('min', self.ev(n.args[0]), self.ev(n.args[1]))
        if isinstance(f, ast.Attribute):
            if f.attr == 'round':
                if n.args or n.keywords:
                    raise Untranslatable('.round(...) with arguments')
                return U('round', self.ev(f.value))
            if f.attr == 'astype':
                a = self.ev(f.value)
                tgt = ast.unparse(n.args[0]) if n.args else ''
                if tgt in ('int', 'np.int64', 'np.int32', "'int'", '"int"'):
                    return a if is_integral(a) else U('trunc', a)
                return a
            if f.attr in ('reshape', 'flatten', 'copy'):
                return self.ev(f.value)
            if f.attr == 'transpose':
                return ('op1', 'T', self.ev(f.value))
        raise Untranslatable(f'call {ast.unparse(n)[:80]}')

    def run(self, stmts, on_stmt=None):
        """Execute simple assignments of `stmts` in order (no descent into compound statements).  A value that cannot be
        translated makes the name opaque (`?name` is never a role, so it cannot satisfy a theorem by accident)."""
        for st in stmts:
            if on_stmt is not None and on_stmt(st):
                continue
            if isinstance(st, ast.Assign) and len(st.targets) == 1:
                tg = st.targets[0]
                if isinstance(tg, ast.Name):
                    try:
                        self.env[tg.id] = self.ev(st.value)
                    except Untranslatable:
                        self.env[tg.id] = V('?' + tg.id)
                elif isinstance(tg, ast.Tuple) and all(isinstance(e, ast.Name) for e in tg.elts):
                    # a, b = f(...): only np.unique is understood (first output = the values)
                    if isinstance(st.value, ast.Call) and _is_np(st.value.func, 'unique'):
                        try:
                            self.env[tg.elts[0].id] = self.ev(st.value)
                        except Untranslatable:
                            self.env[tg.elts[0].id] = V('?' + tg.elts[0].id)
                        for e in tg.elts[1:]:
                            self.env[e.id] = V('?' + e.id)
                    else:
                        for e in tg.elts:
                            self.env[e.id] = V('?' + e.id)
            elif isinstance(st, (ast.If, ast.For, ast.While, ast.With, ast.Try)):
                # names assigned inside a compound statement are not followed
                for x in ast.walk(st):
                    if isinstance(x, ast.Assign):
                        for t in x.targets:
                            for nm in ast.walk(t):
                                if isinstance(nm, ast.Name) and isinstance(nm.ctx, ast.Store):
                                    self.env[nm.id] = self.opaque(nm.id)

    def opaque(self, name):
        return V(name) if name in self.keep else V('?' + name)

    keep = frozenset()


# ------------------------------------------------------------------------------------------------------------------
# source access
# ------------------------------------------------------------------------------------------------------------------
def _func(tree, name, cls=None):
    if cls:
        for n in ast.walk(tree):
            if isinstance(n, ast.ClassDef) and n.name == cls:
                for m in n.body:
                    if isinstance(m, ast.FunctionDef) and m.name == name:
                        return m
        raise ValueError(f'{cls}.{name} not found')
    for n in tree.body:
        if isinstance(n, ast.FunctionDef) and n.name == name:
            return n
    raise ValueError(f'function {name} not found')


def _body(fn):
    """function body without the docstring"""
    b = fn.body
    if b and isinstance(b[0], ast.Expr) and isinstance(b[0].value, ast.Constant) and isinstance(b[0].value.value, str):
        b = b[1:]
    return b


OPS = {ast.Lt: '<', ast.LtE: '<=', ast.Gt: '>', ast.GtE: '>=', ast.Eq: '==', ast.NotEq: '!='}


def _cmp(n, role):
    """Compare node -> (lhs, op, rhs); `role(node)` gives the canonical text of a side."""
    if not (isinstance(n, ast.Compare) and len(n.ops) == 1 and type(n.ops[0]) in OPS):
        raise ValueError(f'not a simple comparison: {ast.unparse(n)}')
    return (role(n.left), OPS[type(n.ops[0])], role(n.comparators[0]))


def cmp_lean(c):
    return f'⟨"{c[0]}", "{c[1]}", "{c[2]}"⟩'


def _pts_like(stmts_src):
    return all(('.nodes[' in s or '.points' in s or '.vertices' in s) for s in stmts_src) and bool(stmts_src)


# ------------------------------------------------------------------------------------------------------------------
# navis/conversion/converters.py
# ------------------------------------------------------------------------------------------------------------------
def make_voxels(tree):
    fn = _func(tree, '_make_voxels')
    params = [a.arg for a in fn.args.args]
    if 'pitch' not in params:
        raise ValueError('_make_voxels: no `pitch` parameter')
    # the returned index array: first element of the return tuple
    ret = next((s for s in _body(fn) if isinstance(s, ast.Return)), None)
    if ret is None or not isinstance(ret.value, ast.Tuple) or not isinstance(ret.value.elts[0], ast.Name):
        raise ValueError('_make_voxels: `return ix, offset` not found')
    ix_name = ret.value.elts[0].id
    # names that hold the neuron's coordinates (assigned per neuron type from .nodes / .points / .vertices)
    defs = {}
    for st in ast.walk(fn):
        if isinstance(st, ast.Assign) and len(st.targets) == 1 and isinstance(st.targets[0], ast.Name):
            defs.setdefault(st.targets[0].id, []).append(_src(st.value))
    pts_names = {n for n, srcs in defs.items() if _pts_like(srcs)}

    def roles(n):
        if isinstance(n, ast.Name) and n.id in pts_names:
            return V('pts')
        return None
    sy = Sym({}, roles)
    sy.keep = frozenset({'pitch'})
    first = None

    def on(st):
        nonlocal first
        if isinstance(st, ast.Assign) and len(st.targets) == 1 and isinstance(st.targets[0], ast.Name) and st.targets[0].id == ix_name \
                and first is None:
            first = sy.ev(st.value)
        return False
    sy.run(_body(fn), on)
    if first is None:
        raise ValueError('_make_voxels: the assignment of the returned index array was not found at the top level')
    return first


def neuron2voxels(tree, ix_e):
    fn = _func(tree, 'neuron2voxels')
    facts = {}
    body = _body(fn)

    def roles(n):
        if isinstance(n, ast.Subscript) and isinstance(n.value, ast.Name) and n.value.id == 'bounds':
            k = _slice_key(n.slice)
            if k == ':,0':
                return V('lo')
            if k == ':,1':
                return V('hi')
            raise Untranslatable(f'bounds[{k}]')
        return None
    sy = Sym({}, roles)
    sy.keep = frozenset({'pitch', 'bounds'})

    cap = dict(mask_name=None, mask=None, vox_filtered=False, counts_filtered=False, grid_true=None, grid_cnt=False, shape=None,
               offset=None, units=None, point_ix=None, uni_name=None)
    counts_names = set()

    def role_text(env_at):
        def f(x):
            if isinstance(x, ast.Call) and isinstance(x.func, ast.Attribute) and x.func.attr in ('min', 'max') and not x.args:
                return f'{f(x.func.value)}.{x.func.attr}'
            if isinstance(x, ast.Subscript):
                return f(x.value)
            if isinstance(x, ast.Constant):
                return str(x.value)
            if isinstance(x, ast.Name):
                v = env_at.get(x.id)
                if v is not None and v == cap.get('idx_value'):
                    return 'idx'
                if v is not None and v == cap.get('shape_value'):
                    return 'shape'
                return x.id
            return ast.unparse(x)
        return f

    def grid_index_name(tg):
        """grid[a[:, 0], a[:, 1], a[:, 2]] -> 'a'"""
        if isinstance(tg, ast.Subscript) and isinstance(tg.slice, ast.Tuple) and len(tg.slice.elts) == 3:
            names = set()
            for i, e in enumerate(tg.slice.elts):
                if isinstance(e, ast.Subscript) and isinstance(e.value, ast.Name) and _slice_key(e.slice) == f':,{i}':
                    names.add(e.value.id)
            if len(names) == 1:
                return names.pop()
        return None

    def on(st):
        # ---- ix, _ = _make_voxels(x=x, pitch=pitch, strip=False)
        if isinstance(st, ast.Assign) and isinstance(st.value, ast.Call) and isinstance(st.value.func, ast.Name) \
                and st.value.func.id == '_make_voxels':
            tg = st.targets[0]
            if not (isinstance(tg, ast.Tuple) and isinstance(tg.elts[0], ast.Name)):
                raise ValueError('neuron2voxels: result of _make_voxels is not unpacked')
            strip = _kw(st.value, 'strip')
            facts['strip'] = bool(strip.value) if isinstance(strip, ast.Constant) else None
            p = _kw(st.value, 'pitch')
            if not (isinstance(p, ast.Name) and p.id == 'pitch'):
                raise ValueError('neuron2voxels: _make_voxels is not called with pitch=pitch')
            sy.env[tg.elts[0].id] = ix_e
            for e in tg.elts[1:]:
                if isinstance(e, ast.Name):
                    sy.env[e.id] = V('?' + e.id)
            return True
        if isinstance(st, ast.If):
            t = _src(st.test)
            if 'bounds' in t and 'None' in t and st.body and isinstance(st.body[0], ast.Assign):
                facts['default_bounds'] = _src(st.body[0].value)
                return True
            if t == 'bounds.shape==(2,3)':
                facts['transpose23'] = bool(st.body) and _src(st.body[0]) == 'bounds=bounds.T'
                return True
            if t in ('notcounts', 'counts'):
                pos, neg = (st.orelse, st.body) if t == 'notcounts' else (st.body, st.orelse)
                vals = {}
                for which, br in (('counts', pos), ('plain', neg)):
                    for s2 in br:
                        if not isinstance(s2, ast.Assign):
                            continue
                        tg = s2.targets[0]
                        # voxels: `v = np.unique(ix, axis=0)` / `v, c = np.unique(ix, axis=0, return_counts=True)`
                        if isinstance(s2.value, ast.Call) and _is_np(s2.value.func, 'unique'):
                            nm = tg.id if isinstance(tg, ast.Name) else tg.elts[0].id
                            vals.setdefault(nm, {})[which] = sy.ev(s2.value)
                            if isinstance(tg, ast.Tuple) and len(tg.elts) > 1 and which == 'counts':
                                rc = _kw(s2.value, 'return_counts')
                                if isinstance(rc, ast.Constant) and rc.value is True:
                                    counts_names.add(tg.elts[1].id)
                        # counts filtered with the mask: `c = c[mask]`
                        elif isinstance(tg, ast.Name) and tg.id in counts_names and isinstance(s2.value, ast.Subscript) \
                                and isinstance(s2.value.value, ast.Name) and s2.value.value.id == tg.id \
                                and isinstance(s2.value.slice, ast.Name) and s2.value.slice.id == cap['mask_name'] and which == 'counts':
                            cap['counts_filtered'] = True
                        # grid[...] = True / = counts
                        elif isinstance(tg, ast.Subscript) and grid_index_name(tg) is not None:
                            nm = grid_index_name(tg)
                            if isinstance(s2.value, ast.Constant) and s2.value.value is True and which == 'plain':
                                cap['grid_true'] = sy.env.get(nm)
                            if isinstance(s2.value, ast.Name) and s2.value.id in counts_names and which == 'counts':
                                cap['grid_cnt'] = sy.env.get(nm)
                for nm, d in vals.items():
                    if set(d) != {'counts', 'plain'} or d['counts'] != d['plain']:
                        raise ValueError('neuron2voxels: the counts / no-counts branches compute different voxels')
                    sy.env[nm] = d['plain']
                return True
            if t.startswith('notvectors'):
                return True
            return False
        if isinstance(st, ast.Assign) and len(st.targets) == 1 and isinstance(st.targets[0], ast.Name):
            name, v = st.targets[0].id, st.value
            # the mask `a & b`
            if isinstance(v, ast.BinOp) and isinstance(v.op, ast.BitAnd):
                parts = []
                for side in (v.left, v.right):
                    if isinstance(side, ast.Call) and _is_np(side.func, 'all'):
                        side = side.args[0]
                    parts.append(side)
                cap['mask_name'], cap['mask_nodes'], cap['mask_env'] = name, parts, dict(sy.env)
                return True
            # `v = v[mask]`
            if isinstance(v, ast.Subscript) and isinstance(v.value, ast.Name) and v.value.id == name and isinstance(v.slice, ast.Name) \
                    and v.slice.id == cap['mask_name']:
                cap['vox_filtered_name'] = name
                return True
            # grid = np.zeros(shape=..., dtype=bool)
            if isinstance(v, ast.Call) and _is_np(v.func, 'zeros') and _kw(v, 'dtype') is not None and _src(_kw(v, 'dtype')) == 'bool':
                sh = _kw(v, 'shape') or (v.args[0] if v.args else None)
                cap['shape'] = sy.ev(sh)
                return False
            # units = [f'{p * u} {x.units.units}' for p, u in zip(...)]
            if isinstance(v, ast.ListComp) and isinstance(v.elt, ast.JoinedStr):
                fv = [p for p in v.elt.values if isinstance(p, ast.FormattedValue)]
                gen = v.generators[0]
                if not (isinstance(gen.iter, ast.Call) and isinstance(gen.iter.func, ast.Name) and gen.iter.func.id == 'zip'
                        and isinstance(gen.target, ast.Tuple) and len(gen.target.elts) == 2):
                    raise ValueError('neuron2voxels: units comprehension is not over zip(pitch, magnitudes)')
                m = {}
                for nm, src in zip(gen.target.elts, gen.iter.args):
                    s = ast.unparse(src)
                    if 'pitch' in s:
                        m[nm.id] = V('pitch')
                    elif 'units_xyz.magnitude' in s:
                        m[nm.id] = V('u')
                    else:
                        raise ValueError(f'neuron2voxels: unknown factor {s} in units')
                cap.setdefault('units_defs', {})[name] = (Sym(m).ev(fv[0].value), _src(fv[1].value) if len(fv) > 1 else None)
                return True
            # n = core.VoxelNeuron(grid, ..., units=units, offset=offset)
            if isinstance(v, ast.Call) and ast.unparse(v.func).endswith('VoxelNeuron'):
                uk, ok_ = _kw(v, 'units'), _kw(v, 'offset')
                if not (isinstance(uk, ast.Name) and isinstance(ok_, ast.Name)):
                    raise ValueError('neuron2voxels: VoxelNeuron(...) without units= / offset= names')
                ud = cap.get('units_defs', {}).get(uk.id)
                if ud is None:
                    raise ValueError('neuron2voxels: the units passed to VoxelNeuron are not the per-axis f-string list')
                cap['units'], facts['units_name'] = ud
                cap['offset'] = sy.env.get(ok_.id)
                facts['voxelneuron_kw'] = ('units', 'offset')
                return True
        if isinstance(st, ast.Assign) and isinstance(st.targets[0], ast.Tuple) and isinstance(st.value, ast.Call) \
                and _is_np(st.value.func, 'unique') and _kw(st.value, 'return_inverse') is not None:
            cap['point_ix'] = sy.ev(st.value.args[0])
            cap['uni_name'] = st.targets[0].elts[0].id
            cap['inv_name'] = st.targets[0].elts[1].id
            return False
        return False
    sy.run(body, on)

    # the index that fills the grid, filtered by the mask
    if cap['grid_true'] is None or cap['grid_cnt'] is False or cap['grid_true'] != cap['grid_cnt']:
        raise ValueError('neuron2voxels: `grid[v[:,0], v[:,1], v[:,2]] = True / = counts` not found for the same voxel array')
    cap['idx_value'] = cap['grid_true']
    cap['shape_value'] = cap['shape']
    if cap['shape'] is None or cap['mask_name'] is None or cap['offset'] is None or cap['units'] is None or cap['point_ix'] is None:
        raise ValueError('neuron2voxels: shape / mask / offset / units / per-point index not found')
    rt = role_text(cap['mask_env'])
    mask = [_cmp(p, rt) for p in cap['mask_nodes']]
    vox_filtered = sy.env.get(cap.get('vox_filtered_name', '')) == cap['idx_value']
    # vectors / alphas loop
    loop = next((s for s in body if isinstance(s, ast.For) and cap['uni_name'] in ast.unparse(s.iter)), None)
    if loop is None:
        raise ValueError('neuron2voxels: loop over the unique voxels not found')
    env_loop = dict(sy.env)
    env_loop[cap['uni_name']] = cap['idx_value'] if cap['point_ix'] == cap['idx_value'] else cap['point_ix']
    rt2 = role_text(env_loop)
    skip = None
    for s in loop.body:
        if isinstance(s, ast.If) and any(isinstance(x, ast.Continue) for x in s.body):
            t = s.test
            if not (isinstance(t, ast.BoolOp) and isinstance(t.op, ast.Or)):
                raise ValueError('neuron2voxels: skip condition is not `a or b`')
            skip = []
            for v in t.values:
                if isinstance(v, ast.Call) and _is_np(v.func, 'any'):
                    v = v.args[0]
                skip.append(_cmp(v, rt2))
    # points of one voxel: pts[inv == i]
    sel = None
    for s in loop.body:
        if isinstance(s, ast.Assign) and isinstance(s.value, ast.Subscript) and isinstance(s.value.slice, ast.Compare):
            c = s.value.slice
            if isinstance(c.left, ast.Name) and c.left.id == cap['inv_name'] and isinstance(c.ops[0], ast.Eq):
                sel = 'inverse==i'
    facts['loop_selects'] = sel
    vect_idx, alpha_e, svd_ok, inertia = _svd_block(loop.body, 'neuron2voxels loop', want_alpha_if=True, facts=facts)
    return dict(shape=cap['shape'], vxl=cap['idx_value'], ix=cap['point_ix'], offset=cap['offset'], units=cap['units'], mask=mask,
                counts_filtered=cap['counts_filtered'], vox_filtered=vox_filtered, skip=skip, vox_alpha=alpha_e,
                vox_vect_index=vect_idx, vox_inertia=inertia, vox_svd=svd_ok, facts=facts)


def _svd_env(stmts, what, want_alpha_if=False, facts=None):
    """Common block: centre, scatter matrix, SVD, tangent = row of vh, alpha.  Names are resolved through the SVD's outputs.
    Returns (environment after the block, scatter-matrix term, name of s, name of vh)."""
    svd = None
    for st in stmts:
        if isinstance(st, ast.Assign) and isinstance(st.value, ast.Call) and _src(st.value.func) == 'np.linalg.svd' \
                and isinstance(st.targets[0], ast.Tuple) and len(st.targets[0].elts) == 3:
            svd = st
    if svd is None:
        raise ValueError(f'{what}: `u, s, vh = np.linalg.svd(...)` not found')
    s_name, vh_name = svd.targets[0].elts[1].id, svd.targets[0].elts[2].id

    def roles(n):
        if isinstance(n, ast.Name) and n.id == s_name:
            return V('s')
        if isinstance(n, ast.Name) and n.id == vh_name:
            return V('vh')
        return None
    # scatter matrix: evaluate the straight-line code before the SVD with the neighbourhood array as `pt`
    pre = Sym({}, None)
    pt_names = set()
    for st in stmts:
        if st is svd:
            break
        if isinstance(st, ast.Assign) and len(st.targets) == 1 and isinstance(st.targets[0], ast.Name):
            src = _src(st.value)
            if isinstance(st.value, ast.Subscript) and (isinstance(st.value.slice, ast.Name) or
                                                        (isinstance(st.value.slice, ast.Compare) and isinstance(st.value.slice.ops[0], ast.Eq))):
                # points[index array] (neighbourhoods) / points[inverse == i] (points of one voxel)
                pt_names.add(st.targets[0].id)
                pre.env[st.targets[0].id] = V('pt')
                if facts is not None and isinstance(st.value.slice, ast.Name):
                    facts['neighbours_src'] = src
                continue
            if pt_names and isinstance(st.value, ast.Call) and isinstance(st.value.func, ast.Attribute) and st.value.func.attr == 'reshape' \
                    and isinstance(st.value.func.value, ast.Name) and st.value.func.value.id in pt_names:
                pre.env[st.targets[0].id] = V('pt')
                continue
            try:
                pre.env[st.targets[0].id] = pre.ev(st.value)
            except Untranslatable:
                pre.env[st.targets[0].id] = V('?' + st.targets[0].id)
    inertia = pre.ev(svd.value.args[0])
    sy = Sym({}, roles)
    vect_idx, alpha_e = None, None
    vect_names, alpha_names = set(), set()
    after = stmts[stmts.index(svd) + 1:]
    for st in after:
        if isinstance(st, ast.If) and want_alpha_if:
            # if <guards>: alpha = A else: alpha = [0]
            th = [x for x in st.body if isinstance(x, ast.Assign)]
            el = [x for x in st.orelse if isinstance(x, ast.Assign)]
            if len(th) == 1 and len(el) == 1 and _src(th[0].targets[0]) == _src(el[0].targets[0]):
                guards = st.test.values if isinstance(st.test, ast.BoolOp) and isinstance(st.test.op, ast.And) else [st.test]
                sum_guard, other = None, []
                for g in guards:
                    if isinstance(g, ast.Compare) and isinstance(g.ops[0], ast.Gt) and isinstance(g.left, ast.Call) and _is_np(g.left.func, 'sum'):
                        sum_guard = (sy.ev(g.left), sy.ev(g.comparators[0]))
                    else:
                        other.append(_src(g))
                if sum_guard is None:
                    raise ValueError(f'{what}: alpha is not guarded by `np.sum(s) > 0`')
                nm = th[0].targets[0].id
                sy.env[nm] = ('iteGt', sum_guard[0], sum_guard[1], sy.ev(th[0].value), sy.ev(el[0].value))
                alpha_names.add(nm)
                if facts is not None:
                    facts['alpha_other_guards'] = other
            continue
        if not (isinstance(st, ast.Assign) and len(st.targets) == 1):
            continue
        tg = st.targets[0]
        key = tg.id if isinstance(tg, ast.Name) else (_src(tg) if isinstance(tg, ast.Attribute) else None)
        if key is None:
            continue
        if isinstance(st.value, ast.Subscript) and isinstance(st.value.value, ast.Name) and st.value.value.id == vh_name:
            sy.env[key] = V('vh[' + _slice_key(st.value.slice) + ']')
            continue
        try:
            sy.env[key] = sy.ev(st.value)
        except Untranslatable:
            sy.env[key] = V('?' + key)
    return sy.env, inertia, s_name, vh_name


# The block above returns the environment; the two callers pick the tangent / alpha by how they are *used*.
def _pick(env, name, what):
    v = env.get(name)
    if v is None:
        raise ValueError(f'{what}: `{name}` not followed')
    return v


def _svd_block_wrapped(stmts, what, want_alpha_if, facts, vect_use, alpha_use):
    env, inertia, s_name, vh_name = _svd_env(stmts, what, want_alpha_if, facts)
    vect = _pick(env, vect_use, what)
    alpha = _pick(env, alpha_use, what)
    if not (vect[0] == 'var' and vect[1].startswith('vh[')):
        raise ValueError(f'{what}: the tangent is not a row of vh')
    return vect[1][3:-1], alpha, True, inertia


def _svd_block(stmts, what, want_alpha_if=False, facts=None, vect_use=None, alpha_use=None):
    if vect_use is None:
        # voxel loop: the values written into the two fields `X[uni[i][0], uni[i][1], uni[i][2]] = <expr>`
        writes = [st for st in stmts if isinstance(st, ast.Assign) and isinstance(st.targets[0], ast.Subscript)
                  and isinstance(st.targets[0].slice, ast.Tuple) and len(st.targets[0].slice.elts) == 3]
        if len(writes) != 2:
            raise ValueError(f'{what}: expected two field writes (vector, alpha)')
        env, inertia, s_name, vh_name = _svd_env(stmts, what, want_alpha_if, facts)
        sy = Sym(env)
        vals = []
        for w in writes:
            v = w.value
            # vect.flatten()  /  alpha[0]
            if isinstance(v, ast.Call) and isinstance(v.func, ast.Attribute) and v.func.attr == 'flatten':
                v = v.func.value
            if isinstance(v, ast.Subscript) and _slice_key(v.slice) == '0':
                v = v.value
            vals.append(sy.ev(v))
        vect = next((x for x in vals if x[0] == 'var' and x[1].startswith('vh[')), None)
        alpha = next((x for x in vals if x[0] == 'iteGt'), None)
        if vect is None or alpha is None:
            raise ValueError(f'{what}: field writes are not (row of vh, guarded alpha)')
        return vect[1][3:-1], alpha, True, inertia
    return _svd_block_wrapped(stmts, what, want_alpha_if, facts, vect_use, alpha_use)


def tree2mesh(tree):
    fn = _func(tree, 'tree2meshneuron')
    # m.vertex_map = np.concatenate(NAME) if NAME else ...
    tgt = next((s for s in ast.walk(fn) if isinstance(s, ast.Assign) and isinstance(s.targets[0], ast.Attribute)
                and s.targets[0].attr == 'vertex_map'), None)
    if tgt is None:
        raise ValueError('tree2meshneuron: assignment to `.vertex_map` not found')
    cc = next((c for c in ast.walk(tgt.value) if isinstance(c, ast.Call) and _is_np(c.func, 'concatenate')), None)
    if cc is None or not isinstance(cc.args[0], ast.Name):
        raise ValueError('tree2meshneuron: vertex_map is not a concatenation of per-segment arrays')
    lst = next((s for s in ast.walk(fn) if isinstance(s, ast.Assign) and isinstance(s.targets[0], ast.Name) and s.targets[0].id == cc.args[0].id), None)
    lc = lst.value if lst is not None else None
    if not isinstance(lc, ast.ListComp):
        raise ValueError('tree2meshneuron: per-segment vertex map is not a list comprehension')
    elt = lc.elt
    var = lc.generators[0].target.id
    if not (isinstance(elt, ast.Call) and _is_np(elt.func, 'repeat') and len(elt.args) == 2 and isinstance(elt.args[0], ast.Name)
            and elt.args[0].id == var):
        raise ValueError('tree2meshneuron: vertex_map element is not np.repeat(segment, n)')
    rep = ast.unparse(elt.args[1])
    conds = []
    for c in lc.generators[0].ifs:
        if isinstance(c, ast.Compare) and isinstance(c.left, ast.Call) and isinstance(c.left.func, ast.Name) and c.left.func.id == 'len' \
                and isinstance(c.left.args[0], ast.Name) and c.left.args[0].id == var and type(c.ops[0]) in OPS:
            conds.append(('len(segment)', OPS[type(c.ops[0])], ast.unparse(c.comparators[0])))
        else:
            conds.append((ast.unparse(c), '?', ''))
    over = ast.unparse(lc.generators[0].iter)
    proc = None
    for c in ast.walk(fn):
        if isinstance(c, ast.Call) and ast.unparse(c.func).endswith('MeshNeuron'):
            p = _kw(c, 'process')
            if p is not None and isinstance(p, ast.Constant):
                proc = bool(p.value)
    # the segments iterated over hold row positions: [np.array([MAP[n] for n in seg]) for seg in x.segments] with MAP = dict(zip(node_id, arange))
    seg = next((s for s in ast.walk(fn) if isinstance(s, ast.Assign) and isinstance(s.targets[0], ast.Name) and s.targets[0].id == over), None)
    by_pos = False
    if seg is not None:
        sub = next((x for x in ast.walk(seg.value) if isinstance(x, ast.Subscript) and isinstance(x.value, ast.Name)), None)
        if sub is not None:
            mp = next((s for s in ast.walk(fn) if isinstance(s, ast.Assign) and isinstance(s.targets[0], ast.Name) and s.targets[0].id == sub.value.id), None)
            src = _src(mp.value) if mp is not None else ''
            by_pos = src.startswith('dict(zip(x.nodes.node_id,np.arange(len(x.nodes))))') and 'x.segments' in _src(seg.value)
    # single-node segments: `for ix in [seg[0] for seg in <segments> if len(seg) == 1]:` appends a sphere (radius = the node's radius
    # times the scale factor, centred on the node's coordinates) and `np.repeat(ix, <#sphere vertices>)` to the vertex map
    single = 'skipped'
    for lp in ast.walk(fn):
        if not isinstance(lp, ast.For) or not isinstance(lp.target, ast.Name):
            continue
        it = lp.iter
        if isinstance(it, ast.Name):
            d = next((s for s in ast.walk(fn) if isinstance(s, ast.Assign) and isinstance(s.targets[0], ast.Name) and s.targets[0].id == it.id), None)
            it = d.value if d is not None else it
        if not (isinstance(it, ast.ListComp) and it.generators[0].ifs and _src(it.generators[0].iter) == over):
            continue
        g = it.generators[0]
        c = g.ifs[0]
        one = isinstance(c, ast.Compare) and _src(c.left) == f'len({g.target.id})' and isinstance(c.ops[0], ast.Eq) and _src(c.comparators[0]) == '1' \
            and _src(it.elt) == f'{g.target.id}[0]'
        v = lp.target.id
        body = ' ; '.join(_src(x) for x in lp.body)
        sphere = next((x for x in ast.walk(lp) if isinstance(x, ast.Call) and _src(x.func).endswith('icosphere')), None)
        rad = _src(_kw(sphere, 'radius')) if sphere is not None and _kw(sphere, 'radius') is not None else ''
        if one and sphere is not None and rad == f'radii_map[{v}]*radius_scale_factor' and f'+co_map[{v}]' in body \
                and f'np.repeat({v},len(' in body and '+len(vertices)' in body:
            # the per-sphere map entries are added to the list that is concatenated into `.vertex_map`
            added = any(isinstance(x, ast.AugAssign) and isinstance(x.op, ast.Add) and _src(x.target) == cc.args[0].id for x in ast.walk(fn))
            single = 'sphere' if added else 'sphere-unmapped'
    return dict(repeat=rep, conds=conds, process=proc, id2ix_positions=by_pos, single=single)


def mesh2skel(tree):
    fn = _func(tree, 'mesh2skeleton')
    vm = None
    for s in ast.walk(fn):
        if isinstance(s, ast.Assign) and isinstance(s.targets[0], ast.Subscript) and _src(s.targets[0]).endswith("['vertex_map']"):
            vm = _src(s.value)
    remap = False
    for s in ast.walk(fn):
        if isinstance(s, ast.If) and _src(s.test) == 'shave':
            for lp in ast.walk(s):
                if isinstance(lp, ast.For) and isinstance(lp.target, ast.Tuple) and len(lp.target.elts) == 2 \
                        and isinstance(lp.iter, ast.Call) and isinstance(lp.iter.func, ast.Name) and lp.iter.func.id == 'zip' \
                        and len(lp.iter.args) == 2 and 'node_id' in _src(lp.iter.args[0]) and 'parent_id' in _src(lp.iter.args[1]):
                    a, b = lp.target.elts[0].id, lp.target.elts[1].id
                    for x in lp.body:
                        if isinstance(x, ast.Assign) and _src(x.targets[0]) == f's.vertex_map[s.vertex_map=={a}]' and _src(x.value) == b:
                            remap = True
    return dict(vertex_map_from=vm, bristle_remap=remap)


# ------------------------------------------------------------------------------------------------------------------
# navis/conversion/meshing.py
# ------------------------------------------------------------------------------------------------------------------
def meshing(tree):
    v2m = _func(tree, 'voxels2mesh')
    off = any(isinstance(s, ast.AugAssign) and isinstance(s.op, ast.Add) and _src(s.target) == 'mesh.vertices'
              and _src(s.value) == 'vox.offset' for s in ast.walk(v2m))
    sp = None
    for s in ast.walk(v2m):
        if isinstance(s, ast.Assign) and getattr(s.targets[0], 'id', None) == 'spacing' and 'units_xyz' in ast.unparse(s.value):
            sp = _src(s.value)
    single = _func(tree, '_mesh_from_voxels_single')
    pad, off_name = None, None
    for s in ast.walk(single):
        if isinstance(s, ast.Assign) and isinstance(s.value, ast.Call) and isinstance(s.value.func, ast.Name) \
                and s.value.func.id == '_voxels_to_matrix' and isinstance(s.targets[0], ast.Tuple):
            p = _kw(s.value, 'pad')
            pad = int(p.value) if isinstance(p, ast.Constant) else None
            off_name = s.targets[0].elts[1].id
    if pad is None:
        raise ValueError('_mesh_from_voxels_single: `mat, offset = _voxels_to_matrix(voxels, pad=<literal>)` not found')
    mcs = next((s for s in ast.walk(single) if isinstance(s, ast.Assign) and isinstance(s.value, ast.Call)
                and _src(s.value.func) == 'marching_cubes' and isinstance(s.targets[0], ast.Tuple)), None)
    if mcs is None:
        raise ValueError('_mesh_from_voxels_single: marching_cubes call not found')
    verts_name = mcs.targets[0].elts[0].id
    mc = mcs.value
    mc_spacing = _src(_kw(mc, 'spacing')) if _kw(mc, 'spacing') is not None else None
    mc_level = _src(_kw(mc, 'level')) if _kw(mc, 'level') is not None else None
    e = V('verts')
    sy = Sym({off_name: V('offset')})
    for s in sorted((s for s in ast.walk(single) if isinstance(s, ast.AugAssign) and _src(s.target) == verts_name), key=lambda s: s.lineno):
        if not isinstance(s.op, (ast.Add, ast.Sub)):
            raise ValueError('_mesh_from_voxels_single: unexpected augmented assignment to the vertices')
        e = B('add' if isinstance(s.op, ast.Add) else 'sub', e, sy.ev(s.value))
    tri = next((c for c in ast.walk(single) if isinstance(c, ast.Call) and _src(c.func) == 'tm.Trimesh'), None)
    if tri is None or _src(tri.args[0]) != verts_name:
        raise ValueError('_mesh_from_voxels_single: the mesh is not built from the marching-cubes vertices')
    chunked = _func(tree, '_mesh_from_voxels_chunked')
    tri = next((c for c in ast.walk(chunked) if isinstance(c, ast.Call) and _src(c.func) == 'tm.Trimesh'), None)
    if tri is None or not isinstance(tri.args[0], ast.Name):
        raise ValueError('_mesh_from_voxels_chunked: tm.Trimesh(vertices, faces) not found')
    av = tri.args[0].id
    st = [s for s in ast.walk(chunked) if isinstance(s, ast.Assign) and getattr(s.targets[0], 'id', None) == av and not isinstance(s.value, ast.List)]
    if len(st) != 1:
        raise ValueError('_mesh_from_voxels_chunked: final vertex expression not found')
    # stripped voxel offset: NAME = voxels.min(axis=0)
    strip = [s for s in chunked.body if isinstance(s, ast.Assign) and isinstance(s.targets[0], ast.Name) and _src(s.value) == 'voxels.min(axis=0)']
    if len(strip) != 1:
        raise ValueError('_mesh_from_voxels_chunked: `offset = voxels.min(axis=0)` not found')

    def roles(n):
        if isinstance(n, ast.Call) and _is_np(n.func, 'concatenate'):
            return V('verts')
        if isinstance(n, ast.Name) and n.id == strip[0].targets[0].id:
            return V('offset')
        return None
    ce = Sym({}, roles).ev(st[0].value)
    return dict(add_offset=off, auto_spacing=sp, pad=pad, mc_spacing=mc_spacing, mc_level=mc_level, single=e, chunked=ce,
                chunk_offset_src='voxels.min(axis=0)')


# ------------------------------------------------------------------------------------------------------------------
# navis/graph/converters.py
# ------------------------------------------------------------------------------------------------------------------
def tangents(tree):
    fn = _func(tree, 'neuron2tangents')
    body = _body(fn)
    ret = next((s for s in body if isinstance(s, ast.Return)), None)
    if ret is None or not isinstance(ret.value, ast.Tuple) or len(ret.value.elts) != 3 or not all(isinstance(e, ast.Name) for e in ret.value.elts):
        raise ValueError('neuron2tangents: `return points, vect, length` not found')
    r_points, r_vect, r_length = (e.id for e in ret.value.elts)
    # the filtered table: NAME = x.nodes[x.nodes.parent_id >= 0]
    tab = next((s for s in body if isinstance(s, ast.Assign) and isinstance(s.targets[0], ast.Name) and isinstance(s.value, ast.Subscript)
                and _src(s.value.value) == 'x.nodes' and isinstance(s.value.slice, ast.Compare)), None)
    if tab is None:
        raise ValueError('neuron2tangents: filtered node table not found')
    tname = tab.targets[0].id
    root_filter = _cmp(tab.value.slice, lambda x: x.attr if isinstance(x, ast.Attribute) else ast.unparse(x))
    info = {'index_col': None, 'key': None}

    def roles(n):
        s = _src(n)
        if isinstance(n, (ast.Attribute, ast.Subscript)) and s.endswith('.values') or isinstance(n, ast.Subscript):
            if ".set_index('node_id')" in s and f'.loc[{tname}.parent_id,' in s and s.startswith('x.nodes'):
                info['index_col'], info['key'] = 'node_id', 'parent_id'
                return V('parent')
            if '.loc[' in s and 'parent_id' in s:
                # a parent lookup of another form: record what it is keyed on
                info['index_col'] = 'node_id' if ".set_index('node_id')" in s else 'position'
                info['key'] = 'parent_id'
                return V('parent')
            if s.startswith(f"{tname}[['x','y','z']]"):
                return V('child')
        return None
    sy = Sym({}, roles)
    filtered = []
    norm_e = None
    first = {}

    def role_name(nm):
        return {r_points: 'points', r_vect: 'vect', r_length: 'length'}.get(nm, nm)

    def on(st):
        nonlocal norm_e
        if isinstance(st, ast.Assign) and len(st.targets) == 1 and isinstance(st.targets[0], ast.Name):
            name, v = st.targets[0].id, st.value
            if isinstance(v, ast.Subscript) and isinstance(v.value, ast.Name) and v.value.id == name and isinstance(v.slice, ast.Compare):
                filtered.append((role_name(name),) + _cmp(v.slice, lambda x: role_name(x.id) if isinstance(x, ast.Name) else ast.unparse(x)))
                return True
            if name == r_vect and name in first:
                norm_e = Sym({name: V('vect')}).ev(v)
                return True
            if name in (r_points, r_vect, r_length) and name not in first:
                first[name] = sy.ev(v)
                sy.env[name] = first[name]
                return True
        return False
    sy.run(body, on)
    for need in (r_points, r_vect, r_length):
        if need not in first:
            raise ValueError(f'neuron2tangents: the returned `{need}` is not computed at the top level')
    return dict(root_filter=root_filter, index_col=info['index_col'], key=info['key'], vect=first[r_vect], points=first[r_points],
                length=first[r_length], filtered=filtered, norm=norm_e, order=['points', 'vect', 'length'])


# ------------------------------------------------------------------------------------------------------------------
# navis/core/core_utils.py, navis/core/dotprop.py
# ------------------------------------------------------------------------------------------------------------------
def dotprops(core_utils, dotprop):
    fn = _func(core_utils, 'make_dotprops')
    args = fn.args
    names = [a.arg for a in args.args]
    defaults = dict(zip(names[len(names) - len(args.defaults):], args.defaults))
    dk = defaults.get('k')
    if not (isinstance(dk, ast.Constant) and isinstance(dk.value, int)):
        raise ValueError('make_dotprops: default of k is not an integer literal')
    body = _body(fn)
    pos = {}
    sy = Sym()
    tree_name = None
    for i, st in enumerate(body):
        s = _src(st)
        if s == 'x=x[np.all(np.isfinite(x),axis=1)]':
            pos['finite'] = i
        if isinstance(st, ast.Assign) and len(st.targets) == 1 and isinstance(st.targets[0], ast.Name):
            name, v = st.targets[0].id, st.value
            if _src(v) == 'x.shape[0]' and 'finite' in pos:
                pos.setdefault('count', i)
                sy.env[name] = V('n')
            elif name == 'k' and isinstance(v, ast.Call) and isinstance(v.func, ast.Name) and v.func.id == 'min':
                pos['clip'] = i
                clip_e = sy.ev(v)
            elif isinstance(v, ast.Call) and ast.unparse(v.func).endswith('KDTree'):
                pos['tree'] = i
                tree_name = name
                tree_pts = _src(v.args[0]) if v.args else None
        if isinstance(st, ast.Assign) and isinstance(st.value, ast.Call) and isinstance(st.value.func, ast.Attribute) \
                and st.value.func.attr == 'query' and isinstance(st.value.func.value, ast.Name) and st.value.func.value.id == tree_name:
            pos['query'] = i
            q = st.value
            query_pts = _src(q.args[0]) if q.args else None
            query_k = _src(_kw(q, 'k')) if _kw(q, 'k') is not None else None
    for need in ('finite', 'count', 'clip', 'tree', 'query'):
        if need not in pos:
            raise ValueError(f'make_dotprops: statement `{need}` not found in the expected form')
    order_ok = pos['finite'] < pos['count'] < pos['clip'] < pos['tree'] < pos['query']
    ret = next((s for s in body if isinstance(s, ast.Return)), None)
    if ret is None or not isinstance(ret.value, ast.Call):
        raise ValueError('make_dotprops: final `return core.Dotprops(...)` not found')
    rk = {k.arg: k.value for k in ret.value.keywords if k.arg}
    if not all(isinstance(rk.get(a), ast.Name) for a in ('points', 'vect', 'alpha')):
        raise ValueError('make_dotprops: Dotprops(points=, vect=, alpha=) not found')
    facts = {}
    vect, alpha, svd, inertia = _svd_block(body, 'make_dotprops', facts=facts, vect_use=rk['vect'].id, alpha_use=rk['alpha'].id)
    stored_k = any(_src(s) == "properties['k']=k" and i > pos['clip'] for i, s in enumerate(body))
    skel = None
    for st in ast.walk(fn):
        if isinstance(st, ast.If) and 'neuron2tangents' in ast.unparse(st):
            t = st.test
            if isinstance(t, ast.BoolOp) and isinstance(t.op, ast.Or):
                cmpn = next((v for v in t.values if isinstance(v, ast.Compare)), None)
                call = next((c for c in ast.walk(st) if isinstance(c, ast.Call) and ast.unparse(c.func).endswith('Dotprops')), None)
                tup = next((s for s in st.body if isinstance(s, ast.Assign) and isinstance(s.targets[0], ast.Tuple)), None)
                if cmpn is not None and call is not None and tup is not None:
                    order = [e.id for e in tup.targets[0].elts]
                    kw = {k.arg: ast.unparse(k.value) for k in call.keywords if k.arg}
                    # which result position feeds which keyword
                    feeds = {a: (order.index(kw[a]) if kw.get(a) in order else -1) for a in ('points', 'vect', 'length')}
                    skel = dict(cmp=_cmp(cmpn, lambda x: ast.unparse(x)), none_too='type(None)' in ast.unparse(t), feeds=feeds,
                                k_kw=kw.get('k'), alpha_kw=kw.get('alpha'))
    if skel is None:
        raise ValueError('make_dotprops: skeleton branch (k <= 0 -> neuron2tangents) not found')
    # recalculate_tangents
    rt = _func(dotprop, 'recalculate_tangents', 'Dotprops')
    rbody = _body(rt)
    rfacts = {}
    r_vect, r_alpha, r_svd, r_inertia = _svd_block(rbody, 'recalculate_tangents', facts=rfacts, vect_use='x.vect', alpha_use='x.alpha')
    rsy = Sym()
    raise_cmp = None
    for st in rbody:
        if isinstance(st, ast.Assign) and isinstance(st.targets[0], ast.Name) and _src(st.value).endswith('.points.shape[0]'):
            rsy.env[st.targets[0].id] = V('n')
        if isinstance(st, ast.If) and any(isinstance(x, ast.Raise) for x in st.body) and isinstance(st.test, ast.Compare):
            names_ = {n.id for n in ast.walk(st.test) if isinstance(n, ast.Name)}
            if any(rsy.env.get(n) == V('n') for n in names_):
                raise_cmp = _cmp(st.test, lambda x: (rsy.env.get(x.id, V(x.id))[1] if isinstance(x, ast.Name) else ast.unparse(x)))
    rq = next((c for c in ast.walk(rt) if isinstance(c, ast.Call) and isinstance(c.func, ast.Attribute) and c.func.attr == 'query'), None)
    return dict(default_k=int(dk.value), clip=clip_e, order_ok=order_ok, query_pts=query_pts, query_k=query_k, tree_pts=tree_pts,
                pt_src=facts.get('neighbours_src'), vect=vect, alpha=alpha, svd=svd, inertia=inertia,
                ret_points=_src(rk['points']), stored_k=stored_k, skel=skel,
                r_vect=r_vect, r_alpha=r_alpha, r_svd=r_svd, r_inertia=r_inertia, r_raise=raise_cmp,
                r_query=(_src(rq.args[0]) if rq is not None and rq.args else None,
                         _src(_kw(rq, 'k')) if rq is not None and _kw(rq, 'k') is not None else None),
                r_pt_src=rfacts.get('neighbours_src'))


# ------------------------------------------------------------------------------------------------------------------
def dp_cache(dotprop):
    """`Dotprops.points` setter: does every path reset `_tree`?  `Dotprops.kdtree`: rebuilt from the current points when invalid?"""
    cls = next((n for n in ast.walk(dotprop) if isinstance(n, ast.ClassDef) and n.name == 'Dotprops'), None)
    if cls is None:
        raise ValueError('class Dotprops not found')
    setter = next((m for m in cls.body if isinstance(m, ast.FunctionDef) and m.name == 'points'
                   and any(_src(d) == 'points.setter' for d in m.decorator_list)), None)
    getter = next((m for m in cls.body if isinstance(m, ast.FunctionDef) and m.name == 'kdtree'), None)
    if setter is None or getter is None:
        raise ValueError('Dotprops.points setter / Dotprops.kdtree not found')

    def is_reset(st):
        if isinstance(st, ast.Assign) and any(_src(t) == 'self._tree' for t in st.targets):
            return isinstance(st.value, ast.Constant) and st.value.value is None
        if isinstance(st, ast.Delete) and any(_src(t) == 'self._tree' for t in st.targets):
            return True
        return False
    body = _body(setter)
    top = [i for i, st in enumerate(body) if is_reset(st)]
    # unconditional: a reset at the top level of the body, and no `return` anywhere before it
    uncond = False
    if top:
        before = body[:top[0]]
        uncond = not any(isinstance(x, ast.Return) for st in before for x in ast.walk(st))
    stores = any(isinstance(st, ast.Assign) and any(_src(t) == 'self._points' for t in st.targets) for st in body)
    g = _body(getter)
    rebuild = False
    built_from = ''
    for st in g:
        if isinstance(st, ast.If) and _src(st.test) in ("notgetattr(self,'_tree',None)", "getattr(self,'_tree',None)isNone",
                                                        "self._treeisNone"):
            for x in st.body:
                if isinstance(x, ast.Assign) and _src(x.targets[0]) == 'self._tree' and isinstance(x.value, ast.Call):
                    rebuild = True
                    built_from = _src(x.value.args[0]) if x.value.args else ''
    return dict(resets=uncond, stores=stores, rebuild=rebuild, built_from=built_from)


def _b(x):
    return 'true' if x else 'false'


def _s(x):
    return '"' + str(x).replace('\\', '\\\\').replace('"', '\\"') + '"'


def _cmps(l):
    return '[' + ', '.join(cmp_lean(c) for c in l) + ']'


def generate(repo: Path):
    repo = Path(repo)
    conv = ast.parse((repo / 'navis/conversion/converters.py').read_text())
    mesh = ast.parse((repo / 'navis/conversion/meshing.py').read_text())
    gconv = ast.parse((repo / 'navis/graph/converters.py').read_text())
    cu = ast.parse((repo / 'navis/core/core_utils.py').read_text())
    dpm = ast.parse((repo / 'navis/core/dotprop.py').read_text())

    ix = make_voxels(conv)
    nv = neuron2voxels(conv, ix)
    tm_ = tree2mesh(conv)
    ms = mesh2skel(conv)
    me = meshing(mesh)
    tg = tangents(gconv)
    dp = dotprops(cu, dpm)
    dc = dp_cache(dpm)
    f = nv['facts']

    L_ = []
    A = L_.append
    A('import NavisModel.Model.ConvExpr')
    A('/- GENERATED by translator/gen_conv.py from navis/conversion/converters.py, navis/conversion/meshing.py,')
    A('   navis/graph/converters.py, navis/core/core_utils.py, navis/core/dotprop.py.')
    A('   Do not edit: regenerated from the current source tree on every `./check C19`. -/')
    A('namespace Navis.Gen.Conv')
    A('open Navis.ConvExpr')
    A('')
    A('/-! ## voxelisation (`_make_voxels`, `neuron2voxels`) -/')
    A('/-- `_make_voxels`: voxel of a point before the lower bound is subtracted. -/')
    A(f'def rawIndexE : E := {lean(ix)}')
    A('/-- `neuron2voxels`: the index array that fills the grid, and the per-point index array the `vectors`/`alphas` loop runs over. -/')
    A(f'def voxelIndexE : E := {lean(nv["vxl"])}')
    A(f'def pointIndexE : E := {lean(nv["ix"])}')
    A('/-- the `shape=` of the grid, the `offset=` and the per-axis factor of the `units=` given to `VoxelNeuron`. -/')
    A(f'def shapeE : E := {lean(nv["shape"])}')
    A(f'def offsetE : E := {lean(nv["offset"])}')
    A(f'def unitsE : E := {lean(nv["units"])}')
    A('/-- the conjuncts of the mask that keeps a voxel (`idx` = the index array, `shape` = the grid shape). -/')
    A(f'def inBoundsMask : List Cmp := {_cmps(nv["mask"])}')
    A('/-- the index array is filtered with the mask; under `if counts:` the counts are filtered with the same mask. -/')
    A(f'def voxelsFiltered : Bool := {_b(nv["vox_filtered"])}')
    A(f'def countsFiltered : Bool := {_b(nv["counts_filtered"])}')
    A('/-- `vectors` / `alphas` loop: the disjuncts of the `continue` condition; the points of a voxel are `pts[inverse == i]`. -/')
    A(f'def loopSkip : List Cmp := {_cmps(nv["skip"] or [])}')
    A(f'def loopSelects : String := {_s(f.get("loop_selects"))}')
    A(f'def voxelAlphaE : E := {lean(nv["vox_alpha"])}')
    A(f'def voxelAlphaOtherGuards : List String := [{", ".join(_s(g) for g in f.get("alpha_other_guards", []))}]')
    A(f'def voxelVectIndex : String := {_s(nv["vox_vect_index"])}')
    A(f'def voxelInertiaE : E := {lean(nv["vox_inertia"])}')
    A(f'def makeVoxelsStrip : Bool := {_b(f.get("strip"))}')
    A(f'def defaultBounds : String := {_s(f.get("default_bounds"))}')
    A(f'def transposes23 : Bool := {_b(f.get("transpose23"))}')
    A(f'def unitsName : String := {_s(f.get("units_name"))}')
    A('')
    A('/-! ## skeleton → tangents (`neuron2tangents`) -/')
    A(f'def rootFilter : Cmp := {cmp_lean(tg["root_filter"])}')
    A(f'def parentIndexColumn : String := {_s(tg["index_col"])}')
    A(f'def parentLookupKey : String := {_s(tg["key"])}')
    A(f'def tangentVectE : E := {lean(tg["vect"])}')
    A(f'def midpointE : E := {lean(tg["points"])}')
    A(f'def lengthE : E := {lean(tg["length"])}')
    A(f'def normalisedE : E := {lean(tg["norm"]) if tg["norm"] else "(.lit 0)"}')
    A('/-- `(array, lhs, op, rhs)` of every `array = array[length <op> 0]` filter (arrays named by their position in the `return`). -/')
    A('def zeroLengthFilters : List (String × Cmp) := [' + ', '.join(f'({_s(n)}, {cmp_lean((a, o, b))})' for n, a, o, b in tg['filtered']) + ']')
    A('')
    A('/-! ## point cloud → dotprops (`make_dotprops`, `Dotprops.recalculate_tangents`) -/')
    A(f'def defaultK : Nat := {dp["default_k"]}')
    A(f'def clippedKE : E := {lean(dp["clip"])}')
    A('/-- finite-row filter → count → clip → KD-tree → query, in this order. -/')
    A(f'def dotsOrderOK : Bool := {_b(dp["order_ok"])}')
    A(f'def dotsQuery : String × String × String := ({_s(dp["tree_pts"])}, {_s(dp["query_pts"])}, {_s(dp["query_k"])})')
    A(f'def dotsReturnsPoints : String := {_s(dp["ret_points"])}')
    A(f'def dotsStoresClippedK : Bool := {_b(dp["stored_k"])}')
    A(f'def dotsSvdOfInertia : Bool := {_b(dp["svd"])}')
    A(f'def dotsInertiaE : E := {lean(dp["inertia"])}')
    A(f'def dotsVectIndex : String := {_s(dp["vect"])}')
    A(f'def dotsAlphaE : E := {lean(dp["alpha"])}')
    sk = dp['skel']
    A(f'def skeletonBranchCmp : Cmp := {cmp_lean(sk["cmp"])}')
    A(f'def skeletonBranchAlsoNone : Bool := {_b(sk["none_too"])}')
    A('/-- which position of `neuron2tangents`\' result feeds `points=`, `vect=`, `length=`; the literal `k=` / `alpha=`. -/')
    A(f'def skeletonBranchFeeds : List Int := [{sk["feeds"]["points"]}, {sk["feeds"]["vect"]}, {sk["feeds"]["length"]}]')
    A(f'def skeletonBranchK : String := {_s(sk["k_kw"])}')
    A(f'def recalcVectIndex : String := {_s(dp["r_vect"])}')
    A(f'def recalcAlphaE : E := {lean(dp["r_alpha"])}')
    A(f'def recalcInertiaE : E := {lean(dp["r_inertia"])}')
    A(f'def recalcSvdOfInertia : Bool := {_b(dp["r_svd"])}')
    A(f'def recalcRaises : Cmp := {cmp_lean(dp["r_raise"]) if dp["r_raise"] else cmp_lean(("", "", ""))}')
    A(f'def recalcQuery : String × String := ({_s(dp["r_query"][0])}, {_s(dp["r_query"][1])})')
    A('')
    A('/-- `Dotprops.points` setter: stores the array and resets `_tree` on every path (not under a condition); `Dotprops.kdtree` builds the')
    A('    tree from the current points when there is none. -/')
    A(f'def pointsSetterResetsTree : Bool := {_b(dc["resets"])}')
    A(f'def pointsSetterStores : Bool := {_b(dc["stores"])}')
    A(f'def kdtreeRebuildsWhenInvalid : Bool := {_b(dc["rebuild"])}')
    A(f'def kdtreeBuiltFrom : String := {_s(dc["built_from"])}')
    A('')
    A('/-! ## meshes (`tree2meshneuron`, `voxels2mesh`, `mesh2skeleton`) -/')
    A(f'def tubeVertexMapRepeat : String := {_s(tm_["repeat"])}')
    A(f'def tubeVertexMapConds : List Cmp := {_cmps(tm_["conds"])}')
    A(f'def tubeMeshProcess : Bool := {_b(tm_["process"])}')
    A(f'def tubeSegmentsByPosition : Bool := {_b(tm_["id2ix_positions"])}')
    A('/-- what `tree2meshneuron` does with single-node segments (`make_tube` skips them): "sphere" = a sphere of the node\'s radius around the node, with vertex-map entries. -/')
    A(f'def tubeSingleNodeSegments : String := {_s(tm_["single"])}')
    A(f'def voxelMeshAddsOffset : Bool := {_b(me["add_offset"])}')
    A(f'def voxelMeshAutoSpacing : String := {_s(me["auto_spacing"])}')
    A(f'def singlePad : Nat := {me["pad"]}')
    A(f'def singleMarchingSpacing : String := {_s(me["mc_spacing"])}')
    A(f'def marchingLevel : String := {_s(me["mc_level"])}')
    A(f'def singleVertsE : E := {lean(me["single"])}')
    A(f'def chunkedVertsE : E := {lean(me["chunked"])}')
    A(f'def skeletonVertexMapFrom : String := {_s(ms["vertex_map_from"])}')
    A(f'def skeletonBristleRemap : Bool := {_b(ms["bristle_remap"])}')
    A('')
    A('end Navis.Gen.Conv')
    src = '\n'.join(L_) + '\n'
    meta = {'sources': ['navis/conversion/converters.py', 'navis/conversion/meshing.py', 'navis/graph/converters.py',
                        'navis/core/core_utils.py', 'navis/core/dotprop.py'],
            'default_k': dp['default_k'], 'expressions': 16, 'facts': 40}
    return 'Conv.lean', src, meta
