def generate(repo):
    raise NotImplementedError
