"""C02 translator: re-extract the declarative facts of the cache protocol from the navis source with `ast`
and write them as a `Navis.Cache.Spec` value (lean/NavisModel/Gen/CacheSpec.lean).

Extracted (nothing is imported or executed):
  * `TreeNeuron.TEMP_ATTR`, `TreeNeuron.CORE_DATA` (core/skeleton.py)
  * the cached views of `TreeNeuron`: every `@property` whose body tests `hasattr(self, '<a>')` or assigns
    `self.<a>` for an `<a>` in TEMP_ATTR; whether it carries `@temp_property`; whether its body calls `self.copy()`
  * every `_clear_temp_attr(...)` call site under navis/ with the literal `exclude=[…]` list, the enclosing
    function and whether that function is decorated with `@lock_neuron`; all `@lock_neuron` functions
  * what `TreeNeuron.__getstate__` pops, the `no_copy` list of `TreeNeuron.copy` and whether `copy` is
    `if not self.is_stale: … else: x._clear_temp_attr()`
  * the shape of `BaseNeuron.is_stale`, `BaseNeuron._clear_temp_attr` (incl. any rewrite of `exclude`), the
    `temp_property` wrapper and `utils.lock_neuron` (lock released in a `finally:`; staleness check + clear
    before the lock is taken)
  * what `BaseNeuron.core_md5` feeds to the hash function: column selection, any dtype conversion (as a literal)
    and the number of significand bits that survive it.
"""
import ast
from pathlib import Path

PROPS = ['C02']


def _lit(node):
    try:
        return ast.literal_eval(node)
    except Exception:
        return None


def _deco_names(fn):
    out = []
    for d in fn.decorator_list:
        if isinstance(d, ast.Call):
            d = d.func
        if isinstance(d, ast.Attribute):
            out.append(d.attr)
        elif isinstance(d, ast.Name):
            out.append(d.id)
    return out


def _class(tree, name):
    for n in tree.body:
        if isinstance(n, ast.ClassDef) and n.name == name:
            return n
    raise ValueError(f'class {name} not found')


def _method(cls, name, deco=None):
    for n in cls.body:
        if isinstance(n, ast.FunctionDef) and n.name == name:
            if deco is None or deco in _deco_names(n):
                return n
    return None


def _class_assign(cls, name):
    for n in cls.body:
        if isinstance(n, ast.Assign) and any(isinstance(t, ast.Name) and t.id == name for t in n.targets):
            return _lit(n.value)
        if isinstance(n, ast.AnnAssign) and isinstance(n.target, ast.Name) and n.target.id == name and n.value is not None:
            return _lit(n.value)
    return None


def _is_self_attr(node, attr=None, names=('self',)):
    return (isinstance(node, ast.Attribute) and isinstance(node.value, ast.Name) and node.value.id in names
            and (attr is None or node.attr == attr))


def _src(node):
    return ast.unparse(node)


def extract_views(cls, temp_attr):
    views = []
    for fn in cls.body:
        if not isinstance(fn, ast.FunctionDef):
            continue
        decos = _deco_names(fn)
        if 'property' not in decos:
            continue
        attrs = []
        self_copy = False
        for n in ast.walk(fn):
            if isinstance(n, ast.Call) and isinstance(n.func, ast.Name) and n.func.id == 'hasattr' and len(n.args) == 2:
                a = _lit(n.args[1])
                if isinstance(n.args[0], ast.Name) and n.args[0].id == 'self' and a in temp_attr and a not in attrs:
                    attrs.append(a)
            if isinstance(n, ast.Assign):
                for t in n.targets:
                    if _is_self_attr(t) and t.attr in temp_attr and t.attr not in attrs:
                        attrs.append(t.attr)
            if isinstance(n, ast.Call) and _is_self_attr(n.func, 'copy'):
                self_copy = True
        if len(attrs) == 1:
            views.append(dict(name=fn.name, attr=attrs[0], wrapped='temp_property' in decos, selfCopy=self_copy,
                              line=fn.lineno))
        elif len(attrs) > 1:
            raise ValueError(f'property {fn.name} touches several cache attributes {attrs}')
    return views


def extract_clear_sites(repo):
    sites, locked_fns = [], []
    for f in sorted((repo / 'navis').rglob('*.py')):
        rel = f.relative_to(repo).as_posix()
        if '/tests/' in rel or rel.startswith('navis/tests'):
            continue
        try:
            tree = ast.parse(f.read_text())
        except SyntaxError:
            continue
        # map every node to its outermost enclosing function and the class (if any)
        def visit(node, stack):
            for ch in ast.iter_child_nodes(node):
                st = stack
                if isinstance(ch, (ast.FunctionDef, ast.AsyncFunctionDef, ast.ClassDef)):
                    st = stack + [ch]
                    if isinstance(ch, ast.FunctionDef) and 'lock_neuron' in _deco_names(ch):
                        locked_fns.append(f"{rel[len('navis/'):-3].replace('/', '.')}.{ch.name}")
                if isinstance(ch, ast.Call) and isinstance(ch.func, ast.Attribute) and ch.func.attr == '_clear_temp_attr':
                    # skip `super()._clear_temp_attr(exclude=exclude)` (forwarding, not a call site of its own)
                    if isinstance(ch.func.value, ast.Call) and isinstance(ch.func.value.func, ast.Name) \
                            and ch.func.value.func.id == 'super':
                        pass
                    else:
                        excl = []
                        dynamic = False
                        for kw in ch.keywords:
                            if kw.arg == 'exclude':
                                v = _lit(kw.value)
                                if isinstance(v, (list, tuple)) and all(isinstance(s, str) for s in v):
                                    excl = list(v)
                                else:
                                    dynamic = True
                        if ch.args:
                            v = _lit(ch.args[0])
                            if isinstance(v, (list, tuple)) and all(isinstance(s, str) for s in v):
                                excl = list(v)
                            else:
                                dynamic = True
                        fns = [s for s in st if isinstance(s, (ast.FunctionDef, ast.AsyncFunctionDef))]
                        qual = '.'.join(s.name for s in st) or '<module>'
                        locked = any('lock_neuron' in _deco_names(s) for s in fns)
                        if dynamic:
                            raise ValueError(f'{rel}:{ch.lineno}: _clear_temp_attr with a non-literal exclude')
                        sites.append(dict(fn=f"{rel[len('navis/'):-3].replace('/', '.')}.{qual}", excl=excl,
                                          locked=locked, line=ch.lineno, recv=_src(ch.func.value)))
                visit(ch, st)
        visit(tree, [])
    return sites, sorted(set(locked_fns))


def shape_is_stale(fn):
    """(recomputes, sticky)"""
    recomputes = sticky = False
    for n in ast.walk(fn):
        if isinstance(n, ast.Assign) and any(_is_self_attr(t, '_stale') for t in n.targets):
            v = n.value
            if isinstance(v, ast.Compare) and len(v.ops) == 1 and isinstance(v.ops[0], ast.NotEq):
                sides = {_src(v.left), _src(v.comparators[0])}
                if sides == {'self._current_md5', 'self.core_md5'}:
                    recomputes = True
        if isinstance(n, ast.If):
            t = _src(n.test)
            if '_stale' in t and any(isinstance(b, ast.Return) and _lit(b.value) is True for b in n.body):
                sticky = True
    # the value returned at the end must be the recomputed flag
    rets = [n for n in ast.walk(fn) if isinstance(n, ast.Return)]
    if not any(r.value is not None and _src(r.value) == 'self._stale' for r in rets):
        recomputes = False
    return recomputes, sticky


def shape_clear(fn):
    """(guardsLock, restamps, deletes) of BaseNeuron._clear_temp_attr"""
    guards = restamps_md5 = restamps_flag = deletes = False
    first = [b for b in fn.body if not (isinstance(b, ast.Expr) and isinstance(b.value, ast.Constant))]
    if first and isinstance(first[0], ast.If) and _src(first[0].test) == 'self.is_locked' \
            and any(isinstance(b, ast.Return) for b in first[0].body):
        guards = True
    for n in fn.body:   # top level statements only: unconditional
        if isinstance(n, ast.Assign) and any(_is_self_attr(t, '_current_md5') for t in n.targets) \
                and _src(n.value) == 'self.core_md5':
            restamps_md5 = True
        if isinstance(n, ast.Assign) and any(_is_self_attr(t, '_stale') for t in n.targets) and _lit(n.value) is False:
            restamps_flag = True
        if isinstance(n, ast.For):
            it = _src(n.iter).replace(' ', '')
            if it == '[atforatinself.TEMP_ATTRifatnotinexclude]' and isinstance(n.target, ast.Name):
                tv = n.target.id
                for m in ast.walk(n):
                    if isinstance(m, ast.Call) and isinstance(m.func, ast.Name) and m.func.id == 'delattr' \
                            and len(m.args) == 2 and _src(m.args[0]) == 'self' and _src(m.args[1]) == tv:
                        deletes = True
    return guards, restamps_md5 and restamps_flag, deletes


def shape_excl_rewrite(fn):
    """Does `_clear_temp_attr` rewrite `exclude` before the delete loop?  Recognised: nothing (False) or exactly
    `exclude = list(exclude) + [f"_{e}" for e in exclude]` (True).  Anything else is an unknown matching rule."""
    prefix = False
    for n in ast.walk(fn):
        tgt = None
        if isinstance(n, ast.Assign):
            tgt = [t for t in n.targets if isinstance(t, ast.Name) and t.id == 'exclude']
        elif isinstance(n, ast.AugAssign) and isinstance(n.target, ast.Name) and n.target.id == 'exclude':
            tgt = [n.target]
        if tgt:
            src = _src(n).replace(' ', '').replace('"', "'")
            if src == "exclude=list(exclude)+[f'_{e}'foreinexclude]":
                prefix = True
            else:
                raise ValueError(f'_clear_temp_attr rewrites `exclude` in an unknown way: {_src(n)}')
    return prefix


def _attr_of(node, attr):
    """`<expr>.<attr>` -> source of <expr>, else None"""
    if isinstance(node, ast.Attribute) and node.attr == attr:
        return _src(node.value)
    return None


def shape_lock_entry(fn):
    """lock_neuron: does the wrapper validate the caches before it takes the lock?

    True iff, in the inner wrapper, a statement of the shape
        if not A.is_locked and A.is_stale: A._clear_temp_attr()
    (or the nested form `if not A.is_locked: if A.is_stale: A._clear_temp_attr()`) with A the object whose `_lock`
    is incremented comes *before* that increment.  False iff the wrapper never mentions `is_stale` /
    `_clear_temp_attr`.  Any other use of them is a protocol the model does not know (error)."""
    inner = [n for n in fn.body if isinstance(n, ast.FunctionDef)]
    if not inner:
        return False
    w = inner[0]
    # position of the increment of `_lock` and the locked object
    incs = []
    for n in ast.walk(w):
        if isinstance(n, ast.Assign) and len(n.targets) == 1 and _attr_of(n.targets[0], '_lock') is not None \
                and isinstance(n.value, ast.BinOp) and isinstance(n.value.op, ast.Add):
            incs.append((n.lineno, _attr_of(n.targets[0], '_lock')))
        if isinstance(n, ast.AugAssign) and isinstance(n.op, ast.Add) and _attr_of(n.target, '_lock') is not None:
            incs.append((n.lineno, _attr_of(n.target, '_lock')))
    mentions = [n for n in ast.walk(w) if isinstance(n, ast.Attribute) and n.attr in ('is_stale', '_clear_temp_attr')]
    if not mentions:
        return False
    if len(incs) != 1:
        raise ValueError('lock_neuron: cannot locate the increment of `_lock`')
    inc_line, obj = incs[0]

    def is_clear(stmts):
        return len(stmts) == 1 and isinstance(stmts[0], ast.Expr) and isinstance(stmts[0].value, ast.Call) \
            and _attr_of(stmts[0].value.func, '_clear_temp_attr') == obj and not stmts[0].value.args \
            and not stmts[0].value.keywords

    def not_locked(t):
        return isinstance(t, ast.UnaryOp) and isinstance(t.op, ast.Not) and _attr_of(t.operand, 'is_locked') == obj

    found = []
    for n in ast.walk(w):
        if not isinstance(n, ast.If) or n.orelse:
            continue
        t = n.test
        if isinstance(t, ast.BoolOp) and isinstance(t.op, ast.And) and len(t.values) == 2 and not_locked(t.values[0]) \
                and _attr_of(t.values[1], 'is_stale') == obj and is_clear(n.body):
            found.append(n)
        elif not_locked(t) and len(n.body) == 1 and isinstance(n.body[0], ast.If) and not n.body[0].orelse \
                and _attr_of(n.body[0].test, 'is_stale') == obj and is_clear(n.body[0].body):
            found.append(n)
    covered = set()
    for n in found:
        covered |= {id(m) for m in ast.walk(n)}
    if len(found) != 1 or any(id(m) not in covered for m in mentions):
        raise ValueError('lock_neuron: `is_stale` / `_clear_temp_attr` used in a way the cache model does not know')
    if not found[0].lineno < inc_line:
        raise ValueError('lock_neuron: staleness check does not precede the increment of `_lock`')
    return True


def shape_hash(fn):
    """core_md5: (selectsCols, perColumn, cast literal, significand bits of what reaches the hash function).

    Two known shapes of the DataFrame branch:
      * per column (current): `data = [data[c].values for c in (cols if cols else data.columns)]` and every element is
        fed to one hasher (`hasher.update(np.ascontiguousarray(d))`): each column reaches the hash function in its own
        dtype, nothing is converted (perColumn = True, bits = 0: unused);
      * whole table (before): `data = data[cols]`, `data = data.values` -> pandas' common dtype, float64 for the
        int64/float64 node table (53 significand bits).
    Known neutral steps: `getattr(self, prop)`, `[data]`, `np.ascontiguousarray(..)`.  Every other assignment to `data`
    is reported literally as a cast; the hash calls must receive `data` / the loop variable over `data` itself."""
    selects = per_column = False
    casts = []
    plain = {'getattr(self, prop)', 'data.values', 'data.to_numpy()', 'np.ascontiguousarray(data)', '[data]'}
    percol = {'[data[c].values for c in (cols if cols else data.columns)]', '[data[c].values for c in cols]',
              '[data[c].to_numpy() for c in (cols if cols else data.columns)]'}
    loopvars = set()
    for n in ast.walk(fn):
        if isinstance(n, ast.For) and _src(n.iter) == 'data' and isinstance(n.target, ast.Name):
            loopvars.add(n.target.id)
    for n in ast.walk(fn):
        if isinstance(n, ast.Assign) and any(isinstance(t, ast.Name) and t.id == 'data' for t in n.targets):
            v = _src(n.value)
            if v == 'data[cols]':
                selects = True
            elif v in percol:
                selects = per_column = True
            elif v not in plain:
                casts.append(v)
        if isinstance(n, ast.AugAssign) and isinstance(n.target, ast.Name) and n.target.id == 'data':
            casts.append(_src(n))
        if isinstance(n, ast.Call) and (_src(n.func) in ('xxhash.xxh128', 'hashlib.md5', 'xxhash.xxh64', 'xxhash.xxh3_128',
                                                         'hashlib.sha1', 'hashlib.sha256')
                                        or (isinstance(n.func, ast.Attribute) and n.func.attr == 'update'
                                            and _src(n.func.value) in ('hasher', 'h'))):
            if not n.args:
                continue            # `xxhash.xxh128()`: an empty hasher that is fed with `update`
            arg = n.args[0]
            if isinstance(arg, ast.Call) and _src(arg.func) == 'np.ascontiguousarray' and len(arg.args) == 1 and not arg.keywords:
                arg = arg.args[0]
            a = _src(arg)
            if not (a == 'data' or a in loopvars):
                casts.append(f'hash({a})')
    cast = '; '.join(casts)
    if per_column and not loopvars:
        cast = (cast + '; ' if cast else '') + 'per-column list not fed element-wise'
    if cast == '':
        bits = 0 if per_column else 53
    elif len(casts) == 1 and 'hash(' not in cast and 'float64' in cast and 'float32' not in cast:
        bits = 53
    elif len(casts) == 1 and 'hash(' not in cast and ('float32' in cast or "'f4'" in cast or 'single' in cast):
        bits = 24
    elif len(casts) == 1 and 'hash(' not in cast and ('float16' in cast or 'half' in cast):
        bits = 11
    else:
        bits = 0
    return selects, per_column and cast == '', cast, bits


def shape_iops(base_cls, other_classes):
    """Do the in-place operators validate the caches before they run?

    True iff each of `BaseNeuron.__imul__/__itruediv__/__iadd__/__isub__` calls a method M of `self` (no arguments)
    before its `return self.__op__(other, copy=False)`, M is `if not self.is_locked and self.is_stale:
    self._clear_temp_attr()` (or the nested form), and no neuron class overrides the four operators.  False iff none of
    them mentions such a call.  A mixture is a protocol the model does not know (error)."""
    ops = ['__imul__', '__itruediv__', '__iadd__', '__isub__']
    for cls in other_classes:
        for m in ops:
            if _method(cls, m) is not None:
                raise ValueError(f'{cls.name}.{m} overrides the in-place operator of BaseNeuron')
    found = []
    for m in ops:
        fn = _method(base_cls, m)
        if fn is None:
            raise ValueError(f'BaseNeuron.{m} not found')
        body = [b for b in fn.body if not (isinstance(b, ast.Expr) and isinstance(b.value, ast.Constant))]
        calls = [b for b in body[:-1] if isinstance(b, ast.Expr) and isinstance(b.value, ast.Call)
                 and isinstance(b.value.func, ast.Attribute) and _src(b.value.func.value) == 'self'
                 and not b.value.args and not b.value.keywords]
        ok = False
        for c in calls:
            mm = _method(base_cls, c.value.func.attr)
            if mm is None:
                continue
            stm = [b for b in mm.body if not (isinstance(b, ast.Expr) and isinstance(b.value, ast.Constant))]
            if len(stm) != 1 or not isinstance(stm[0], ast.If) or stm[0].orelse:
                continue
            t, bd = stm[0].test, stm[0].body
            if _src(t) == 'not self.is_locked and self.is_stale' and len(bd) == 1 and _src(bd[0]) == 'self._clear_temp_attr()':
                ok = True
            elif _src(t) == 'not self.is_locked' and len(bd) == 1 and isinstance(bd[0], ast.If) and not bd[0].orelse \
                    and _src(bd[0].test) == 'self.is_stale' and len(bd[0].body) == 1 and _src(bd[0].body[0]) == 'self._clear_temp_attr()':
                ok = True
        mentions = any(isinstance(n, ast.Attribute) and n.attr in ('is_stale', '_clear_temp_attr') for n in ast.walk(fn))
        if mentions and not ok:
            raise ValueError(f'BaseNeuron.{m}: staleness handling of an unknown shape')
        found.append(ok)
    if any(found) and not all(found):
        raise ValueError('only some of the in-place operators validate the caches first')
    return all(found)


GRAPH_ATTR = {'graph': '_graph_nx', '_graph_nx': '_graph_nx', 'igraph': '_igraph', '_igraph': '_igraph'}
MUTATORS = {'add_edge', 'add_edges', 'add_edges_from', 'add_weighted_edges_from', 'remove_edge', 'remove_edges_from',
            'add_node', 'add_nodes_from', 'remove_node', 'remove_nodes_from', 'clear', 'clear_edges', 'update',
            'delete_edges', 'delete_vertices', 'add_vertices', 'add_vertex', 'to_undirected', 'to_directed', 'contract_vertices',
            'simplify', 'permute_vertices', 'rewire', 'rewire_edges'}


def shape_copy_sharing(fn):
    """TreeNeuron.copy: which cached graph objects does the copy SHARE with the original?

    An assignment `x.<attr> = V` hands the copy an independent object only if V is provably one: `<..>.copy()` /
    `.deepcopy()` without `as_view`, or with `as_view=False`.  `self._graph_nx.copy(as_view=E)` with any other E, the
    attribute itself, or a conditional expression with such a branch count as shared (a view of / the same object)."""
    def independent(v):
        if isinstance(v, ast.IfExp):
            return independent(v.body) and independent(v.orelse)
        if isinstance(v, ast.Call) and isinstance(v.func, ast.Attribute) and v.func.attr in ('copy', 'deepcopy'):
            kw = {k.arg: k.value for k in v.keywords}
            return 'as_view' not in kw or _lit(kw['as_view']) is False
        if isinstance(v, ast.Call) and _src(v.func) in ('copy.deepcopy', 'nx.DiGraph'):
            return True
        return False
    shared = []
    for n in ast.walk(fn):
        if isinstance(n, ast.Assign) and len(n.targets) == 1 and isinstance(n.targets[0], ast.Attribute) \
                and n.targets[0].attr in ('_graph_nx', '_igraph'):
            if not independent(n.value):
                shared.append(n.targets[0].attr)
    return sorted(set(shared))


NX_PURE = {'to_undirected', 'to_directed', 'simplify'}     # return a new graph for networkx objects


def _bindings(fn, name):
    """(line, value node or None, stmt) of every binding of local `name` in source order"""
    out = []
    for n in ast.walk(fn):
        if isinstance(n, ast.Assign):
            for t in n.targets:
                for tt in (t.elts if isinstance(t, (ast.Tuple, ast.List)) else [t]):
                    if isinstance(tt, ast.Name) and tt.id == name:
                        out.append((n.lineno, n.value if not isinstance(t, (ast.Tuple, ast.List)) else None, n))
        elif isinstance(n, ast.AnnAssign) and isinstance(n.target, ast.Name) and n.target.id == name and n.value is not None:
            out.append((n.lineno, n.value, n))
        elif isinstance(n, (ast.For, ast.comprehension)):
            for tt in ast.walk(n.target):
                if isinstance(tt, ast.Name) and tt.id == name:
                    out.append((getattr(n, 'lineno', getattr(n.target, 'lineno', 0)), None, n))
        elif isinstance(n, ast.withitem) and n.optional_vars is not None:
            for tt in ast.walk(n.optional_vars):
                if isinstance(tt, ast.Name) and tt.id == name:
                    out.append((n.optional_vars.lineno, None, n))
    return sorted(out, key=lambda b: b[0])


def _alias_attr(v):
    """`<name>.graph` / `.igraph` / `._graph_nx` / `._igraph` (plain attribute, no call) -> (attr, owner)"""
    if isinstance(v, ast.Attribute) and v.attr in GRAPH_ATTR and isinstance(v.value, ast.Name):
        return GRAPH_ATTR[v.attr], v.value.id
    return None


def extract_editors(repo):
    """Functions that edit a cached graph object IN PLACE: a mutating method is called on (or `.es[..]` / `.vs[..]` is
    assigned of) a local whose defining binding is a plain `<obj>.graph` / `.igraph` / `._graph_nx` / `._igraph` (bindings
    computed from the local itself, e.g. `g = nx.DiGraph(g)`, do not end the alias; any other re-binding — a fresh
    graph, a loop variable — does).  `detaches` is True iff between that binding and the mutation the function re-binds
    the local AND the attribute to an independent object (`x._graph_nx = g = nx.DiGraph(g)` / `g.copy()`), either in the
    same statement list (unconditionally) or in the final `elif not <flag>:` branch of an if-chain whose flag starts
    False and is set True right after the chain (detach once per call) and whose other branches detach too, except
    a networkx-version guard."""
    res, seen = [], set()
    for f in sorted((repo / 'navis').rglob('*.py')):
        rel = f.relative_to(repo).as_posix()
        if '/tests/' in rel or rel.startswith('navis/tests'):
            continue
        try:
            tree = ast.parse(f.read_text())
        except SyntaxError:
            continue
        for fn in ast.walk(tree):
            if not isinstance(fn, (ast.FunctionDef, ast.AsyncFunctionDef)):
                continue
            muts = []       # (line, local name, method)
            for n in ast.walk(fn):
                if isinstance(n, ast.Call) and isinstance(n.func, ast.Attribute) and n.func.attr in MUTATORS \
                        and isinstance(n.func.value, ast.Name):
                    muts.append((n.lineno, n.func.value.id, n.func.attr))
                if isinstance(n, ast.Assign):
                    for t in n.targets:
                        if isinstance(t, ast.Subscript) and isinstance(t.value, ast.Attribute) and t.value.attr in ('es', 'vs') \
                                and isinstance(t.value.value, ast.Name):
                            muts.append((n.lineno, t.value.value.id, 'es/vs[...]='))
                # `<obj>.graph.remove_edge(...)`: mutation of the cached object without a local in between
                if isinstance(n, ast.Call) and isinstance(n.func, ast.Attribute) and n.func.attr in MUTATORS \
                        and _alias_attr(n.func.value) is not None:
                    attr_, _own = _alias_attr(n.func.value)
                    if not (attr_ == '_graph_nx' and n.func.attr in NX_PURE):
                        key_ = (f"{rel[len('navis/'):-3].replace('/', '.')}.{fn.name}", attr_)
                        if key_ not in seen:
                            seen.add(key_)
                            res.append(dict(fn=key_[0], attr=attr_, detaches=False, line=n.lineno))
            for line, name, meth in sorted(muts):
                binds = [b for b in _bindings(fn, name) if b[0] < line]
                # defining binding: the latest one that is not computed from the local itself
                own = [b for b in binds if b[1] is None or not any(isinstance(m, ast.Name) and m.id == name for m in ast.walk(b[1]))]
                if not own:
                    continue
                l0, v0, st0 = own[-1]
                al = _alias_attr(v0) if v0 is not None else None
                if al is None:
                    continue
                attr, owner = al
                if attr == '_graph_nx' and meth in NX_PURE:
                    continue
                key = (f"{rel[len('navis/'):-3].replace('/', '.')}.{fn.name}", attr)
                if key in seen:
                    continue
                seen.add(key)

                def rebinds(stmt):
                    if not isinstance(stmt, ast.Assign):
                        return False
                    tg = [_src(t) for t in stmt.targets]
                    return name in tg and f'{owner}.{attr}' in tg and _src(stmt.value) in (
                        f'nx.DiGraph({name})', f'{name}.copy()', f'nx.DiGraph({name}.copy())')

                detaches = False
                blk0 = _block_of(fn, st0)
                for n in ast.walk(fn):
                    if not (l0 < getattr(n, 'lineno', -1) < line):
                        continue
                    if rebinds(n) and any(n is b for b in blk0):
                        detaches = True
                    if isinstance(n, ast.If):
                        chain, cur = [], n
                        while True:
                            chain.append((cur.test, cur.body))
                            if len(cur.orelse) == 1 and isinstance(cur.orelse[0], ast.If):
                                cur = cur.orelse[0]
                            else:
                                tail = cur.orelse
                                break
                        test, body = chain[-1]
                        if tail or not (isinstance(test, ast.UnaryOp) and isinstance(test.op, ast.Not) and isinstance(test.operand, ast.Name)):
                            continue
                        flag = test.operand.id
                        if not any(rebinds(b) for b in body):
                            continue
                        others_ok = all(any(rebinds(b) for b in bd) or 'version' in _src(t) for t, bd in chain[:-1])
                        init_false = any(isinstance(m, ast.Assign) and _src(m.targets[0]) == flag and _lit(m.value) is False
                                         and m.lineno < n.lineno for m in ast.walk(fn))
                        set_true = any(isinstance(m, ast.Assign) and _src(m.targets[0]) == flag and _lit(m.value) is True
                                       and n.lineno < m.lineno < line for m in ast.walk(fn))
                        if others_ok and init_false and set_true:
                            detaches = True
                res.append(dict(fn=key[0], attr=attr, detaches=detaches, line=line))
    return res


def _block_of(fn, stmt):
    for n in ast.walk(fn):
        for fld in ('body', 'orelse', 'finalbody'):
            b = getattr(n, fld, None)
            if isinstance(b, list) and any(x is stmt for x in b):
                return b
    return []


def _unconditional(fn, stmt, line0):
    """stmt sits in the same statement list as the binding at line0 (no enclosing `if` in between)"""
    b = _block_of(fn, stmt)
    return any(getattr(x, 'lineno', -1) == line0 for x in b)


def shape_lock(fn):
    """lock_neuron: the decrement of `_lock` must sit in the `finally:` of the `try:` that runs the wrapped call."""
    inner = [n for n in fn.body if isinstance(n, ast.FunctionDef)]
    if not inner:
        return False
    for n in ast.walk(inner[0]):
        if isinstance(n, ast.Try) and n.finalbody:
            runs = any(isinstance(m, ast.Call) and _src(m.func) == 'function' for b in n.body for m in ast.walk(b))
            dec = any(isinstance(m, ast.AugAssign) and isinstance(m.op, ast.Sub) and _src(m.target) == 'args[0]._lock'
                      for b in n.finalbody for m in ast.walk(b))
            if runs and dec:
                return True
    return False


def shape_wrapper(fn):
    """temp_property: inner wrapper is `if not self.is_locked: if self.is_stale: self._clear_temp_attr()` followed by
    `return func(*args, **kwargs)`."""
    inner = [n for n in fn.body if isinstance(n, ast.FunctionDef)]
    if not inner:
        return False
    w = inner[0]
    ok_if = ok_ret = False
    for i, n in enumerate(w.body):
        if isinstance(n, ast.If) and _src(n.test) == 'not self.is_locked' and not n.orelse and len(n.body) == 1:
            m = n.body[0]
            if isinstance(m, ast.If) and _src(m.test) == 'self.is_stale' and len(m.body) == 1 \
                    and _src(m.body[0]) == 'self._clear_temp_attr()':
                ok_if = True
                rest = w.body[i + 1:]
                ok_ret = len(rest) == 1 and isinstance(rest[0], ast.Return) and _src(rest[0].value).startswith('func(')
    return ok_if and ok_ret


def shape_copy(fn):
    """(no_copy list, clearsIfStale)"""
    no_copy, clears = [], False
    for n in ast.walk(fn):
        if isinstance(n, ast.Assign) and any(isinstance(t, ast.Name) and t.id == 'no_copy' for t in n.targets):
            no_copy = _lit(n.value) or []
        if isinstance(n, ast.If) and _src(n.test) == 'not self.is_stale':
            for m in n.orelse:
                if _src(m) == 'x._clear_temp_attr()':
                    clears = True
    # the dict update must skip only `no_copy`
    upd = [n for n in ast.walk(fn) if isinstance(n, ast.Call) and _src(n.func) == 'x.__dict__.update']
    if not upd or 'if k not in no_copy' not in _src(upd[0]):
        raise ValueError('TreeNeuron.copy: unexpected __dict__ update')
    return list(no_copy), clears


def shape_getstate(fn):
    drops = []
    for n in ast.walk(fn):
        if isinstance(n, ast.Call) and isinstance(n.func, ast.Attribute) and n.func.attr == 'pop' and n.args:
            v = _lit(n.args[0])
            if isinstance(v, str):
                drops.append(v)
    return drops


def lstr(xs):
    return '[' + ', '.join('"' + x.replace('\\', '\\\\').replace('"', '\\"') + '"' for x in xs) + ']'


def lb(b):
    return 'true' if b else 'false'


def extract(repo: Path):
    skel = ast.parse((repo / 'navis/core/skeleton.py').read_text())
    base = ast.parse((repo / 'navis/core/base.py').read_text())
    cu = ast.parse((repo / 'navis/core/core_utils.py').read_text())
    TN = _class(skel, 'TreeNeuron')
    BN = _class(base, 'BaseNeuron')
    temp_attr = _class_assign(TN, 'TEMP_ATTR')
    core_data = _class_assign(TN, 'CORE_DATA')
    if not isinstance(temp_attr, list) or not isinstance(core_data, list):
        raise ValueError('TEMP_ATTR / CORE_DATA not literal lists')
    if len(core_data) != 1 or ':' not in core_data[0]:
        raise ValueError(f'unexpected CORE_DATA {core_data}')
    table, cols = core_data[0].split(':')
    cols = cols.split(',')
    views = extract_views(TN, temp_attr)
    sites, locked_fns = extract_clear_sites(repo)
    recomputes, sticky = shape_is_stale(_method(BN, 'is_stale'))
    guards, restamps, deletes = shape_clear(_method(BN, '_clear_temp_attr'))
    # the TreeNeuron override must forward `exclude` to super and classify unless excluded
    tn_clear = _method(TN, '_clear_temp_attr')
    tn_src = _src(tn_clear)
    if 'super()._clear_temp_attr(exclude=exclude)' not in tn_src or "if 'classify_nodes' not in exclude" not in tn_src:
        raise ValueError('TreeNeuron._clear_temp_attr: unexpected shape')
    tp = [n for n in cu.body if isinstance(n, ast.FunctionDef) and n.name == 'temp_property']
    wrapper = shape_wrapper(tp[0]) if tp else False
    excl_prefix = shape_excl_rewrite(_method(BN, '_clear_temp_attr'))
    deco = ast.parse((repo / 'navis/utils/decorators.py').read_text())
    ln = [n for n in deco.body if isinstance(n, ast.FunctionDef) and n.name == 'lock_neuron']
    lock_finally = shape_lock(ln[0]) if ln else False
    lock_checks = shape_lock_entry(ln[0]) if ln else False
    hash_selects, hash_native, hash_cast, hash_bits = shape_hash(_method(BN, 'core_md5'))
    no_copy, copy_clears = shape_copy(_method(TN, 'copy'))
    drops = shape_getstate(_method(TN, '__getstate__'))
    shared = shape_copy_sharing(_method(TN, 'copy'))
    others = []
    for fname, cname in (('mesh.py', 'MeshNeuron'), ('voxel.py', 'VoxelNeuron'), ('dotprop.py', 'Dotprops')):
        try:
            others.append(_class(ast.parse((repo / 'navis/core' / fname).read_text()), cname))
        except (OSError, ValueError):
            pass
    iop_validates = shape_iops(BN, [TN] + others)
    editors = extract_editors(repo)
    return dict(tempAttr=temp_attr, coreTable=table, coreCols=cols, views=views, clearSites=sites,
                lockedFns=locked_fns, getstateDrops=drops, copyNoCopy=no_copy, copyClearsIfStale=copy_clears,
                isStaleRecomputes=recomputes, isStaleSticky=sticky, clearGuardsLock=guards, clearRestamps=restamps,
                clearDeletes=deletes, wrapperChecks=wrapper, exclPrefix=excl_prefix, lockFinally=lock_finally,
                lockChecksStale=lock_checks, hashSelectsCols=hash_selects, hashNative=hash_native, hashCast=hash_cast, hashBits=hash_bits,
                sharedOnCopy=shared, editors=editors, iopValidates=iop_validates)


def generate(repo: Path):
    d = extract(Path(repo))
    L = []
    L.append('import NavisModel.Model.Cache')
    L.append('/-! GENERATED by translator/gen_cache.py from the navis source — do not edit.')
    L.append('TEMP_ATTR, CORE_DATA, cached views (+ `@temp_property`), every `_clear_temp_attr` call site with its')
    L.append('literal `exclude`, `@lock_neuron` functions, `__getstate__` drops, `copy`, shapes of `is_stale`,')
    L.append('`_clear_temp_attr`, the `temp_property` wrapper, `lock_neuron` and `core_md5`. -/')
    L.append('namespace Navis.Gen.CacheSpec')
    L.append('open Navis.Cache')
    L.append('')
    L.append('def views : List View := [')
    L.append(',\n'.join(f'  ⟨"{v["name"]}", "{v["attr"]}", {lb(v["wrapped"])}, {lb(v["selfCopy"])}⟩' for v in d['views']))
    L.append(']')
    L.append('')
    L.append('def clearSites : List ClearSite := [')
    L.append(',\n'.join(f'  ⟨"{s["fn"]}", {lstr(s["excl"])}, {lb(s["locked"])}⟩' for s in d['clearSites']))
    L.append(']')
    L.append('')
    L.append('def editors : List Editor := [')
    L.append(',\n'.join(f'  ⟨"{e["fn"]}", "{e["attr"]}", {lb(e["detaches"])}⟩' for e in d['editors']))
    L.append(']')
    L.append('')
    L.append('def spec : Spec where')
    L.append(f'  tempAttr := {lstr(d["tempAttr"])}')
    L.append(f'  coreTable := "{d["coreTable"]}"')
    L.append(f'  coreCols := {lstr(d["coreCols"])}')
    L.append('  views := views')
    L.append('  clearSites := clearSites')
    L.append(f'  lockedFns := {lstr(d["lockedFns"])}')
    L.append(f'  getstateDrops := {lstr(d["getstateDrops"])}')
    L.append(f'  copyNoCopy := {lstr(d["copyNoCopy"])}')
    for k in ('copyClearsIfStale', 'isStaleRecomputes', 'isStaleSticky', 'clearGuardsLock', 'clearRestamps',
              'clearDeletes', 'wrapperChecks', 'exclPrefix', 'lockFinally', 'lockChecksStale', 'hashSelectsCols', 'hashNative', 'iopValidates'):
        L.append(f'  {k} := {lb(d[k])}')
    L.append(f'  hashCast := {lstr([d["hashCast"]])[1:-1]}')
    L.append(f'  hashBits := {d["hashBits"]}')
    L.append(f'  sharedOnCopy := {lstr(d["sharedOnCopy"])}')
    L.append('  editors := editors')
    L.append('')
    L.append('end Navis.Gen.CacheSpec')
    L.append('')
    meta = {'source_files': ['navis/core/skeleton.py', 'navis/core/base.py', 'navis/core/core_utils.py', 'navis/**/*.py (clear sites)'],
            'temp_attr': d['tempAttr'], 'core_cols': d['coreCols'],
            'views': [{k: v[k] for k in ('name', 'attr', 'wrapped', 'selfCopy')} for v in d['views']],
            'n_clear_sites': len(d['clearSites']),
            'exclude_literals': sorted({tuple(s['excl']) for s in d['clearSites']}),
            'locked_fns': d['lockedFns'], 'getstate_drops': d['getstateDrops'], 'copy_no_copy': d['copyNoCopy'],
            'flags': {k: d[k] for k in ('copyClearsIfStale', 'isStaleRecomputes', 'isStaleSticky', 'clearGuardsLock',
                                        'clearRestamps', 'clearDeletes', 'wrapperChecks', 'exclPrefix', 'lockFinally',
                                        'lockChecksStale', 'hashSelectsCols', 'iopValidates')},
            'hash': {'cast': d['hashCast'], 'bits': d['hashBits'], 'native_per_column': d['hashNative']},
            'shared_on_copy': d['sharedOnCopy'],
            'inplace_editors': [{k: e[k] for k in ('fn', 'attr', 'detaches')} for e in d['editors']]}
    return 'CacheSpec.lean', '\n'.join(L), meta


if __name__ == '__main__':
    import sys, json
    name, src, meta = generate(Path(sys.argv[1] if len(sys.argv) > 1 else '/repo'))
    print(src)
    print(json.dumps(meta, indent=1, default=str), file=sys.stderr)
