"""C02 translator: re-extract the declarative facts of the cache protocol from the navis source with `ast`
and write them as a `Navis.Cache.Spec` value (lean/NavisModel/Gen/CacheSpec.lean).

Extracted (nothing is imported or executed):
  * `TreeNeuron.TEMP_ATTR`, `TreeNeuron.CORE_DATA` (core/skeleton.py)
  * the cached views of `TreeNeuron`: every `@property` whose body tests `hasattr(self, '<a>')` or assigns
    `self.<a>` for an `<a>` in TEMP_ATTR; whether it carries `@temp_property`; whether its body calls `self.copy()`
  * every `_clear_temp_attr(...)` call site under navis/ with the literal `exclude=[…]` list, the enclosing
    function and whether that function is decorated with `@lock_neuron`; all `@lock_neuron` functions
  * what `TreeNeuron.__getstate__` pops, the `no_copy` list of `TreeNeuron.copy` and whether `copy` is
    `if not self.is_stale: … else: x._clear_temp_attr()`
  * the shape of `BaseNeuron.is_stale`, `BaseNeuron._clear_temp_attr` (incl. any rewrite of `exclude`), the
    `temp_property` wrapper and `utils.lock_neuron` (lock released in a `finally:`).
"""
import ast
from pathlib import Path

PROPS = ['C02']


def _lit(node):
    try:
        return ast.literal_eval(node)
    except Exception:
        return None


def _deco_names(fn):
    out = []
    for d in fn.decorator_list:
        if isinstance(d, ast.Call):
            d = d.func
        if isinstance(d, ast.Attribute):
            out.append(d.attr)
        elif isinstance(d, ast.Name):
            out.append(d.id)
    return out


def _class(tree, name):
    for n in tree.body:
        if isinstance(n, ast.ClassDef) and n.name == name:
            return n
    raise ValueError(f'class {name} not found')


def _method(cls, name, deco=None):
    for n in cls.body:
        if isinstance(n, ast.FunctionDef) and n.name == name:
            if deco is None or deco in _deco_names(n):
                return n
    return None


def _class_assign(cls, name):
    for n in cls.body:
        if isinstance(n, ast.Assign) and any(isinstance(t, ast.Name) and t.id == name for t in n.targets):
            return _lit(n.value)
        if isinstance(n, ast.AnnAssign) and isinstance(n.target, ast.Name) and n.target.id == name and n.value is not None:
            return _lit(n.value)
    return None


def _is_self_attr(node, attr=None, names=('self',)):
    return (isinstance(node, ast.Attribute) and isinstance(node.value, ast.Name) and node.value.id in names
            and (attr is None or node.attr == attr))


def _src(node):
    return ast.unparse(node)


def extract_views(cls, temp_attr):
    views = []
    for fn in cls.body:
        if not isinstance(fn, ast.FunctionDef):
            continue
        decos = _deco_names(fn)
        if 'property' not in decos:
            continue
        attrs = []
        self_copy = False
        for n in ast.walk(fn):
            if isinstance(n, ast.Call) and isinstance(n.func, ast.Name) and n.func.id == 'hasattr' and len(n.args) == 2:
                a = _lit(n.args[1])
                if isinstance(n.args[0], ast.Name) and n.args[0].id == 'self' and a in temp_attr and a not in attrs:
                    attrs.append(a)
            if isinstance(n, ast.Assign):
                for t in n.targets:
                    if _is_self_attr(t) and t.attr in temp_attr and t.attr not in attrs:
                        attrs.append(t.attr)
            if isinstance(n, ast.Call) and _is_self_attr(n.func, 'copy'):
                self_copy = True
        if len(attrs) == 1:
            views.append(dict(name=fn.name, attr=attrs[0], wrapped='temp_property' in decos, selfCopy=self_copy,
                              line=fn.lineno))
        elif len(attrs) > 1:
            raise ValueError(f'property {fn.name} touches several cache attributes {attrs}')
    return views


def extract_clear_sites(repo):
    sites, locked_fns = [], []
    for f in sorted((repo / 'navis').rglob('*.py')):
        rel = f.relative_to(repo).as_posix()
        if '/tests/' in rel or rel.startswith('navis/tests'):
            continue
        try:
            tree = ast.parse(f.read_text())
        except SyntaxError:
            continue
        # map every node to its outermost enclosing function and the class (if any)
        def visit(node, stack):
            for ch in ast.iter_child_nodes(node):
                st = stack
                if isinstance(ch, (ast.FunctionDef, ast.AsyncFunctionDef, ast.ClassDef)):
                    st = stack + [ch]
                    if isinstance(ch, ast.FunctionDef) and 'lock_neuron' in _deco_names(ch):
                        locked_fns.append(f"{rel[len('navis/'):-3].replace('/', '.')}.{ch.name}")
                if isinstance(ch, ast.Call) and isinstance(ch.func, ast.Attribute) and ch.func.attr == '_clear_temp_attr':
                    # skip `super()._clear_temp_attr(exclude=exclude)` (forwarding, not a call site of its own)
                    if isinstance(ch.func.value, ast.Call) and isinstance(ch.func.value.func, ast.Name) \
                            and ch.func.value.func.id == 'super':
                        pass
                    else:
                        excl = []
                        dynamic = False
                        for kw in ch.keywords:
                            if kw.arg == 'exclude':
                                v = _lit(kw.value)
                                if isinstance(v, (list, tuple)) and all(isinstance(s, str) for s in v):
                                    excl = list(v)
                                else:
                                    dynamic = True
                        if ch.args:
                            v = _lit(ch.args[0])
                            if isinstance(v, (list, tuple)) and all(isinstance(s, str) for s in v):
                                excl = list(v)
                            else:
                                dynamic = True
                        fns = [s for s in st if isinstance(s, (ast.FunctionDef, ast.AsyncFunctionDef))]
                        qual = '.'.join(s.name for s in st) or '<module>'
                        locked = any('lock_neuron' in _deco_names(s) for s in fns)
                        if dynamic:
                            raise ValueError(f'{rel}:{ch.lineno}: _clear_temp_attr with a non-literal exclude')
                        sites.append(dict(fn=f"{rel[len('navis/'):-3].replace('/', '.')}.{qual}", excl=excl,
                                          locked=locked, line=ch.lineno, recv=_src(ch.func.value)))
                visit(ch, st)
        visit(tree, [])
    return sites, sorted(set(locked_fns))


def shape_is_stale(fn):
    """(recomputes, sticky)"""
    recomputes = sticky = False
    for n in ast.walk(fn):
        if isinstance(n, ast.Assign) and any(_is_self_attr(t, '_stale') for t in n.targets):
            v = n.value
            if isinstance(v, ast.Compare) and len(v.ops) == 1 and isinstance(v.ops[0], ast.NotEq):
                sides = {_src(v.left), _src(v.comparators[0])}
                if sides == {'self._current_md5', 'self.core_md5'}:
                    recomputes = True
        if isinstance(n, ast.If):
            t = _src(n.test)
            if '_stale' in t and any(isinstance(b, ast.Return) and _lit(b.value) is True for b in n.body):
                sticky = True
    # the value returned at the end must be the recomputed flag
    rets = [n for n in ast.walk(fn) if isinstance(n, ast.Return)]
    if not any(r.value is not None and _src(r.value) == 'self._stale' for r in rets):
        recomputes = False
    return recomputes, sticky


def shape_clear(fn):
    """(guardsLock, restamps, deletes) of BaseNeuron._clear_temp_attr"""
    guards = restamps_md5 = restamps_flag = deletes = False
    first = [b for b in fn.body if not (isinstance(b, ast.Expr) and isinstance(b.value, ast.Constant))]
    if first and isinstance(first[0], ast.If) and _src(first[0].test) == 'self.is_locked' \
            and any(isinstance(b, ast.Return) for b in first[0].body):
        guards = True
    for n in fn.body:   # top level statements only: unconditional
        if isinstance(n, ast.Assign) and any(_is_self_attr(t, '_current_md5') for t in n.targets) \
                and _src(n.value) == 'self.core_md5':
            restamps_md5 = True
        if isinstance(n, ast.Assign) and any(_is_self_attr(t, '_stale') for t in n.targets) and _lit(n.value) is False:
            restamps_flag = True
        if isinstance(n, ast.For):
            it = _src(n.iter).replace(' ', '')
            if it == '[atforatinself.TEMP_ATTRifatnotinexclude]' and isinstance(n.target, ast.Name):
                tv = n.target.id
                for m in ast.walk(n):
                    if isinstance(m, ast.Call) and isinstance(m.func, ast.Name) and m.func.id == 'delattr' \
                            and len(m.args) == 2 and _src(m.args[0]) == 'self' and _src(m.args[1]) == tv:
                        deletes = True
    return guards, restamps_md5 and restamps_flag, deletes


def shape_excl_rewrite(fn):
    """Does `_clear_temp_attr` rewrite `exclude` before the delete loop?  Recognised: nothing (False) or exactly
    `exclude = list(exclude) + [f"_{e}" for e in exclude]` (True).  Anything else is an unknown matching rule."""
    prefix = False
    for n in ast.walk(fn):
        tgt = None
        if isinstance(n, ast.Assign):
            tgt = [t for t in n.targets if isinstance(t, ast.Name) and t.id == 'exclude']
        elif isinstance(n, ast.AugAssign) and isinstance(n.target, ast.Name) and n.target.id == 'exclude':
            tgt = [n.target]
        if tgt:
            src = _src(n).replace(' ', '').replace('"', "'")
            if src == "exclude=list(exclude)+[f'_{e}'foreinexclude]":
                prefix = True
            else:
                raise ValueError(f'_clear_temp_attr rewrites `exclude` in an unknown way: {_src(n)}')
    return prefix


def shape_lock(fn):
    """lock_neuron: the decrement of `_lock` must sit in the `finally:` of the `try:` that runs the wrapped call."""
    inner = [n for n in fn.body if isinstance(n, ast.FunctionDef)]
    if not inner:
        return False
    for n in ast.walk(inner[0]):
        if isinstance(n, ast.Try) and n.finalbody:
            runs = any(isinstance(m, ast.Call) and _src(m.func) == 'function' for b in n.body for m in ast.walk(b))
            dec = any(isinstance(m, ast.AugAssign) and isinstance(m.op, ast.Sub) and _src(m.target) == 'args[0]._lock'
                      for b in n.finalbody for m in ast.walk(b))
            if runs and dec:
                return True
    return False


def shape_wrapper(fn):
    """temp_property: inner wrapper is `if not self.is_locked: if self.is_stale: self._clear_temp_attr()` followed by
    `return func(*args, **kwargs)`."""
    inner = [n for n in fn.body if isinstance(n, ast.FunctionDef)]
    if not inner:
        return False
    w = inner[0]
    ok_if = ok_ret = False
    for i, n in enumerate(w.body):
        if isinstance(n, ast.If) and _src(n.test) == 'not self.is_locked' and not n.orelse and len(n.body) == 1:
            m = n.body[0]
            if isinstance(m, ast.If) and _src(m.test) == 'self.is_stale' and len(m.body) == 1 \
                    and _src(m.body[0]) == 'self._clear_temp_attr()':
                ok_if = True
                rest = w.body[i + 1:]
                ok_ret = len(rest) == 1 and isinstance(rest[0], ast.Return) and _src(rest[0].value).startswith('func(')
    return ok_if and ok_ret


def shape_copy(fn):
    """(no_copy list, clearsIfStale)"""
    no_copy, clears = [], False
    for n in ast.walk(fn):
        if isinstance(n, ast.Assign) and any(isinstance(t, ast.Name) and t.id == 'no_copy' for t in n.targets):
            no_copy = _lit(n.value) or []
        if isinstance(n, ast.If) and _src(n.test) == 'not self.is_stale':
            for m in n.orelse:
                if _src(m) == 'x._clear_temp_attr()':
                    clears = True
    # the dict update must skip only `no_copy`
    upd = [n for n in ast.walk(fn) if isinstance(n, ast.Call) and _src(n.func) == 'x.__dict__.update']
    if not upd or 'if k not in no_copy' not in _src(upd[0]):
        raise ValueError('TreeNeuron.copy: unexpected __dict__ update')
    return list(no_copy), clears


def shape_getstate(fn):
    drops = []
    for n in ast.walk(fn):
        if isinstance(n, ast.Call) and isinstance(n.func, ast.Attribute) and n.func.attr == 'pop' and n.args:
            v = _lit(n.args[0])
            if isinstance(v, str):
                drops.append(v)
    return drops


def lstr(xs):
    return '[' + ', '.join('"' + x.replace('\\', '\\\\').replace('"', '\\"') + '"' for x in xs) + ']'


def lb(b):
    return 'true' if b else 'false'


def extract(repo: Path):
    skel = ast.parse((repo / 'navis/core/skeleton.py').read_text())
    base = ast.parse((repo / 'navis/core/base.py').read_text())
    cu = ast.parse((repo / 'navis/core/core_utils.py').read_text())
    TN = _class(skel, 'TreeNeuron')
    BN = _class(base, 'BaseNeuron')
    temp_attr = _class_assign(TN, 'TEMP_ATTR')
    core_data = _class_assign(TN, 'CORE_DATA')
    if not isinstance(temp_attr, list) or not isinstance(core_data, list):
        raise ValueError('TEMP_ATTR / CORE_DATA not literal lists')
    if len(core_data) != 1 or ':' not in core_data[0]:
        raise ValueError(f'unexpected CORE_DATA {core_data}')
    table, cols = core_data[0].split(':')
    cols = cols.split(',')
    views = extract_views(TN, temp_attr)
    sites, locked_fns = extract_clear_sites(repo)
    recomputes, sticky = shape_is_stale(_method(BN, 'is_stale'))
    guards, restamps, deletes = shape_clear(_method(BN, '_clear_temp_attr'))
    # the TreeNeuron override must forward `exclude` to super and classify unless excluded
    tn_clear = _method(TN, '_clear_temp_attr')
    tn_src = _src(tn_clear)
    if 'super()._clear_temp_attr(exclude=exclude)' not in tn_src or "if 'classify_nodes' not in exclude" not in tn_src:
        raise ValueError('TreeNeuron._clear_temp_attr: unexpected shape')
    tp = [n for n in cu.body if isinstance(n, ast.FunctionDef) and n.name == 'temp_property']
    wrapper = shape_wrapper(tp[0]) if tp else False
    excl_prefix = shape_excl_rewrite(_method(BN, '_clear_temp_attr'))
    deco = ast.parse((repo / 'navis/utils/decorators.py').read_text())
    ln = [n for n in deco.body if isinstance(n, ast.FunctionDef) and n.name == 'lock_neuron']
    lock_finally = shape_lock(ln[0]) if ln else False
    no_copy, copy_clears = shape_copy(_method(TN, 'copy'))
    drops = shape_getstate(_method(TN, '__getstate__'))
    return dict(tempAttr=temp_attr, coreTable=table, coreCols=cols, views=views, clearSites=sites,
                lockedFns=locked_fns, getstateDrops=drops, copyNoCopy=no_copy, copyClearsIfStale=copy_clears,
                isStaleRecomputes=recomputes, isStaleSticky=sticky, clearGuardsLock=guards, clearRestamps=restamps,
                clearDeletes=deletes, wrapperChecks=wrapper, exclPrefix=excl_prefix, lockFinally=lock_finally)


def generate(repo: Path):
    d = extract(Path(repo))
    L = []
    L.append('import NavisModel.Model.Cache')
    L.append('/-! GENERATED by translator/gen_cache.py from the navis source — do not edit.')
    L.append('TEMP_ATTR, CORE_DATA, cached views (+ `@temp_property`), every `_clear_temp_attr` call site with its')
    L.append('literal `exclude`, `@lock_neuron` functions, `__getstate__` drops, `copy`, shapes of `is_stale`,')
    L.append('`_clear_temp_attr` and the `temp_property` wrapper. -/')
    L.append('namespace Navis.Gen.CacheSpec')
    L.append('open Navis.Cache')
    L.append('')
    L.append('def views : List View := [')
    L.append(',\n'.join(f'  ⟨"{v["name"]}", "{v["attr"]}", {lb(v["wrapped"])}, {lb(v["selfCopy"])}⟩' for v in d['views']))
    L.append(']')
    L.append('')
    L.append('def clearSites : List ClearSite := [')
    L.append(',\n'.join(f'  ⟨"{s["fn"]}", {lstr(s["excl"])}, {lb(s["locked"])}⟩' for s in d['clearSites']))
    L.append(']')
    L.append('')
    L.append('def spec : Spec where')
    L.append(f'  tempAttr := {lstr(d["tempAttr"])}')
    L.append(f'  coreTable := "{d["coreTable"]}"')
    L.append(f'  coreCols := {lstr(d["coreCols"])}')
    L.append('  views := views')
    L.append('  clearSites := clearSites')
    L.append(f'  lockedFns := {lstr(d["lockedFns"])}')
    L.append(f'  getstateDrops := {lstr(d["getstateDrops"])}')
    L.append(f'  copyNoCopy := {lstr(d["copyNoCopy"])}')
    for k in ('copyClearsIfStale', 'isStaleRecomputes', 'isStaleSticky', 'clearGuardsLock', 'clearRestamps',
              'clearDeletes', 'wrapperChecks', 'exclPrefix', 'lockFinally'):
        L.append(f'  {k} := {lb(d[k])}')
    L.append('')
    L.append('end Navis.Gen.CacheSpec')
    L.append('')
    meta = {'source_files': ['navis/core/skeleton.py', 'navis/core/base.py', 'navis/core/core_utils.py', 'navis/**/*.py (clear sites)'],
            'temp_attr': d['tempAttr'], 'core_cols': d['coreCols'],
            'views': [{k: v[k] for k in ('name', 'attr', 'wrapped', 'selfCopy')} for v in d['views']],
            'n_clear_sites': len(d['clearSites']),
            'exclude_literals': sorted({tuple(s['excl']) for s in d['clearSites']}),
            'locked_fns': d['lockedFns'], 'getstate_drops': d['getstateDrops'], 'copy_no_copy': d['copyNoCopy'],
            'flags': {k: d[k] for k in ('copyClearsIfStale', 'isStaleRecomputes', 'isStaleSticky', 'clearGuardsLock',
                                        'clearRestamps', 'clearDeletes', 'wrapperChecks', 'exclPrefix', 'lockFinally')}}
    return 'CacheSpec.lean', '\n'.join(L), meta


if __name__ == '__main__':
    import sys, json
    name, src, meta = generate(Path(sys.argv[1] if len(sys.argv) > 1 else '/repo'))
    print(src)
    print(json.dumps(meta, indent=1, default=str), file=sys.stderr)
