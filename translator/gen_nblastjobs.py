"""C09 translator: re-extract, with `ast` only, the *index expressions* with which the NBLAST front ends
distribute work and put finished blocks back, and emit them as Lean values (`Gen/NblastJobs.lean`).

Per job-grid function (`nblast`, `nblast_allbyall`, the pre-phase of `nblast_smart`, `synblast`, `nblast_align`)
a `Navis.JobSpec.Program`:
  * the two `for … in np.array_split(np.arange(len(L)), n)` loops (which list, which count),
  * the `for i, ix in enumerate(arr): this.append(list[·], self_hits[·])` loops: which array is iterated,
    whether neuron and self hit are looked up with the element `ix` or the counter `i`, which list the
    self-hit array was computed over, the `ixmap[ix] = i` store of the all-by-all,
  * `this.queries / targets / queries_ix / targets_ix` (resolved into index expressions),
  * what is submitted (`q_idx=`, `t_idx=`, `scores=`), that the future is the dict key of its own job,
  * that results are collected with `as_completed`, `res = f.result()` / `this = futures[f]` for the same `f`,
  * the big matrix (`np.empty((len(A), len(B)))`, `index=A.id`, `columns=B.id`, the `* 2` of `scores='both'`),
  * the placement `scores.iloc[rows, cols] = res.values`, incl. the interleaved rows of `scores='both'`.
For the full phase of `nblast_smart` a `Navis.JobSpec.SmartFacts` (sub-mask, `np.where` pairs and their offset,
the job's slice of the big mask, boolean-mask placement).  Plus small facts: no caller passes `n_cores` to
`find_batch_partition`; every pool map that must keep order is an ordered one (`imap` / `map`); the zip rule
and exclusion list of `NeuronProcessor.__call__` / `map_neuronlist`.

Semantic facts only: local variable names are resolved, statement order inside the loop body does not
matter, comments / logging / progress bars are ignored.  Anything not found in the expected shape raises
(a broken tie is reported, never guessed)."""
import ast
from pathlib import Path

PROPS = ['C09']


# ------------------------------------------------------------------------------------------------
def _func(tree, name):
    for n in ast.walk(tree):
        if isinstance(n, ast.FunctionDef) and n.name == name:
            return n
    raise ValueError(f'function {name} not found')


def _is_call(n, *path):
    """n is a call of `a.b.c(...)` with dotted name == path (last components)"""
    if not isinstance(n, ast.Call):
        return False
    f = n.func
    parts = []
    while isinstance(f, ast.Attribute):
        parts.append(f.attr)
        f = f.value
    if isinstance(f, ast.Name):
        parts.append(f.id)
    parts.reverse()
    return parts[-len(path):] == list(path)


def _len_of(n):
    """`len(X)` -> X node"""
    if isinstance(n, ast.Call) and isinstance(n.func, ast.Name) and n.func.id == 'len' and len(n.args) == 1:
        return n.args[0]
    return None


def _name(n):
    return n.id if isinstance(n, ast.Name) else None


def _split_loop(n):
    """`for v in np.array_split(np.arange(len(L)), C)` -> (v, L, C)"""
    if not (isinstance(n, ast.For) and _is_call(n.iter, 'array_split') and len(n.iter.args) == 2):
        return None
    arr, cnt = n.iter.args
    if not (_is_call(arr, 'arange') and len(arr.args) == 1):
        return None
    L = _len_of(arr.args[0])
    if L is None or _name(L) is None or _name(cnt) is None or _name(n.target) is None:
        return None
    return n.target.id, L.id, cnt.id


def _grids(fn):
    """all (outer For, inner For) pairs of job-grid loops in source order"""
    out = []
    for n in ast.walk(fn):
        o = _split_loop(n) if isinstance(n, ast.For) else None
        if o:
            inner = [m for m in n.body if isinstance(m, ast.For) and _split_loop(m)]
            if inner:
                out.append((n, inner[0]))
    out.sort(key=lambda p: p[0].lineno)
    return out


def _stmts(body):
    """flatten: all statements of a body incl. those nested in if/with/try (not in loops / defs)"""
    for s in body:
        yield s
        if isinstance(s, (ast.If,)):
            yield from _stmts(s.body)
            yield from _stmts(s.orelse)
        elif isinstance(s, ast.With):
            yield from _stmts(s.body)
        elif isinstance(s, ast.Try):
            yield from _stmts(s.body)


class Ctx:
    def __init__(self, qv, tv, job, attrs, locs):
        self.qv, self.tv, self.job, self.attrs, self.locs = qv, tv, job, attrs, locs


def ixe(n, c, depth=0):
    """Python expression -> IxE (Lean syntax)"""
    if depth > 12:
        raise ValueError('index expression too deep / cyclic')
    if isinstance(n, ast.Name):
        if n.id == c.qv:
            return '.qix'
        if n.id == c.tv:
            return '.tix'
        if n.id in c.locs:
            return ixe(c.locs[n.id], c, depth + 1)
        raise ValueError(f'unresolved name {n.id} in index expression')
    if isinstance(n, ast.Attribute) and _name(n.value) == c.job:
        if n.attr not in c.attrs:
            raise ValueError(f'{c.job}.{n.attr} is never assigned in the job loop')
        return ixe(c.attrs[n.attr], c, depth + 1)
    if _is_call(n, 'arange') and len(n.args) == 1 and _len_of(n.args[0]) is not None:
        return f'(.arange {ixe(_len_of(n.args[0]), c, depth + 1)})'
    if isinstance(n, ast.BinOp) and isinstance(n.op, ast.Add):
        for a, b in ((n.left, n.right), (n.right, n.left)):
            if _len_of(b) is not None:
                return f'(.addLen {ixe(a, c, depth + 1)} {ixe(_len_of(b), c, depth + 1)})'
    if isinstance(n, ast.BinOp) and isinstance(n.op, ast.Mult):
        for a, b in ((n.left, n.right), (n.right, n.left)):
            if isinstance(b, ast.Constant) and isinstance(b.value, int) and b.value >= 0:
                return f'(.mul {ixe(a, c, depth + 1)} {b.value})'
    if _is_call(n, 'repeat') and len(n.args) == 2 and isinstance(n.args[1], ast.Constant):
        return f'(.rep {ixe(n.args[0], c, depth + 1)} {int(n.args[1].value)})'
    if isinstance(n, ast.ListComp) and len(n.generators) == 1 and not n.generators[0].ifs:
        g = n.generators[0]
        e = n.elt
        if (isinstance(e, ast.Subscript) and _name(e.value) == 'ixmap' and _name(e.slice) == _name(g.target)):
            return f'(.viaMap {ixe(g.iter, c, depth + 1)})'
    if _is_call(n, 'list') and len(n.args) == 1:
        u = n.args[0]
        if isinstance(u, ast.BinOp) and isinstance(u.op, ast.BitOr):
            parts = set()
            for s in (u.left, u.right):
                if _is_call(s, 'set') and len(s.args) == 1:
                    parts.add(ixe(s.args[0], c, depth + 1))
            if parts == {'.qix', '.tix'}:
                return '.union'
    raise ValueError('unsupported index expression: ' + ast.unparse(n)[:80])


def _selfhit_arrays(fn, before):
    """name -> list the self hits were computed over:  X = np.array([… calc_self_hit(…) … for n in L])
    (the latest such assignment above line `before`)"""
    out = {}
    for n in sorted((x for x in ast.walk(fn) if isinstance(x, ast.Assign)), key=lambda x: x.lineno):
        if n.lineno < before and len(n.targets) == 1 and _name(n.targets[0]):
            v = n.value
            if _is_call(v, 'array') and v.args and isinstance(v.args[0], ast.ListComp):
                lc = v.args[0]
                if any(_is_call(x, 'calc_self_hit') for x in ast.walk(lc.elt)) and len(lc.generators) == 1:
                    L = _name(lc.generators[0].iter)
                    if L:
                        out[n.targets[0].id] = L
    return out


def _append_loops(body, c, shmap):
    """the `for i, ix in enumerate(arr): this.append(...)` loops of a job body"""
    loops, ixmap = [], None
    for s in body:
        if not (isinstance(s, ast.For) and _is_call(s.iter, 'enumerate') and isinstance(s.target, ast.Tuple)
                and len(s.target.elts) == 2):
            continue
        cnt, el = _name(s.target.elts[0]), _name(s.target.elts[1])
        app = [x for x in ast.walk(s) if _is_call(x, c.job, 'append')]
        if not app:
            continue
        over = ixe(s.iter.args[0], c)
        sel = {cnt: '.counter', el: '.elem'}
        neuron, sh = None, None
        for x in ast.walk(s):
            if isinstance(x, ast.Subscript) and _name(x.value) and _name(x.slice) in sel:
                if isinstance(x.ctx, ast.Store):
                    if x.value.id == 'ixmap':
                        # ixmap[key] = value
                        st = next(a for a in ast.walk(s) if isinstance(a, ast.Assign) and x in a.targets)
                        if _name(st.value) not in sel:
                            raise ValueError('ixmap value is not a loop variable')
                        ixmap = (sel[x.slice.id], sel[st.value.id])
                    continue
                if x.value.id in shmap:
                    if sh is not None:
                        raise ValueError('two self-hit lookups in one append loop')
                    sh = (shmap[x.value.id], sel[x.slice.id])
                elif x.value.id != 'ixmap':
                    if neuron is not None and neuron != (x.value.id, sel[x.slice.id]):
                        raise ValueError('two different neuron lookups in one append loop')
                    neuron = (x.value.id, sel[x.slice.id])
        if neuron is None:
            raise ValueError('append loop without a neuron lookup')
        loops.append(dict(over=over, list=neuron[0], nsel=neuron[1],
                          shOf=sh[0] if sh else None, shsel=sh[1] if sh else '.elem'))
    if not loops:
        raise ValueError('no append loop found')
    return loops, ixmap


def _job_ctx(outer, inner):
    qv, tv = _split_loop(outer)[0], _split_loop(inner)[0]
    body = inner.body
    # the job object: the variable most attributes are assigned on
    cnt = {}
    for s in _stmts(body):
        if isinstance(s, ast.Assign):
            for t in s.targets:
                if isinstance(t, ast.Attribute) and _name(t.value):
                    cnt[t.value.id] = cnt.get(t.value.id, 0) + 1
    if not cnt:
        raise ValueError('no job object in the grid loop')
    job = max(cnt, key=cnt.get)
    attrs, locs = {}, {}
    for s in _stmts(body):
        if isinstance(s, ast.Assign) and len(s.targets) == 1:
            t = s.targets[0]
            if isinstance(t, ast.Attribute) and _name(t.value) == job:
                attrs[t.attr] = s.value
            elif _name(t):
                locs[t.id] = s.value
    return Ctx(qv, tv, job, attrs, locs), body


def _submit(body, c):
    """futures[pool.submit(this.m, kw…)] = this"""
    for s in _stmts(body):
        if isinstance(s, ast.Assign) and len(s.targets) == 1 and isinstance(s.targets[0], ast.Subscript):
            key = s.targets[0].slice
            if _is_call(key, 'submit'):
                fnarg = key.args[0] if key.args else None
                if not (isinstance(fnarg, ast.Attribute) and _name(fnarg.value) == c.job):
                    raise ValueError('submitted callable is not a method of the job object')
                kws = {k.arg: k.value for k in key.keywords}
                return dict(futures=_name(s.targets[0].value), method=fnarg.attr, kws=kws,
                            keyed=_name(s.value) == c.job)
    raise ValueError('no `futures[pool.submit(...)] = this` in the job loop')


def _collect_loop(fn, after_line, futures):
    """the first `for f in …as_completed(futures)…:` after the grid loop"""
    cands = []
    for n in ast.walk(fn):
        if isinstance(n, ast.For) and n.lineno > after_line and _name(n.target):
            if any(_is_call(x, 'as_completed') and x.args and _name(x.args[0]) == futures for x in ast.walk(n.iter)):
                cands.append(n)
            elif any(isinstance(x, ast.Name) and x.id == futures for x in ast.walk(n.iter)):
                cands.append(n)
    if not cands:
        raise ValueError('no collection loop over the futures found')
    n = min(cands, key=lambda x: x.lineno)
    as_completed = any(_is_call(x, 'as_completed') and x.args and _name(x.args[0]) == futures for x in ast.walk(n.iter))
    f = n.target.id
    res_var = job_var = None
    same = True
    for s in n.body:
        if isinstance(s, ast.Assign) and len(s.targets) == 1 and _name(s.targets[0]):
            v = s.value
            if _is_call(v, 'result') and isinstance(v.func, ast.Attribute):
                res_var = s.targets[0].id
                same = same and _name(v.func.value) == f
            if isinstance(v, ast.Subscript) and _name(v.value) == futures:
                job_var = s.targets[0].id
                same = same and _name(v.slice) == f
    if res_var is None or job_var is None:
        raise ValueError('collection loop lacks `res = f.result()` / `this = futures[f]`')
    return n, as_completed, same, res_var, job_var


def _matrix(fn, lo, hi):
    """pd.DataFrame(np.empty((len(A)[*k], len(B))), index=…, columns=B.id) between two lines"""
    out = []
    for n in ast.walk(fn):
        if (_is_call(n, 'DataFrame') and lo <= n.lineno <= hi and n.args and _is_call(n.args[0], 'empty')
                and n.args[0].args and isinstance(n.args[0].args[0], ast.Tuple) and len(n.args[0].args[0].elts) == 2):
            r, c = n.args[0].args[0].elts
            fac = None
            if isinstance(r, ast.BinOp) and isinstance(r.op, ast.Mult):
                for a, b in ((r.left, r.right), (r.right, r.left)):
                    if isinstance(b, ast.Constant) and _len_of(a) is not None:
                        r, fac = a, int(b.value)
                        break
            if _len_of(r) is None or _len_of(c) is None:
                raise ValueError('matrix shape is not (len(A), len(B))')
            kws = {k.arg: k.value for k in n.keywords}
            out.append(dict(line=n.lineno, rows=_name(_len_of(r)), cols=_name(_len_of(c)), factor=fac,
                            index=kws.get('index'), columns=kws.get('columns')))
    out.sort(key=lambda d: d['line'])
    return out


def _id_of(n, fn):
    """`A.id` -> A ; a name bound to `pd.MultiIndex.from_product([A.id, …])` -> A"""
    if isinstance(n, ast.Attribute) and n.attr == 'id' and _name(n.value):
        return n.value.id
    if _name(n):
        for s in ast.walk(fn):
            if (isinstance(s, ast.Assign) and len(s.targets) == 1 and _name(s.targets[0]) == n.id
                    and _is_call(s.value, 'from_product') and s.value.args and isinstance(s.value.args[0], ast.List)):
                return _id_of(s.value.args[0].elts[0], fn)
    raise ValueError('index/columns is not `<list>.id`: ' + ast.unparse(n)[:60])


def _lean_str(s):
    return '"' + s + '"'


def _lean_opt(s, f=lambda x: x):
    return 'none' if s is None else f'(some {f(s)})'


def _lean_bool(b):
    return 'true' if b else 'false'


def _append_lean(a):
    return ('{ over := %s, list := %s, nsel := %s, shOf := %s, shsel := %s }'
            % (a['over'], _lean_str(a['list']), a['nsel'], _lean_opt(a['shOf'], _lean_str), a['shsel']))


def grid_program(fn, which, lean_name):
    grids = _grids(fn)
    if len(grids) <= which:
        raise ValueError(f'{fn.name}: job grid #{which} not found')
    outer, inner = grids[which]
    (qv, ql, qc), (tv, tl, tc) = _split_loop(outer), _split_loop(inner)
    c, body = _job_ctx(outer, inner)
    loops, ixmap = _append_loops(body, c, _selfhit_arrays(fn, outer.lineno))
    sub = _submit(body, c)
    for k in ('q_idx', 't_idx'):
        if k not in sub['kws']:
            raise ValueError(f'{fn.name}: submit lacks {k}=')
    scores = sub['kws'].get('scores')
    scores_s = repr(scores.value) if isinstance(scores, ast.Constant) else (ast.unparse(scores) if scores is not None else '')
    loop, as_c, same, res_var, job_var = _collect_loop(fn, outer.lineno, sub['futures'])
    # placement: X.iloc[rows, cols] = res.values   (rows may be a local assigned in an if/else on `both`)
    place = None
    for s in _stmts(loop.body):
        if (isinstance(s, ast.Assign) and len(s.targets) == 1 and isinstance(s.targets[0], ast.Subscript)
                and isinstance(s.targets[0].value, ast.Attribute) and s.targets[0].value.attr == 'iloc'):
            place = s
    if place is None:
        raise ValueError(f'{fn.name}: no `.iloc[rows, cols] = …` in the collection loop')
    sl = place.targets[0].slice
    if not (isinstance(sl, ast.Tuple) and len(sl.elts) == 2):
        raise ValueError('placement is not 2-dimensional')
    places_values = (isinstance(place.value, ast.Attribute) and place.value.attr == 'values'
                     and _name(place.value.value) == res_var)
    c2 = Ctx(c.qv, c.tv, job_var, c.attrs, {})
    rows_e, cols_e = sl.elts
    both_rows = None
    if _name(rows_e):
        # rows_ix assigned in `if not both: … else: …`
        var = rows_e.id
        ifs = [s for s in loop.body if isinstance(s, ast.If)
               and any(isinstance(t, ast.Assign) and any(_name(x) == var for x in t.targets) for t in s.body + s.orelse)]
        if len(ifs) != 1:
            raise ValueError('cannot resolve the row index variable of the placement')
        st = ifs[0]
        neg = isinstance(st.test, ast.UnaryOp) and isinstance(st.test.op, ast.Not)
        tname = _name(st.test.operand) if neg else _name(st.test)
        if tname != 'both':
            raise ValueError('row index depends on an unknown condition: ' + ast.unparse(st.test))
        plain, both = (st.body, st.orelse) if neg else (st.orelse, st.body)

        def branch(stmts):
            e = None
            for t in stmts:
                if isinstance(t, ast.Assign) and any(_name(x) == var for x in t.targets):
                    e = ixe(t.value, c2)
                elif (isinstance(t, ast.AugAssign) and isinstance(t.op, ast.Add) and isinstance(t.target, ast.Subscript)
                      and _name(t.target.value) == var and isinstance(t.target.slice, ast.Slice)
                      and isinstance(t.value, ast.Constant)):
                    sli = t.target.slice
                    if sli.upper is not None:
                        raise ValueError('slice with an upper bound in row index update')
                    lo = int(sli.lower.value) if sli.lower is not None else 0
                    stp = int(sli.step.value) if sli.step is not None else 1
                    e = f'(.addSlice {e} {lo} {stp} {int(t.value.value)})'
                else:
                    raise ValueError('unexpected statement in row index branch: ' + ast.unparse(t)[:60])
            return e
        rows_l, both_rows = branch(plain), branch(both)
    else:
        rows_l = ixe(rows_e, c2)
    cols_l = ixe(cols_e, c2)
    mats = _matrix(fn, outer.lineno, loop.lineno)
    if not mats:
        raise ValueError(f'{fn.name}: big matrix not found')
    plain_m = [m for m in mats if m['factor'] is None]
    both_m = [m for m in mats if m['factor'] is not None]
    m = plain_m[0]
    lean = f'''def {lean_name} : Program := {{
  name := {_lean_str(fn.name + ('#' + str(which) if which else ''))},
  outerLen := {_lean_str(ql)}, outerCount := {_lean_str(qc)},
  innerLen := {_lean_str(tl)}, innerCount := {_lean_str(tc)},
  appends := [{', '.join(_append_lean(a) for a in loops)}],
  ixmap := {_lean_opt(ixmap, lambda kv: '(%s, %s)' % kv)},
  submitMethod := {_lean_str(sub['method'])},
  submitQ := {ixe(sub['kws']['q_idx'], c)},
  submitT := {ixe(sub['kws']['t_idx'], c)},
  submitScores := {_lean_str(scores_s.replace('"', "'"))},
  futuresKeyedBySubmit := {_lean_bool(sub['keyed'])},
  asCompleted := {_lean_bool(as_c)},
  sameFuture := {_lean_bool(same)},
  shapeRows := {_lean_str(m['rows'])}, shapeCols := {_lean_str(m['cols'])},
  indexRows := {_lean_str(_id_of(m['index'], fn))}, indexCols := {_lean_str(_id_of(m['columns'], fn))},
  placeRows := {rows_l},
  placeCols := {cols_l},
  placesValues := {_lean_bool(places_values)},
  bothRows := {_lean_opt(both_rows)},
  bothFactor := {_lean_opt(both_m[0]['factor'] if both_m else None, str)} }}
'''
    meta = dict(function=fn.name, grid=which, line=outer.lineno, lists=[ql, tl], counts=[qc, tc],
                appends=loops, both=both_rows is not None)
    if both_m:
        bm = both_m[0]
        if (bm['rows'], bm['cols'], _id_of(bm['index'], fn), _id_of(bm['columns'], fn)) != \
                (m['rows'], m['cols'], _id_of(m['index'], fn), _id_of(m['columns'], fn)):
            raise ValueError('the `both` matrix is built over different lists than the plain one')
    return lean, meta


# ------------------------------------------------------------------------------------------------
def _slice_e(lo, hi, c):
    """arr[i] : arr[j] + k"""
    def elem(n):
        if isinstance(n, ast.Subscript):
            i = n.slice
            if isinstance(i, ast.UnaryOp) and isinstance(i.op, ast.USub) and isinstance(i.operand, ast.Constant):
                return ixe(n.value, c), -int(i.operand.value)
            if isinstance(i, ast.Constant):
                return ixe(n.value, c), int(i.value)
        raise ValueError('slice bound is not arr[const]: ' + ast.unparse(n))
    a1, i1 = elem(lo)
    plus = 0
    if isinstance(hi, ast.BinOp) and isinstance(hi.op, ast.Add) and isinstance(hi.right, ast.Constant):
        plus, hi = int(hi.right.value), hi.left
    a2, i2 = elem(hi)
    if a1 != a2:
        raise ValueError('slice bounds index different arrays')
    return '{ arr := %s, lo := %d, hi := %d, hiPlus := %d }' % (a1, i1, i2, plus)


def smart_facts(fn, which, lean_name):
    grids = _grids(fn)
    if len(grids) <= which:
        raise ValueError('nblast_smart: full-phase job grid not found')
    outer, inner = grids[which]
    (qv, ql, qc), (tv, tl, tc) = _split_loop(outer), _split_loop(inner)
    c, body = _job_ctx(outer, inner)
    loops, _ = _append_loops(body, c, _selfhit_arrays(fn, outer.lineno))
    # submask = mask.loc[A[qix].id, B[tix].id]
    sub_var = mask_name = None
    rows_l = cols_l = None
    for name, v in c.locs.items():
        if (isinstance(v, ast.Subscript) and isinstance(v.value, ast.Attribute) and v.value.attr == 'loc'
                and isinstance(v.slice, ast.Tuple) and len(v.slice.elts) == 2):
            sub_var, mask_name = name, _name(v.value.value)
            out = []
            for e in v.slice.elts:
                if not (isinstance(e, ast.Attribute) and e.attr == 'id' and isinstance(e.value, ast.Subscript)
                        and _name(e.value.value)):
                    raise ValueError('submask index is not `<list>[<ix>].id`')
                out.append((e.value.value.id, ixe(e.value.slice, c)))
            rows_l, cols_l = out
    if sub_var is None:
        raise ValueError('nblast_smart: `submask = mask.loc[…]` not found')
    # this.pairs = np.vstack(np.where(submask)).T
    pv = c.attrs.get('pairs')
    pairs_where = (isinstance(pv, ast.Attribute) and pv.attr == 'T' and _is_call(pv.value, 'vstack')
                   and len(pv.value.args) == 1 and _is_call(pv.value.args[0], 'where')
                   and _name(pv.value.args[0].args[0]) == sub_var)
    # this.pairs[:, k] += len(X) ;  this.mask[a:b, c:d] = submask ;  this.mask = np.zeros(mask.shape)
    off_col = off = None
    srows = scols = None
    slice_val = False
    for s in _stmts(body):
        if (isinstance(s, ast.AugAssign) and isinstance(s.op, ast.Add) and isinstance(s.target, ast.Subscript)
                and isinstance(s.target.value, ast.Attribute) and s.target.value.attr == 'pairs'):
            sl = s.target.slice
            if not (isinstance(sl, ast.Tuple) and isinstance(sl.elts[0], ast.Slice) and isinstance(sl.elts[1], ast.Constant)
                    and _len_of(s.value) is not None):
                raise ValueError('unexpected pairs offset')
            off_col, off = int(sl.elts[1].value), ixe(_len_of(s.value), c)
        if (isinstance(s, ast.Assign) and len(s.targets) == 1 and isinstance(s.targets[0], ast.Subscript)
                and isinstance(s.targets[0].value, ast.Attribute) and s.targets[0].value.attr == 'mask'
                and _name(s.targets[0].value.value) == c.job):
            sl = s.targets[0].slice
            if not (isinstance(sl, ast.Tuple) and len(sl.elts) == 2 and all(isinstance(e, ast.Slice) for e in sl.elts)):
                raise ValueError('job mask is not filled through a 2-d slice')
            srows = _slice_e(sl.elts[0].lower, sl.elts[0].upper, c)
            scols = _slice_e(sl.elts[1].lower, sl.elts[1].upper, c)
            slice_val = _name(s.value) == sub_var
    if off is None or srows is None:
        raise ValueError('nblast_smart: pairs offset / job mask slice not found')
    mz = c.attrs.get('mask')
    shape_of = None
    if _is_call(mz, 'zeros') and mz.args and isinstance(mz.args[0], ast.Attribute) and mz.args[0].attr == 'shape':
        shape_of = _name(mz.args[0].value)
    if shape_of is None:
        raise ValueError('job mask is not `np.zeros(<mask>.shape)`')
    sub = _submit(body, c)
    pk = sub['kws'].get('pairs')
    pairs_ok = isinstance(pk, ast.Attribute) and pk.attr == 'pairs' and _name(pk.value) == c.job
    loop, as_c, same, res_var, job_var = _collect_loop(fn, outer.lineno, sub['futures'])
    place = None
    for s in _stmts(loop.body):
        if isinstance(s, ast.Assign) and len(s.targets) == 1 and isinstance(s.targets[0], ast.Subscript) \
                and _name(s.targets[0].value):
            place = s
    if place is None:
        raise ValueError('nblast_smart: no boolean-mask placement in the collection loop')
    key = place.targets[0].slice
    key_ok = isinstance(key, ast.Attribute) and key.attr == 'mask' and _name(key.value) == job_var
    # serial path: scr[mask] = this.pair_query_target(this.pairs, …) somewhere after the grid
    serial_ok = False
    for n in ast.walk(fn):
        if (isinstance(n, ast.Assign) and n.lineno > loop.lineno and len(n.targets) == 1
                and isinstance(n.targets[0], ast.Subscript) and _name(n.targets[0].value) == place.targets[0].value.id
                and _is_call(n.value, sub['method'])):
            serial_ok = _name(n.targets[0].slice) == mask_name
    lean = f'''def {lean_name} : SmartFacts := {{
  outerLen := {_lean_str(ql)}, outerCount := {_lean_str(qc)},
  innerLen := {_lean_str(tl)}, innerCount := {_lean_str(tc)},
  appends := [{', '.join(_append_lean(a) for a in loops)}],
  maskName := {_lean_str(mask_name)},
  submaskRowsList := {_lean_str(rows_l[0])}, submaskRows := {rows_l[1]},
  submaskColsList := {_lean_str(cols_l[0])}, submaskCols := {cols_l[1]},
  pairsWhere := {_lean_bool(pairs_where)},
  pairsOffsetCol := {off_col}, pairsOffset := {off},
  jobMaskShapeOf := {_lean_str(shape_of)},
  sliceRows := {srows},
  sliceCols := {scols},
  sliceValueIsSubmask := {_lean_bool(slice_val)},
  submitMethod := {_lean_str(sub['method'])},
  submitPairsIsJobPairs := {_lean_bool(pairs_ok)},
  futuresKeyedBySubmit := {_lean_bool(sub['keyed'])},
  asCompleted := {_lean_bool(as_c)},
  sameFuture := {_lean_bool(same)},
  placeTarget := {_lean_str(place.targets[0].value.id)},
  placeKeyIsJobMask := {_lean_bool(key_ok)},
  placesResult := {_lean_bool(_name(place.value) == res_var)},
  serialKeyIsGlobalMask := {_lean_bool(serial_ok)} }}
'''
    return lean, dict(function=fn.name, grid=which, line=outer.lineno)


# ------------------------------------------------------------------------------------------------
def batch_calls(trees):
    """every call of find_batch_partition: does it pass n_cores (keyword or 4th positional)?"""
    out = []
    for rel, tree in trees.items():
        for fn in [n for n in ast.walk(tree) if isinstance(n, ast.FunctionDef)]:
            for n in ast.walk(fn):
                if _is_call(n, 'find_batch_partition'):
                    out.append((f'{rel}:{fn.name}', any(k.arg == 'n_cores' for k in n.keywords) or len(n.args) >= 4))
    return sorted(set(out))


def partition_users(tree, names):
    """per front end: the order of the partition calls in the `if n_cores and n_cores > 1` block"""
    out = []
    for name in names:
        fn = _func(tree, name)
        calls = [(n.lineno, 'batch' if _is_call(n, 'find_batch_partition') else 'optimal')
                 for n in ast.walk(fn) if _is_call(n, 'find_batch_partition') or _is_call(n, 'find_optimal_partition')]
        out.append((name, [k for _, k in sorted(calls)]))
    return out


ORDERED_SITES = [
    ('core/core_utils.py', 'NeuronProcessor.__call__'),
    ('io/base.py', 'parallel_read'),
    ('io/base.py', 'parallel_read_archive'),
    ('io/base.py', 'parallel_read_ftp'),
    ('morpho/fq.py', 'form_factor'),
    ('connectivity/similarity.py', 'connectivity_similarity'),
    ('connectivity/similarity.py', 'synapse_similarity'),
    ('core/neuronlist.py', 'NeuronList.__init__'),
]


def _find_def(tree, dotted):
    parts = dotted.split('.')
    body = tree.body
    node = None
    for p in parts:
        node = next((n for n in body if isinstance(n, (ast.FunctionDef, ast.ClassDef)) and n.name == p), None)
        if node is None:
            raise ValueError(f'{dotted} not found')
        body = node.body
    return node


def map_sites(repo):
    out = []
    for rel, dotted in ORDERED_SITES:
        tree = ast.parse((repo / 'navis' / rel).read_text())
        fn = _find_def(tree, dotted)
        meths = sorted({n.func.attr for n in ast.walk(fn)
                        if isinstance(n, ast.Call) and isinstance(n.func, ast.Attribute)
                        and n.func.attr in ('imap', 'imap_unordered', 'map', 'map_async', 'starmap', 'apply_async',
                                            'uimap', 'amap', 'submit')
                        and _name(n.func.value) in ('pool', 'e', 'executor', 'exe', 'p')})
        if not meths:
            raise ValueError(f'{rel}:{dotted}: no pool map call found')
        for m in meths:
            out.append((f'{rel}:{dotted}', m))
    return out


def zip_rule(repo):
    """NeuronProcessor.__call__: the three-way rule per positional / keyword argument."""
    tree = ast.parse((repo / 'navis' / 'core' / 'core_utils.py').read_text())
    fn = _find_def(tree, 'NeuronProcessor.__call__')
    outer = next((n for n in fn.body if isinstance(n, ast.For) and _is_call(n.iter, 'enumerate')
                  and isinstance(n.target, ast.Tuple)), None)
    if outer is None:
        raise ValueError('NeuronProcessor.__call__: neuron loop not found')
    cnt = _name(outer.target.elts[0])
    over = ast.unparse(outer.iter.args[0])
    rules = []
    for inner in [n for n in outer.body if isinstance(n, ast.For)]:
        kind = 'args' if _is_call(inner.iter, 'enumerate') else 'kwargs'
        key, val = (_name(inner.target.elts[0]), _name(inner.target.elts[1]))
        st = next((s for s in inner.body if isinstance(s, ast.If)), None)
        if st is None or len(st.orelse) != 1 or not isinstance(st.orelse[0], ast.If):
            raise ValueError('zip rule is not an if / elif / else chain')
        st2 = st.orelse[0]
        t1 = st.test
        excl_ok = (isinstance(t1, ast.Compare) and isinstance(t1.ops[0], ast.In) and _name(t1.left) == key
                   and ast.unparse(t1.comparators[0]) == 'self.exclude_zip')
        t2 = st2.test
        # not is_iterable(v) or len(v) != len(self.nl)
        rule_ok, len_op, len_of = False, '?', '?'
        if isinstance(t2, ast.BoolOp) and isinstance(t2.op, ast.Or) and len(t2.values) == 2:
            a, b = t2.values
            it = (isinstance(a, ast.UnaryOp) and isinstance(a.op, ast.Not) and _is_call(a.operand, 'is_iterable')
                  and _name(a.operand.args[0]) == val)
            if isinstance(b, ast.Compare) and len(b.ops) == 1 and _len_of(b.left) is not None \
                    and _name(_len_of(b.left)) == val and _len_of(b.comparators[0]) is not None:
                len_op = type(b.ops[0]).__name__
                len_of = ast.unparse(_len_of(b.comparators[0]))
                rule_ok = it
        # what each branch stores
        def stored(stmts):
            for s in ast.walk(ast.Module(body=stmts, type_ignores=[])):
                if isinstance(s, ast.Call) and isinstance(s.func, ast.Attribute) and s.func.attr == 'append':
                    return s.args[0]
                if isinstance(s, ast.Assign) and isinstance(s.targets[0], ast.Subscript):
                    return s.value
            raise ValueError('zip rule branch stores nothing')
        b1, b2, b3 = stored(st.body), stored(st2.body), stored(st2.orelse)
        whole1, whole2 = _name(b1) == val, _name(b2) == val
        idx = (isinstance(b3, ast.Subscript) and _name(b3.value) == val and _name(b3.slice) == cnt)
        rules.append(dict(kind=kind, excl=excl_ok, shape=rule_ok, len_op=len_op, len_of=len_of,
                          whole1=whole1, whole2=whole2, idx=idx))
    if sorted(r['kind'] for r in rules) != ['args', 'kwargs']:
        raise ValueError('expected one rule for *args and one for **kwargs')
    return over, rules


def map_neuronlist_facts(repo):
    tree = ast.parse((repo / 'navis' / 'utils' / 'decorators.py').read_text())
    fn = _func(tree, 'map_neuronlist')
    wrapper = _func(fn, 'wrapper')
    start = stop_plus = None
    kw_excl = None
    first_is_nl = None
    for n in ast.walk(wrapper):
        if isinstance(n, ast.AugAssign) and _name(n.target) == 'excl' and _is_call(n.value, 'list'):
            r = n.value.args[0]
            if _is_call(r, 'range') and len(r.args) in (1, 2):
                a, b = (ast.Constant(0), r.args[0]) if len(r.args) == 1 else r.args
                start = int(a.value) if isinstance(a, ast.Constant) else None
                if isinstance(b, ast.BinOp) and isinstance(b.op, ast.Add) and _len_of(b.left) is not None \
                        and isinstance(b.right, ast.Constant):
                    stop_plus = int(b.right.value)
                elif _len_of(b) is not None:
                    stop_plus = 0
        if isinstance(n, ast.Assign) and _name(n.targets[0]) == 'excl' and isinstance(n.value, ast.ListComp):
            lc = n.value
            conds = lc.generators[0].ifs
            names = []
            for cnd in conds:
                for x in ast.walk(cnd):
                    if isinstance(x, ast.Compare) and isinstance(x.ops[0], ast.NotIn):
                        names.append(_name(x.comparators[0]))
            kw_excl = sorted(names)
        if isinstance(n, ast.Call) and _name(n.func) == 'proc' and n.args:
            first_is_nl = _name(n.args[0]) == 'nl' and len(n.args) == 2 and isinstance(n.args[1], ast.Starred)
    if start is None or stop_plus is None or kw_excl is None or first_is_nl is None:
        raise ValueError('map_neuronlist: exclusion list / processor call not found in the expected shape')
    return start, stop_plus, kw_excl, first_is_nl


def _be(n):
    """boolean test over `inplace` / `parallel` -> Lean BE"""
    if isinstance(n, ast.Name) and n.id in ('inplace', 'parallel'):
        return '.' + n.id
    if isinstance(n, ast.Constant) and isinstance(n.value, bool):
        return '.tt' if n.value else '.ff'
    if isinstance(n, ast.UnaryOp) and isinstance(n.op, ast.Not):
        return f'(.not {_be(n.operand)})'
    if isinstance(n, ast.BoolOp):
        op = '.and' if isinstance(n.op, ast.And) else '.or'
        e = _be(n.values[0])
        for v in n.values[1:]:
            e = f'({op} {e} {_be(v)})'
        return e
    raise ValueError('swap test is not a boolean expression over inplace / parallel: ' + ast.unparse(n)[:60])


def swap_facts(repo):
    """map_neuronlist: the `if` that guards `nl.neurons = res.neurons` and its other branch."""
    tree = ast.parse((repo / 'navis' / 'utils' / 'decorators.py').read_text())
    wrapper = _func(_func(tree, 'map_neuronlist'), 'wrapper')

    def is_swap(s):
        return (isinstance(s, ast.Assign) and len(s.targets) == 1 and isinstance(s.targets[0], ast.Attribute)
                and s.targets[0].attr == 'neurons' and isinstance(s.value, ast.Attribute) and s.value.attr == 'neurons')
    st = next((n for n in ast.walk(wrapper) if isinstance(n, ast.If) and any(is_swap(x) for x in n.body)), None)
    if st is None:
        raise ValueError('map_neuronlist: no `if …: nl.neurons = res.neurons` found')
    sw = next(x for x in st.body if is_swap(x))
    lst, res = _name(sw.targets[0].value), _name(sw.value.value)
    guard = _be(st.test)

    def is_ret(s):
        return isinstance(s, ast.Assign) and len(s.targets) == 1 and _name(s.targets[0]) == lst and _name(s.value) == res
    else_guard, else_ok = None, False
    if len(st.orelse) == 1 and isinstance(st.orelse[0], ast.If):
        e = st.orelse[0]
        else_guard = _be(e.test)
        else_ok = any(is_ret(x) for x in e.body) and not e.orelse
    else:
        else_ok = any(is_ret(x) for x in st.orelse)
    returns = any(isinstance(n, ast.Return) and _name(n.value) == lst and n.lineno > st.lineno for n in ast.walk(wrapper))
    return dict(guard=guard, else_guard=else_guard, assigns=bool(lst and res), else_ok=else_ok and returns)


def df_facts(repo):
    """map_neuronlist_df: what the per-neuron frames are zipped with when the id column is written;
    NeuronProcessor.__call__: does it record the failure flags of the *unfiltered* results?"""
    tree = ast.parse((repo / 'navis' / 'utils' / 'decorators.py').read_text())
    wrapper = _func(_func(tree, 'map_neuronlist_df'), 'wrapper')
    nlvar = 'nl'
    loop = None
    for n in ast.walk(wrapper):
        if (isinstance(n, ast.For) and _is_call(n.iter, 'zip') and len(n.iter.args) == 2 and isinstance(n.target, ast.Tuple)
                and any(_is_call(x, 'insert') for x in ast.walk(n))):
            loop = n
    if loop is None:
        raise ValueError('map_neuronlist_df: labelling loop `for n, df in zip(…, res)` not found')
    nvar, dfvar = _name(loop.target.elts[0]), _name(loop.target.elts[1])
    partner, resvar = loop.iter.args
    ins = next(x for x in ast.walk(loop) if _is_call(x, 'insert'))
    val = next((k.value for k in ins.keywords if k.arg == 'value'), ins.args[2] if len(ins.args) > 2 else None)
    own_id = (isinstance(ins.func, ast.Attribute) and _name(ins.func.value) == dfvar and isinstance(val, ast.Attribute)
              and val.attr == 'id' and _name(val.value) == nvar)
    zip_partner, filt = 'other', False
    if _name(partner) == nlvar:
        zip_partner = 'list'
    elif _name(partner):
        # latest assignment of that name before the loop
        asg = [a for a in ast.walk(wrapper) if isinstance(a, ast.Assign) and len(a.targets) == 1
               and _name(a.targets[0]) == partner.id and a.lineno < loop.lineno]
        if asg:
            v = max(asg, key=lambda a: a.lineno).value
            if isinstance(v, ast.ListComp) and len(v.generators) == 1:
                g = v.generators[0]
                if (_is_call(g.iter, 'zip') and len(g.iter.args) == 2 and _name(g.iter.args[0]) == nlvar
                        and isinstance(g.iter.args[1], ast.Attribute) and g.iter.args[1].attr == 'failed'
                        and isinstance(g.target, ast.Tuple) and len(g.target.elts) == 2):
                    keep, flag = _name(g.target.elts[0]), _name(g.target.elts[1])
                    zip_partner = 'survivors'
                    filt = (_name(v.elt) == keep and len(g.ifs) == 1 and isinstance(g.ifs[0], ast.UnaryOp)
                            and isinstance(g.ifs[0].op, ast.Not) and _name(g.ifs[0].operand) == flag)
    # processor: self.failed = <flags>, flags = [isinstance(r, FailedRun) for r in res] computed before res is filtered
    ctree = ast.parse((repo / 'navis' / 'core' / 'core_utils.py').read_text())
    call = _find_def(ctree, 'NeuronProcessor.__call__')
    records = False
    flags_line = filter_line = None
    flags_var = None
    for a in ast.walk(call):
        if isinstance(a, ast.Assign) and len(a.targets) == 1:
            lcs = [x for x in ast.walk(a.value) if isinstance(x, ast.ListComp)]
            for lc in lcs:
                if _is_call(lc.elt, 'isinstance') and _name(lc.elt.args[1]) == 'FailedRun' and _name(a.targets[0]):
                    flags_var, flags_line = a.targets[0].id, a.lineno
                if (lc.generators[0].ifs and any(_is_call(x, 'isinstance') for x in ast.walk(lc.generators[0].ifs[0]))
                        and _name(a.targets[0]) == 'res'):
                    filter_line = a.lineno
    for a in ast.walk(call):
        if (isinstance(a, ast.Assign) and len(a.targets) == 1 and isinstance(a.targets[0], ast.Attribute)
                and a.targets[0].attr == 'failed' and _name(a.targets[0].value) == 'self'):
            records = (flags_var is not None and _name(a.value) == flags_var and filter_line is not None
                       and flags_line < filter_line)
    return dict(zipPartner=zip_partner, survivorsFilterNotFailed=filt, procRecordsFailed=records, labelsWithOwnId=own_id)


# ------------------------------------------------------------------------------------------------
def generate(repo: Path):
    repo = Path(repo)
    srcs = {rel: (repo / 'navis' / 'nbl' / rel) for rel in ('nblast_funcs.py', 'synblast_funcs.py', 'ablast_funcs.py')}
    trees = {rel: ast.parse(p.read_text()) for rel, p in srcs.items()}
    nb = trees['nblast_funcs.py']
    progs, metas = [], []
    for tree, fname, which, lean_name in [
            (nb, 'nblast', 0, 'nblast'),
            (nb, 'nblast_allbyall', 0, 'allbyall'),
            (nb, 'nblast_smart', 0, 'smartPre'),
            (trees['synblast_funcs.py'], 'synblast', 0, 'synblast'),
            (trees['ablast_funcs.py'], 'nblast_align', 0, 'nblastAlign')]:
        lean, meta = grid_program(_func(tree, fname), which, lean_name)
        progs.append(lean)
        metas.append(meta)
    smart_lean, smart_meta = smart_facts(_func(nb, 'nblast_smart'), 1, 'smartFull')
    bc = batch_calls(trees)
    users = partition_users(nb, ['nblast', 'nblast_allbyall', 'nblast_smart'])
    sites = map_sites(repo)
    over, rules = zip_rule(repo)
    start, stop_plus, kw_excl, first_is_nl = map_neuronlist_facts(repo)
    dff = df_facts(repo)
    swf = swap_facts(repo)

    def rule_lean(r):
        return ('{ kind := "%s", excludeTestsLoopKey := %s, iterableAndLenShape := %s, lenOp := "%s", lenOf := "%s", '
                'excludedGetsWhole := %s, unzippedGetsWhole := %s, zippedIndexedByNeuronCounter := %s }'
                % (r['kind'], _lean_bool(r['excl']), _lean_bool(r['shape']), r['len_op'], r['len_of'],
                   _lean_bool(r['whole1']), _lean_bool(r['whole2']), _lean_bool(r['idx'])))

    src = f'''/- GENERATED by translator/gen_nblastjobs.py from navis/nbl/nblast_funcs.py, synblast_funcs.py, ablast_funcs.py,
   navis/core/core_utils.py, navis/utils/decorators.py (+ the pool-map call sites).  Do not edit: regenerated on
   every `./check C09`. -/
import NavisModel.Model.JobSpec
import NavisModel.Model.Zip
namespace Navis.Gen.NblastJobs
open Navis.JobSpec

{chr(10).join(progs)}
{smart_lean}
/-- every call of `find_batch_partition` in the NBLAST modules: (site, passes `n_cores`) -/
def batchCalls : List (String × Bool) := [
{("," + chr(10)).join(f'  ("{s}", {_lean_bool(b)})' for s, b in bc)}]

/-- order of the partition-function calls per front end -/
def partitionCalls : List (String × List String) := [
{("," + chr(10)).join('  ("%s", [%s])' % (n, ', '.join('"%s"' % k for k in ks)) for n, ks in users)}]

/-- pool map methods at the call sites whose results are consumed positionally -/
def mapSites : List (String × String) := [
{("," + chr(10)).join(f'  ("{s}", "{m}")' for s, m in sites)}]

/-- the list `NeuronProcessor.__call__` enumerates to build per-neuron arguments -/
def zipOver : String := "{over}"

def zipRules : List ZipRule := [
{("," + chr(10)).join('  ' + rule_lean(r) for r in rules)}]

/-- `map_neuronlist`: `excl += list(range(start, len(args) + stopPlus))`, keywords excluded unless named in these
lists, and the processor is called as `proc(nl, *args, **kwargs)` -/
def exclPosStart : Nat := {start}
def exclPosStopPlus : Nat := {stop_plus}
def exclKeywordUnlessIn : List String := [{', '.join('"%s"' % k for k in kw_excl)}]
def procCalledWithListFirst : Bool := {_lean_bool(first_is_nl)}

/-- `map_neuronlist`: the test guarding `nl.neurons = res.neurons` and the other branch -/
def swapFacts : Navis.Zip.SwapFacts := {{
  swapGuard := {swf['guard']},
  elseGuard := {_lean_opt(swf['else_guard'])},
  swapAssignsResultNeurons := {_lean_bool(swf['assigns'])},
  elseReturnsResult := {_lean_bool(swf['else_ok'])} }}

/-- `map_neuronlist_df`: what the result frames are zipped with when the id column is written -/
def dfFacts : Navis.Zip.DfFacts := {{
  zipPartner := "{dff['zipPartner']}",
  survivorsFilterNotFailed := {_lean_bool(dff['survivorsFilterNotFailed'])},
  procRecordsFailed := {_lean_bool(dff['procRecordsFailed'])},
  labelsWithOwnId := {_lean_bool(dff['labelsWithOwnId'])} }}

end Navis.Gen.NblastJobs
'''
    meta = dict(source=[str(p.relative_to(repo)) for p in srcs.values()] + ['navis/core/core_utils.py', 'navis/utils/decorators.py'],
                programs=metas, smart=smart_meta, batch_calls=bc, map_sites=sites, df_facts=dff, swap_facts=swf)
    return 'NblastJobs.lean', src, meta
