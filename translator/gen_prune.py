"""Translator for C12: re-extract the declarative facts of navis' pruning code from the *current* source
(`navis/morpho/manipulation.py`, `navis/graph/graph_utils.py`, `navis/core/skeleton.py`; read as text, walked with
`ast`; nothing is imported from navis) and emit them as Lean definitions (`Gen/Prune.lean`).  `Props/C12.lean` proves
that they are what the Lean model (`Model/Prune.lean`, `Model/PruneExt.lean`) hard-wires, so that an edit of

* `_prune_twigs_simple`: the comparison `seg_lengths <= size`, the fork test `n_childs.values > 1`, which end of a
  segment must be a leaf / a fork / in the mask (`s[0]`, `s[-1]`), the tail that is spared (`s[:-1]`), how
  `recursive` is normalised (`True -> inf`), tested and decremented, what is handed to the next round, what is passed
  to navis-fastcore as threshold;
* `prune_twigs`: defaults, the `exact` dispatch and which arguments each branch forwards, `map_units`;
* `_prune_twigs_precise`: `size <= 0`, `cutoff=size`, the parent test `~parent_id.isin(in_range)`, `max` over the
  distal tips, `size - max_len`, `vec_len < len_to_prune`, which point the tip moves away from;
* `prune_by_strahler`: defaults, the reroot guard, the cached-column guard, the index arithmetic for negative ints
  and slices, the `< 1` error, the row filter, the relocation walk (loop condition, step, the table the parent map is
  built from), the connector filter, the orphan repair;
* `prune_at_depth`: `depth < 0`, `x.root[0]`, the arguments of `geodesic_matrix`, `< np.inf`, `must_zip`;
* `longest_neurite`: defaults, `n < 1`, `weight="weight"`, `segments[:n]` / `segments[n]`, the inverse mask,
  the end-node types and the `-1` for unreachable pairs of `from_root=False`;
* `geodesic_matrix`: the `limit` comparison of the fastcore branch;
* `TreeNeuron.prune_*`: which function each method calls and which of its parameters it forwards;
* the decorators of every pruning function

makes a theorem stop checking.  Only these facts are extracted (operators, constants, argument names, decorator
names): renaming a local, reordering independent statements or adding logging keeps the tie.  Anything that is not
found in the expected shape raises (a broken tie is reported, never guessed)."""
import ast
from pathlib import Path

PROPS = ['C12']


# ------------------------------------------------------------------------------------------------ helpers
def _func(tree, name, cls=None):
    body = tree.body
    if cls:
        for n in body:
            if isinstance(n, ast.ClassDef) and n.name == cls:
                body = n.body
                break
        else:
            raise ValueError(f'class {cls} not found')
    for n in body:
        if isinstance(n, ast.FunctionDef) and n.name == name:
            return n
    raise ValueError(f'function {cls + "." if cls else ""}{name} not found')


def _defaults(fn):
    a = fn.args
    out = {}
    pos = a.posonlyargs + a.args
    for p, d in zip(pos[len(pos) - len(a.defaults):], a.defaults):
        out[p.arg] = ast.unparse(d)
    for p, d in zip(a.kwonlyargs, a.kw_defaults):
        if d is not None:
            out[p.arg] = ast.unparse(d)
    return out


def _decorators(fn):
    out = []
    for d in fn.decorator_list:
        f = d.func if isinstance(d, ast.Call) else d
        out.append(ast.unparse(f).split('.')[-1])
    return out


def _decorator_kw(fn, deco, kw):
    for d in fn.decorator_list:
        if isinstance(d, ast.Call) and ast.unparse(d.func).split('.')[-1] == deco:
            for k in d.keywords:
                if k.arg == kw:
                    return ast.literal_eval(k.value)
    return None


def _op(n):
    return type(n).__name__


def _const(n):
    if isinstance(n, ast.Constant):
        return n.value
    if isinstance(n, ast.UnaryOp) and isinstance(n.op, ast.USub) and isinstance(n.operand, ast.Constant):
        return -n.operand.value
    return None


def _mentions(n, name):
    return any(isinstance(c, ast.Name) and c.id == name for c in ast.walk(n))


def _has_attr(n, attr):
    return any(isinstance(c, ast.Attribute) and c.attr == attr for c in ast.walk(n))


def _compares(fn, pred):
    return [n for n in ast.walk(fn) if isinstance(n, ast.Compare) and len(n.ops) == 1 and pred(n)]


def _one(lst, what):
    if len(lst) != 1:
        raise ValueError(f'{what}: expected exactly one occurrence, found {len(lst)}')
    return lst[0]


def _all_same(vals, what):
    s = set(vals)
    if len(s) != 1:
        raise ValueError(f'{what}: expected one consistent value, found {sorted(map(str, s))}')
    return vals[0]


def _calls(fn, name):
    """calls whose function's last attribute / name is `name`"""
    out = []
    for n in ast.walk(fn):
        if isinstance(n, ast.Call):
            f = n.func
            last = f.attr if isinstance(f, ast.Attribute) else (f.id if isinstance(f, ast.Name) else None)
            if last == name:
                out.append(n)
    return out


def _kw(call, name):
    for k in call.keywords:
        if k.arg == name:
            return k.value
    return None


def _index_of(sub):
    """`s[<const>]` -> const"""
    if isinstance(sub, ast.Subscript):
        return _const(sub.slice)
    return None


def _raises(body):
    return any(isinstance(s, ast.Raise) for st in body for s in ast.walk(st))


# ------------------------------------------------------------------------------------------------ prune_twigs
def twigs_facts(tree):
    F = {}
    pt = _func(tree, 'prune_twigs')
    F['defaults'] = _defaults(pt)
    F['decorators'] = _decorators(pt)
    # exact dispatch: `if not exact: return _prune_twigs_simple(...) else: return _prune_twigs_precise(...)`
    disp = None
    for n in ast.walk(pt):
        if isinstance(n, ast.If) and _mentions(n.test, 'exact'):
            neg = isinstance(n.test, ast.UnaryOp) and isinstance(n.test.op, ast.Not)
            then_calls = [c for c in ast.walk(ast.Module(body=n.body, type_ignores=[])) if isinstance(c, ast.Call) and isinstance(c.func, ast.Name)]
            else_calls = [c for c in ast.walk(ast.Module(body=n.orelse, type_ignores=[])) if isinstance(c, ast.Call) and isinstance(c.func, ast.Name)]
            tc = [c for c in then_calls if c.func.id.startswith('_prune_twigs')]
            ec = [c for c in else_calls if c.func.id.startswith('_prune_twigs')]
            if len(tc) == 1 and len(ec) == 1:
                a, b = (tc[0], ec[0]) if neg else (ec[0], tc[0])     # a: exact is false, b: exact is true
                disp = (a, b)
    if disp is None:
        raise ValueError('prune_twigs: exact dispatch not found')
    fwd = lambda c: sorted(f'{k.arg}={ast.unparse(k.value)}' for k in c.keywords)
    F['inexactCallee'], F['inexactArgs'] = disp[0].func.id, fwd(disp[0])
    F['exactCallee'], F['exactArgs'] = disp[1].func.id, fwd(disp[1])
    mu = [c for c in _calls(pt, 'map_units') if c.args and isinstance(c.args[0], ast.Name) and c.args[0].id == 'size']
    F['mapsUnits'] = len(mu) == 1

    sp = _func(tree, '_prune_twigs_simple')
    # recursive=True -> inf
    rec_inf = False
    for n in ast.walk(sp):
        if isinstance(n, ast.If) and 'isinstance(recursive, bool)' in ast.unparse(n.test) and _mentions(n.test, 'recursive'):
            for s in n.body:
                if isinstance(s, ast.Assign) and ast.unparse(s.targets[0]) == 'recursive' and 'inf' in ast.unparse(s.value):
                    rec_inf = True
    F['recTrueIsInf'] = rec_inf
    c = _one(_compares(sp, lambda n: isinstance(n.left, ast.Name) and n.left.id == 'seg_lengths'), '_prune_twigs_simple: seg_lengths comparison')
    F['lenCmp'], F['lenRhs'] = _op(c.ops[0]), ast.unparse(c.comparators[0])
    c = _one(_compares(sp, lambda n: _mentions(n.left, 'n_childs') and _const(n.comparators[0]) is not None), '_prune_twigs_simple: fork test')
    F['forkCmp'], F['forkK'] = _op(c.ops[0]), _const(c.comparators[0])
    # [s for s in segs if s[i] in leafs and s[j] in forks]
    ends = {}
    for n in ast.walk(sp):
        if isinstance(n, ast.Compare) and len(n.ops) == 1 and isinstance(n.ops[0], ast.In) and isinstance(n.comparators[0], ast.Name) \
                and n.comparators[0].id in ('leafs', 'forks', 'mask_nodes') and _index_of(n.left) is not None:
            ends.setdefault(n.comparators[0].id, set()).add(_index_of(n.left))
    for k in ('leafs', 'forks', 'mask_nodes'):
        if len(ends.get(k, ())) != 1:
            raise ValueError(f'_prune_twigs_simple: `s[i] in {k}` not found exactly once')
    F['leafPos'], F['forkPos'], F['maskPos'] = ends['leafs'].pop(), ends['forks'].pop(), ends['mask_nodes'].pop()
    # for n in s[:-k]
    tails = []
    for n in ast.walk(sp):
        if isinstance(n, ast.comprehension) and isinstance(n.iter, ast.Subscript) and isinstance(n.iter.slice, ast.Slice):
            sl = n.iter.slice
            if sl.lower is None and sl.step is None and _const(sl.upper) is not None:
                tails.append(-_const(sl.upper))
    F['dropTail'] = _one(tails, '_prune_twigs_simple: `for n in s[:-k]`')
    # recursion: `if recursive: <f>(neuron, size=size, inplace=True, recursive=recursive - k, mask=mask_nodes)`
    recs = []
    for n in ast.walk(sp):
        if isinstance(n, ast.If) and isinstance(n.test, ast.Name) and n.test.id == 'recursive':
            for cst in n.body:
                for c in ast.walk(cst):
                    if isinstance(c, ast.Call) and isinstance(c.func, ast.Name) and c.func.id in ('prune_twigs', '_prune_twigs_simple'):
                        r = _kw(c, 'recursive')
                        if not (isinstance(r, ast.BinOp) and isinstance(r.op, ast.Sub) and isinstance(r.left, ast.Name) and r.left.id == 'recursive'):
                            raise ValueError('_prune_twigs_simple: recursive call does not pass `recursive - k`')
                        recs.append((_const(r.right), ast.unparse(_kw(c, 'mask')), ast.unparse(_kw(c, 'inplace')), ast.unparse(_kw(c, 'size'))))
    if len(recs) != 2:
        raise ValueError(f'_prune_twigs_simple: expected two guarded recursive calls (fastcore / python), found {len(recs)}')
    F['recDecrement'], F['recMask'], F['recInplace'], F['recSize'] = _all_same(recs, '_prune_twigs_simple: recursive calls')
    fc = _one(_calls(sp, 'prune_twigs')[:0] + [c for c in _calls(sp, 'prune_twigs') if isinstance(c.func, ast.Attribute)], '_prune_twigs_simple: fastcore call')
    F['fcThreshold'] = ast.unparse(_kw(fc, 'threshold'))
    F['fcMaskUsesIsin'] = 'isin(mask_nodes)' in ast.unparse(_kw(fc, 'mask'))
    # bool mask -> node ids by position
    F['boolMaskIndexes'] = any(isinstance(n, ast.Assign) and ast.unparse(n.targets[0]) == 'mask_nodes'
                               and ast.unparse(n.value).endswith('node_id.values[mask]') for n in ast.walk(sp))

    pr = _func(tree, '_prune_twigs_precise')
    c = _one([n for n in _compares(pr, lambda n: isinstance(n.left, ast.Name) and n.left.id == 'size' and _const(n.comparators[0]) == 0)],
             '_prune_twigs_precise: size test')
    F['exactSizeCmp'] = _op(c.ops[0])
    dj = _one(_calls(pr, 'all_pairs_dijkstra_path_length'), '_prune_twigs_precise: dijkstra call')
    F['exactCutoff'] = ast.unparse(_kw(dj, 'cutoff'))
    F['exactWeight'] = ast.literal_eval(_kw(dj, 'weight'))
    F['exactReversed'] = '.reverse()' in ast.unparse(dj.args[0])
    # with a mask the distances are taken on the subgraph of masked nodes: `g = g.subgraph(mask_nodes)` under `if mask is not None`
    base = dj.args[0]
    while isinstance(base, (ast.Call, ast.Attribute)):
        base = base.func if isinstance(base, ast.Call) else base.value
    gname = base.id if isinstance(base, ast.Name) else None
    sub = False
    for n in ast.walk(pr):
        if isinstance(n, ast.If) and _mentions(n.test, 'mask'):
            for st in n.body:
                if isinstance(st, ast.Assign) and isinstance(st.targets[0], ast.Name) and st.targets[0].id == gname \
                        and isinstance(st.value, ast.Call) and isinstance(st.value.func, ast.Attribute) and st.value.func.attr == 'subgraph' \
                        and st.value.args and ast.unparse(st.value.args[0]) == 'mask_nodes':
                    sub = True
    F['exactMaskSubgraph'] = sub
    # nodes_to_keep = nodes.loc[~nodes.<col>.isin(in_range), ...]
    keepcol = []
    for n in ast.walk(pr):
        if isinstance(n, ast.UnaryOp) and isinstance(n.op, ast.Invert) and isinstance(n.operand, ast.Call) \
                and isinstance(n.operand.func, ast.Attribute) and n.operand.func.attr == 'isin' \
                and n.operand.args and ast.unparse(n.operand.args[0]) == 'in_range':
            keepcol.append(n.operand.func.value.attr)
    F['exactKeepColumn'] = _one(keepcol, '_prune_twigs_precise: `~<col>.isin(in_range)`')
    # max_len = [max([...]) for l1 in new_leafs]
    agg = []
    for n in ast.walk(pr):
        if isinstance(n, ast.Assign) and ast.unparse(n.targets[0]) == 'max_len' and isinstance(n.value, ast.ListComp) \
                and isinstance(n.value.elt, ast.Call) and isinstance(n.value.elt.func, ast.Name):
            agg.append(n.value.elt.func.id)
    F['exactAggregate'] = _one(agg, '_prune_twigs_precise: max_len')
    rem = []
    for n in ast.walk(pr):
        if isinstance(n, ast.Assign) and ast.unparse(n.targets[0]) == 'len_to_prune' and isinstance(n.value, ast.BinOp):
            rem.append((_op(n.value.op), ast.unparse(n.value.left), _mentions(n.value.right, 'max_len')))
    F['exactRemainder'] = _one(rem, '_prune_twigs_precise: len_to_prune')
    c = _one(_compares(pr, lambda n: isinstance(n.left, ast.Name) and n.left.id == 'vec_len'), '_prune_twigs_precise: to_remove')
    F['exactRemoveCmp'], F['exactRemoveRhs'] = _op(c.ops[0]), ast.unparse(c.comparators[0])
    mv = []
    for n in ast.walk(pr):
        if isinstance(n, ast.Assign) and ast.unparse(n.targets[0]) == 'vec' and isinstance(n.value, ast.BinOp):
            mv.append((_op(n.value.op), ast.unparse(n.value.left), ast.unparse(n.value.right)))
        if isinstance(n, ast.Assign) and ast.unparse(n.targets[0]) == 'new_loc' and isinstance(n.value, ast.BinOp):
            mv.append((_op(n.value.op), ast.unparse(n.value.left), 'vec_norm*len_to_prune' if (_mentions(n.value.right, 'vec_norm') and _mentions(n.value.right, 'len_to_prune')) else '?'))
    F['exactMove'] = sorted(mv)
    return F


# ------------------------------------------------------------------------------------------------ prune_by_strahler
def strahler_facts(tree):
    F = {}
    fn = _func(tree, 'prune_by_strahler')
    F['defaults'] = _defaults(fn)
    F['decorators'] = _decorators(fn)
    # working copy = the name `.reroot(...)` is called on
    rr = _one([c for c in _calls(fn, 'reroot')], 'prune_by_strahler: reroot call')
    work = rr.func.value.id
    F['rerootInplace'] = ast.unparse(_kw(rr, 'inplace')) == 'True'
    F['rerootTarget'] = ast.unparse(rr.args[0]).replace(work, 'W')
    guard = None
    for n in ast.walk(fn):
        if isinstance(n, ast.If) and any(c is rr for st in n.body for c in ast.walk(st)):
            guard = n.test
    if guard is None:
        raise ValueError('prune_by_strahler: the reroot call is not guarded')
    F['rerootGuard'] = sorted(ast.unparse(v).replace(work, 'W') for v in
                              (guard.values if isinstance(guard, ast.BoolOp) and isinstance(guard.op, ast.And) else [guard]))
    # cached column guard
    col = None
    for n in ast.walk(fn):
        if isinstance(n, ast.If) and _calls(ast.Module(body=n.body, type_ignores=[]), 'strahler_index'):
            col = n.test
    if col is None:
        raise ValueError('prune_by_strahler: the test guarding strahler_index(...) was not found')
    F['columnGuard'] = sorted(ast.unparse(v).replace(work, 'W') for v in
                              (col.values if isinstance(col, ast.BoolOp) and isinstance(col.op, ast.Or) else [col]))
    # negative ints: `isinstance(to_prune, int) and to_prune < 0` -> range(lo, int(max + (to_prune + k)))
    neg = None
    for n in ast.walk(fn):
        if isinstance(n, ast.If) and isinstance(n.test, ast.BoolOp) and 'isinstance(to_prune, int)' in ast.unparse(n.test):
            cmp_ = [v for v in n.test.values if isinstance(v, ast.Compare)]
            rng = _calls(ast.Module(body=n.body, type_ignores=[]), 'range')
            if len(cmp_) == 1 and len(rng) == 1:
                neg = (cmp_[0], rng[0])
    if neg is None:
        raise ValueError('prune_by_strahler: negative-int branch not found')
    F['negCmp'], F['negRhs'] = _op(neg[0].ops[0]), _const(neg[0].comparators[0])

    def range_facts(call, who):
        if len(call.args) != 2:
            raise ValueError(f'{who}: range() does not have two arguments')
        lo = _const(call.args[0])
        up = call.args[1]
        if isinstance(up, ast.Call) and isinstance(up.func, ast.Name) and up.func.id == 'int':
            up = up.args[0]
        if not (isinstance(up, ast.BinOp) and isinstance(up.op, ast.Add) and 'strahler_index.max()' in ast.unparse(up.left)):
            raise ValueError(f'{who}: upper bound is not `<max SI> + …`')
        return lo, up.right
    lo, add = range_facts(neg[1], 'prune_by_strahler (negative int)')
    if isinstance(add, ast.Name) and add.id == 'to_prune':
        k = 0
    elif isinstance(add, ast.BinOp) and isinstance(add.op, (ast.Add, ast.Sub)) and ast.unparse(add.left) == 'to_prune' and _const(add.right) is not None:
        k = _const(add.right) if isinstance(add.op, ast.Add) else -_const(add.right)
    else:
        raise ValueError('prune_by_strahler: negative-int upper bound is not `max + (to_prune + k)`')
    F['negLo'], F['negAdd'] = lo, k
    # `to_prune < 1` -> raise
    pos = [n for n in ast.walk(fn) if isinstance(n, ast.If) and isinstance(n.test, ast.Compare) and ast.unparse(n.test.left) == 'to_prune' and _raises(n.body)]
    p = _one(pos, 'prune_by_strahler: positive-int check')
    F['posCmp'], F['posK'] = _op(p.test.ops[0]), _const(p.test.comparators[0])
    # slice: SI_range = range(lo, int(max + k)); to_prune = list(SI_range)[to_prune]
    sl = None
    for n in ast.walk(fn):
        if isinstance(n, ast.If) and 'isinstance(to_prune, slice)' in ast.unparse(n.test):
            rng = _calls(ast.Module(body=n.body, type_ignores=[]), 'range')
            sl = _one(rng, 'prune_by_strahler: slice branch range()')
            F['sliceIndexesList'] = any(isinstance(c, ast.Subscript) and ast.unparse(c.slice) == 'to_prune' and ast.unparse(c.value).startswith('list(')
                                        for st in n.body for c in ast.walk(st))
    if sl is None:
        raise ValueError('prune_by_strahler: slice branch not found')
    lo, add = range_facts(sl, 'prune_by_strahler (slice)')
    F['sliceLo'], F['sliceAdd'] = lo, _const(add)
    F['rangeToList'] = any(isinstance(n, ast.If) and 'isinstance(to_prune, range)' in ast.unparse(n.test)
                           and any(ast.unparse(s) == 'to_prune = list(to_prune)' for s in n.body) for n in ast.walk(fn))
    # row filter: ~<W>._nodes.strahler_index.isin(to_prune)
    flt = []
    for n in ast.walk(fn):
        if isinstance(n, ast.UnaryOp) and isinstance(n.op, ast.Invert) and isinstance(n.operand, ast.Call) \
                and isinstance(n.operand.func, ast.Attribute) and n.operand.func.attr == 'isin' \
                and n.operand.args and ast.unparse(n.operand.args[0]) == 'to_prune':
            flt.append(n.operand.func.value.attr)
    F['filterColumn'] = _one(flt, 'prune_by_strahler: row filter')
    # relocation
    pd_ = None
    for n in ast.walk(fn):
        if isinstance(n, ast.Assign) and ast.unparse(n.targets[0]) == 'parent_dict' and isinstance(n.value, ast.DictComp):
            dc = n.value
            src = dc.generators[0].iter
            base = src
            while isinstance(base, (ast.Call, ast.Attribute)):
                base = base.func if isinstance(base, ast.Call) else base.value
            pd_ = (ast.unparse(dc.key).split('.')[-1], ast.unparse(dc.value).split('.')[-1], base.id if isinstance(base, ast.Name) else '?', n.lineno)
    if pd_ is None:
        raise ValueError('prune_by_strahler: parent_dict not found')
    F['relocKey'], F['relocValue'] = pd_[0], pd_[1]
    F['relocParentsFromWorkingCopy'] = pd_[2] == work
    F['relocParentsAfterReroot'] = pd_[3] > rr.lineno
    wl = _one([n for n in ast.walk(fn) if isinstance(n, ast.While)], 'prune_by_strahler: relocation loop')
    if not (isinstance(wl.test, ast.BoolOp) and isinstance(wl.test.op, ast.And)):
        raise ValueError('prune_by_strahler: relocation loop condition is not a conjunction')
    F['relocWhile'] = sorted(ast.unparse(v) for v in wl.test.values)
    F['relocStep'] = sorted(ast.unparse(s) for s in wl.body)
    start = [n for n in ast.walk(fn) if isinstance(n, ast.Assign) and ast.unparse(n.targets[0]) == 'this_tn' and not any(n is s for s in wl.body)]
    F['relocStart'] = ast.unparse(_one(start, 'prune_by_strahler: relocation start').value)
    F['relocAssign'] = any(isinstance(n, ast.Assign) and 'node_id' in ast.unparse(n.targets[0]) and ast.unparse(n.value) == 'this_tn' for n in ast.walk(fn))
    # connector filter(s): <W>._connectors.node_id.isin(<W>._nodes.node_id.values)
    cf = []
    for n in ast.walk(fn):
        if isinstance(n, ast.Assign) and ast.unparse(n.targets[0]).endswith('._connectors'):
            for c in ast.walk(n.value):
                if isinstance(c, ast.Subscript) and ast.unparse(c.value).endswith('._connectors') and '.isin(' in ast.unparse(c.slice) \
                        and '_nodes.node_id' in ast.unparse(c.slice) and not ast.unparse(c.slice).startswith('~'):
                    cf.append(ast.unparse(c.slice).split('.isin(')[0].split('.')[-1])
    F['connFilters'] = len(cf)
    F['connFilterColumn'] = _all_same(cf, 'prune_by_strahler: connector filter') if cf else ''
    # orphan repair: <W>._nodes.loc[~parent_id.isin(node_id.values), "parent_id"] = -1
    orp = [n for n in ast.walk(fn) if isinstance(n, ast.Assign) and isinstance(n.targets[0], ast.Subscript) and '~' in ast.unparse(n.targets[0])
           and 'parent_id.isin(' in ast.unparse(n.targets[0]) and _const(n.value) is not None]
    F['orphanParent'] = _const(_one(orp, 'prune_by_strahler: orphan repair').value)
    return F


# ------------------------------------------------------------------------------------------------ prune_at_depth
def depth_facts(tree):
    F = {}
    fn = _func(tree, 'prune_at_depth')
    F['defaults'] = _defaults(fn)
    F['decorators'] = _decorators(fn)
    F['mustZip'] = _decorator_kw(fn, 'map_neuronlist', 'must_zip') or []
    mu = [c for c in _calls(fn, 'map_units') if c.args and ast.unparse(c.args[0]) == 'depth']
    F['mapsUnits'] = len(mu) == 1
    neg = _one([n for n in ast.walk(fn) if isinstance(n, ast.If) and isinstance(n.test, ast.Compare) and ast.unparse(n.test.left) == 'depth' and _raises(n.body)],
               'prune_at_depth: depth check')
    F['negCmp'], F['negRhs'] = _op(neg.test.ops[0]), _const(neg.test.comparators[0])
    rt = _one([n for n in ast.walk(fn) if isinstance(n, ast.Assign) and ast.unparse(n.targets[0]) == 'source' and isinstance(n.value, ast.Subscript)],
              'prune_at_depth: default source')
    F['defaultSource'] = ast.unparse(rt.value.value).split('.')[-1]
    F['defaultSourceIndex'] = _const(rt.value.slice)
    F['absentSourceRaises'] = any(isinstance(n, ast.If) and isinstance(n.test, ast.Compare) and isinstance(n.test.ops[0], ast.NotIn)
                                  and ast.unparse(n.test.left) == 'source' and _raises(n.body) for n in ast.walk(fn)) or \
        any(isinstance(n, ast.If) and any(isinstance(t, ast.Compare) and isinstance(t.ops[0], ast.NotIn) and ast.unparse(t.left) == 'source'
                                          for t in [n.test] + [o.test for o in n.orelse if isinstance(o, ast.If)]) for n in ast.walk(fn))
    gm = _one(_calls(fn, 'geodesic_matrix'), 'prune_at_depth: geodesic_matrix call')
    F['geoArgs'] = sorted(f'{k.arg}={ast.unparse(k.value)}' for k in gm.keywords)
    kp = _one(_compares(fn, lambda n: 'inf' in ast.unparse(n.comparators[0])), 'prune_at_depth: keep test')
    F['keepCmp'], F['keepRow'] = _op(kp.ops[0]), ast.unparse(kp.left)
    return F


# ------------------------------------------------------------------------------------------------ graph_utils
def longest_facts(tree):
    F = {}
    fn = _func(tree, 'longest_neurite')
    F['defaults'] = _defaults(fn)
    F['decorators'] = _decorators(fn)
    bad = _one([n for n in ast.walk(fn) if isinstance(n, ast.If) and _raises(n.body) and any(isinstance(c, ast.Compare) and ast.unparse(c.left) == 'n' for c in ast.walk(n.test))],
               'longest_neurite: n check')
    c = _one([c for c in ast.walk(bad.test) if isinstance(c, ast.Compare) and ast.unparse(c.left) == 'n'], 'longest_neurite: n comparison')
    F['badCmp'], F['badK'] = _op(c.ops[0]), _const(c.comparators[0])
    gs = _one(_calls(fn, '_generate_segments'), 'longest_neurite: _generate_segments call')
    F['segWeight'] = ast.literal_eval(_kw(gs, 'weight')) if _kw(gs, 'weight') is not None else None
    picks = []
    for n in ast.walk(fn):
        if isinstance(n, ast.Subscript) and ast.unparse(n.value) == 'segments':
            s = n.slice
            if isinstance(s, ast.Slice):
                picks.append(f"{'' if s.lower is None else ast.unparse(s.lower)}:{'' if s.upper is None else ast.unparse(s.upper)}:{'' if s.step is None else ast.unparse(s.step)}")
            else:
                picks.append(ast.unparse(s))
    F['picks'] = sorted(picks)
    inv = [n for n in ast.walk(fn) if isinstance(n, ast.UnaryOp) and isinstance(n.op, ast.Invert) and 'isin(' in ast.unparse(n.operand) and 'tn_to_preserve' in ast.unparse(n.operand)]
    F['inverseIsComplement'] = len(inv) == 1
    F['inverseGuard'] = any(isinstance(n, ast.If) and ast.unparse(n.test) == 'not inverse' for n in ast.walk(fn))
    ends = [n for n in ast.walk(fn) if isinstance(n, ast.Call) and isinstance(n.func, ast.Attribute) and n.func.attr == 'isin' and 'type' in ast.unparse(n.func.value)]
    F['endTypes'] = sorted(ast.literal_eval(_one(ends, 'longest_neurite: end-node types').args[0]))
    unreach = [n for n in ast.walk(fn) if isinstance(n, ast.Assign) and isinstance(n.targets[0], ast.Subscript) and 'inf' in ast.unparse(n.targets[0]) and _const(n.value) is not None]
    F['unreachable'] = _const(_one(unreach, 'longest_neurite: unreachable pairs').value)
    F['usesMax'] = len([c for c in _calls(fn, 'max')]) >= 1
    # `dists = geodesic_matrix(x, from_=leafs).loc[<rows>, <cols>]` (rows and columns in the same order) — or `[...][<cols>]`
    gmc = _one(_calls(fn, 'geodesic_matrix'), 'longest_neurite: geodesic_matrix call')
    idx = None
    for n in ast.walk(fn):
        if isinstance(n, ast.Subscript) and any(c is gmc for c in ast.walk(n.value)):
            sl = n.slice
            viaLoc = isinstance(n.value, ast.Attribute) and n.value.attr == 'loc'
            idx = (['loc'] if viaLoc else ['cols']) + ([ast.unparse(e) for e in sl.elts] if isinstance(sl, ast.Tuple) else [ast.unparse(sl)])
    if idx is None:
        raise ValueError('longest_neurite: the distance matrix is not indexed')
    F['distIndex'] = idx
    rr = [ast.unparse(c.args[0]) for c in _calls(fn, 'reroot')]
    F['rerootTargets'] = sorted(rr)
    soma = [n for n in ast.walk(fn) if isinstance(n, ast.If) and 'reroot_soma' in ast.unparse(n.test) and isinstance(n.test, ast.BoolOp)]
    F['rerootGuard'] = sorted(ast.unparse(v) for v in _one(soma, 'longest_neurite: reroot_soma guard').test.values)

    gm = _func(tree, 'geodesic_matrix')
    lim = [n for n in ast.walk(gm) if isinstance(n, ast.Assign) and isinstance(n.targets[0], ast.Subscript)
           and isinstance(n.targets[0].slice, ast.Compare) and ast.unparse(n.targets[0].slice.comparators[0]) == 'limit']
    t = _one(lim, 'geodesic_matrix: fastcore limit')
    F['limitCmp'], F['limitValue'] = _op(t.targets[0].slice.ops[0]), ast.unparse(t.value)
    dj = [c for c in _calls(gm, 'dijkstra') if _kw(c, 'limit') is not None]
    F['limitForwarded'] = ast.unparse(_kw(_one(dj, 'geodesic_matrix: dijkstra call'), 'limit'))
    return F


# ------------------------------------------------------------------------------------------------ TreeNeuron methods
METHODS = ['prune_by_strahler', 'prune_twigs', 'prune_at_depth', 'prune_by_longest_neurite', 'cell_body_fiber', 'prune_by_volume']


def method_facts(tree):
    out = []
    for m in METHODS:
        fn = _func(tree, m, 'TreeNeuron')
        params = [a.arg for a in fn.args.args if a.arg not in ('self', 'inplace')]
        calls = [c for c in ast.walk(fn) if isinstance(c, ast.Call) and isinstance(c.func, ast.Attribute) and isinstance(c.func.value, ast.Name)
                 and c.func.value.id in ('morpho', 'graph', 'intersection')]
        c = _one(calls, f'TreeNeuron.{m}: base function call')
        used = sorted({n.id for a in list(c.args[1:]) + [k.value for k in c.keywords] for n in ast.walk(a) if isinstance(n, ast.Name)} & set(params))
        fixed = sorted(f'{k.arg}={ast.unparse(k.value)}' for k in c.keywords if isinstance(k.value, ast.Constant))
        out.append((m, c.func.attr, params, used, fixed))
    return out


# ------------------------------------------------------------------------------------------------ emit
def lstr(s):
    return '"' + str(s).replace('\\', '\\\\').replace('"', '\\"') + '"'


def lstrs(l):
    return '[' + ', '.join(lstr(x) for x in l) + ']'


def lbool(b):
    return 'true' if b else 'false'


def lint(i):
    i = int(i)
    return f'({i})' if i < 0 else str(i)


def ldefaults(d):
    return '[' + ', '.join(f'({lstr(k)}, {lstr(v)})' for k, v in sorted(d.items())) + ']'


def generate(repo: Path):
    man = ast.parse((repo / 'navis' / 'morpho' / 'manipulation.py').read_text())
    gu = ast.parse((repo / 'navis' / 'graph' / 'graph_utils.py').read_text())
    sk = ast.parse((repo / 'navis' / 'core' / 'skeleton.py').read_text())
    T, S, D, L_, M = twigs_facts(man), strahler_facts(man), depth_facts(man), longest_facts(gu), method_facts(sk)
    other = {}
    for name in ('cell_body_fiber', 'drop_fluff'):
        other[name] = _decorators(_func(man, name))

    L = []
    L.append('/- GENERATED by translator/gen_prune.py from navis/morpho/manipulation.py, navis/graph/graph_utils.py,\n'
             '   navis/core/skeleton.py.  Do not edit: regenerated from the current source tree on every `./check C12`. -/')
    L.append('namespace Navis.Gen.Prune\n')
    L.append('/-! ### `prune_twigs` / `_prune_twigs_simple` -/')
    L.append(f'def twigsDefaults : List (String × String) := {ldefaults(T["defaults"])}')
    L.append(f'def twigsDecorators : List String := {lstrs(T["decorators"])}')
    L.append('/-- `size = x.map_units(size, …)` -/')
    L.append(f'def twigsMapsUnits : Bool := {lbool(T["mapsUnits"])}')
    L.append('/-- callee and forwarded keywords when `exact` is false / true -/')
    L.append(f'def inexactCallee : String := {lstr(T["inexactCallee"])}')
    L.append(f'def inexactArgs : List String := {lstrs(T["inexactArgs"])}')
    L.append(f'def exactCallee : String := {lstr(T["exactCallee"])}')
    L.append(f'def exactArgs : List String := {lstrs(T["exactArgs"])}')
    L.append('/-- `if isinstance(recursive, bool) and recursive: recursive = float("inf")` -/')
    L.append(f'def recTrueIsInf : Bool := {lbool(T["recTrueIsInf"])}')
    L.append('/-- `seg_lengths <cmp> <rhs>` -/')
    L.append(f'def twigLenCmp : String := {lstr(T["lenCmp"])}')
    L.append(f'def twigLenRhs : String := {lstr(T["lenRhs"])}')
    L.append('/-- `n_childs.values <cmp> <k>` -/')
    L.append(f'def twigForkCmp : String := {lstr(T["forkCmp"])}')
    L.append(f'def twigForkK : Nat := {int(T["forkK"])}')
    L.append('/-- `s[i] in leafs`, `s[j] in forks`, `s[k] in mask_nodes`, `for n in s[:-d]` -/')
    L.append(f'def twigLeafPos : Int := {lint(T["leafPos"])}')
    L.append(f'def twigForkPos : Int := {lint(T["forkPos"])}')
    L.append(f'def twigMaskPos : Int := {lint(T["maskPos"])}')
    L.append(f'def twigDropTail : Nat := {int(T["dropTail"])}')
    L.append('/-- the guarded recursive calls: `recursive - <k>`, `mask=…`, `inplace=…`, `size=…` -/')
    L.append(f'def recDecrement : Int := {lint(T["recDecrement"])}')
    L.append(f'def recMask : String := {lstr(T["recMask"])}')
    L.append(f'def recInplace : String := {lstr(T["recInplace"])}')
    L.append(f'def recSize : String := {lstr(T["recSize"])}')
    L.append('/-- navis-fastcore: `threshold=<…>`, the mask is `node_id.isin(mask_nodes)`; boolean masks index `node_id.values` -/')
    L.append(f'def fcThreshold : String := {lstr(T["fcThreshold"])}')
    L.append(f'def fcMaskUsesIsin : Bool := {lbool(T["fcMaskUsesIsin"])}')
    L.append(f'def boolMaskIndexesNodeIds : Bool := {lbool(T["boolMaskIndexes"])}\n')
    L.append('/-! ### `_prune_twigs_precise` -/')
    L.append('/-- `if size <cmp> 0: raise` -/')
    L.append(f'def exactSizeCmp : String := {lstr(T["exactSizeCmp"])}')
    L.append(f'def exactCutoff : String := {lstr(T["exactCutoff"])}')
    L.append(f'def exactWeight : String := {lstr(T["exactWeight"])}')
    L.append(f'def exactReversed : Bool := {lbool(T["exactReversed"])}')
    L.append('/-- with a mask: `g = g.subgraph(mask_nodes)` before the Dijkstra run -/')
    L.append(f'def exactMaskSubgraph : Bool := {lbool(T["exactMaskSubgraph"])}')
    L.append('/-- `nodes.loc[~nodes.<col>.isin(in_range)]` -/')
    L.append(f'def exactKeepColumn : String := {lstr(T["exactKeepColumn"])}')
    L.append('/-- `max_len = [<agg>([path_len[l1][l2] …]) …]`; `len_to_prune = <left> <op> max_len` -/')
    L.append(f'def exactAggregate : String := {lstr(T["exactAggregate"])}')
    L.append(f'def exactRemainderOp : String := {lstr(T["exactRemainder"][0])}')
    L.append(f'def exactRemainderLeft : String := {lstr(T["exactRemainder"][1])}')
    L.append(f'def exactRemainderUsesMaxLen : Bool := {lbool(T["exactRemainder"][2])}')
    L.append('/-- `to_remove = vec_len <cmp> <rhs>` -/')
    L.append(f'def exactRemoveCmp : String := {lstr(T["exactRemoveCmp"])}')
    L.append(f'def exactRemoveRhs : String := {lstr(T["exactRemoveRhs"])}')
    L.append('/-- `vec = loc1 - loc2`, `new_loc = loc1 - vec_norm * len_to_prune` as (op, left, right) -/')
    L.append('def exactMove : List (String × String × String) := [' + ', '.join(f'({lstr(a)}, {lstr(b)}, {lstr(c)})' for a, b, c in T['exactMove']) + ']\n')
    L.append('/-! ### `prune_by_strahler` (the working copy is normalised to `W`) -/')
    L.append(f'def siDefaults : List (String × String) := {ldefaults(S["defaults"])}')
    L.append(f'def siDecorators : List String := {lstrs(S["decorators"])}')
    L.append(f'def siRerootGuard : List String := {lstrs(S["rerootGuard"])}')
    L.append(f'def siRerootTarget : String := {lstr(S["rerootTarget"])}')
    L.append(f'def siRerootInplace : Bool := {lbool(S["rerootInplace"])}')
    L.append('/-- disjuncts of the test under which `strahler_index(W)` is (re)computed -/')
    L.append(f'def siColumnGuard : List String := {lstrs(S["columnGuard"])}')
    L.append('/-- `to_prune <cmp> <rhs>` → `range(<lo>, int(max + (to_prune + <add>)))` -/')
    L.append(f'def siNegCmp : String := {lstr(S["negCmp"])}')
    L.append(f'def siNegRhs : Int := {lint(S["negRhs"])}')
    L.append(f'def siNegLo : Int := {lint(S["negLo"])}')
    L.append(f'def siNegAdd : Int := {lint(S["negAdd"])}')
    L.append('/-- `if to_prune <cmp> <k>: raise` -/')
    L.append(f'def siPosCmp : String := {lstr(S["posCmp"])}')
    L.append(f'def siPosK : Int := {lint(S["posK"])}')
    L.append('/-- `SI_range = range(<lo>, int(max + <add>))`, `list(SI_range)[to_prune]`, `list(range)` -/')
    L.append(f'def siSliceLo : Int := {lint(S["sliceLo"])}')
    L.append(f'def siSliceAdd : Int := {lint(S["sliceAdd"])}')
    L.append(f'def siSliceIndexesList : Bool := {lbool(S["sliceIndexesList"])}')
    L.append(f'def siRangeToList : Bool := {lbool(S["rangeToList"])}')
    L.append('/-- rows kept: `~W._nodes.<col>.isin(to_prune)` -/')
    L.append(f'def siFilterColumn : String := {lstr(S["filterColumn"])}')
    L.append('/-- relocation: `parent_dict = {tn.<key>: tn.<value> for tn in <table>.itertuples()}` -/')
    L.append(f'def relocKey : String := {lstr(S["relocKey"])}')
    L.append(f'def relocValue : String := {lstr(S["relocValue"])}')
    L.append(f'def relocParentsFromWorkingCopy : Bool := {lbool(S["relocParentsFromWorkingCopy"])}')
    L.append(f'def relocParentsAfterReroot : Bool := {lbool(S["relocParentsAfterReroot"])}')
    L.append(f'def relocStart : String := {lstr(S["relocStart"])}')
    L.append(f'def relocWhile : List String := {lstrs(S["relocWhile"])}')
    L.append(f'def relocStep : List String := {lstrs(S["relocStep"])}')
    L.append(f'def relocAssigns : Bool := {lbool(S["relocAssign"])}')
    L.append('/-- connector filters `W._connectors[W._connectors.<col>.isin(W._nodes.node_id.values)]` (one per branch) -/')
    L.append(f'def connFilters : Nat := {int(S["connFilters"])}')
    L.append(f'def connFilterColumn : String := {lstr(S["connFilterColumn"])}')
    L.append(f'def orphanParent : Int := {lint(S["orphanParent"])}\n')
    L.append('/-! ### `prune_at_depth` -/')
    L.append(f'def depthDefaults : List (String × String) := {ldefaults(D["defaults"])}')
    L.append(f'def depthDecorators : List String := {lstrs(D["decorators"])}')
    L.append(f'def depthMustZip : List String := {lstrs(D["mustZip"])}')
    L.append(f'def depthMapsUnits : Bool := {lbool(D["mapsUnits"])}')
    L.append('/-- `if depth <cmp> <rhs>: raise` -/')
    L.append(f'def depthNegCmp : String := {lstr(D["negCmp"])}')
    L.append(f'def depthNegRhs : Int := {lint(D["negRhs"])}')
    L.append('/-- `source = x.<attr>[<i>]` when `source is None` -/')
    L.append(f'def depthDefaultSource : String := {lstr(D["defaultSource"])}')
    L.append(f'def depthDefaultSourceIndex : Int := {lint(D["defaultSourceIndex"])}')
    L.append(f'def depthAbsentSourceRaises : Bool := {lbool(D["absentSourceRaises"])}')
    L.append(f'def depthGeoArgs : List String := {lstrs(D["geoArgs"])}')
    L.append('/-- `keep = dist.columns[<row> <cmp> np.inf]` -/')
    L.append(f'def depthKeepCmp : String := {lstr(D["keepCmp"])}')
    L.append(f'def depthKeepRow : String := {lstr(D["keepRow"])}\n')
    L.append('/-! ### `longest_neurite`, `geodesic_matrix(limit=)` -/')
    L.append(f'def lnDefaults : List (String × String) := {ldefaults(L_["defaults"])}')
    L.append(f'def lnDecorators : List String := {lstrs(L_["decorators"])}')
    L.append('/-- `n <cmp> <k>` → raise -/')
    L.append(f'def lnBadCmp : String := {lstr(L_["badCmp"])}')
    L.append(f'def lnBadK : Int := {lint(L_["badK"])}')
    L.append(f'def lnSegWeight : String := {lstr(L_["segWeight"])}')
    L.append('/-- subscripts applied to `segments` (slices as `lower:upper:step`) -/')
    L.append(f'def lnPicks : List String := {lstrs(L_["picks"])}')
    L.append(f'def lnInverseIsComplement : Bool := {lbool(L_["inverseIsComplement"])}')
    L.append(f'def lnInverseGuard : Bool := {lbool(L_["inverseGuard"])}')
    L.append(f'def lnEndTypes : List String := {lstrs(L_["endTypes"])}')
    L.append(f'def lnUnreachable : Int := {lint(L_["unreachable"])}')
    L.append(f'def lnUsesMax : Bool := {lbool(L_["usesMax"])}')
    L.append('/-- how the tip-to-tip distance matrix is indexed: `.loc[rows, cols]` or `[cols]` -/')
    L.append(f'def lnDistIndex : List String := {lstrs(L_["distIndex"])}')
    L.append(f'def lnRerootTargets : List String := {lstrs(L_["rerootTargets"])}')
    L.append(f'def lnRerootGuard : List String := {lstrs(L_["rerootGuard"])}')
    L.append('/-- fastcore branch: `dmat[dmat <cmp> limit] = <value>`; scipy branch: `dijkstra(…, limit=<…>)` -/')
    L.append(f'def limitCmp : String := {lstr(L_["limitCmp"])}')
    L.append(f'def limitValue : String := {lstr(L_["limitValue"])}')
    L.append(f'def limitForwarded : String := {lstr(L_["limitForwarded"])}\n')
    L.append('/-! ### `TreeNeuron.prune_*`: (method, base function, parameters besides self/inplace, parameters forwarded, constants passed) -/')
    L.append('def methods : List (String × String × List String × List String × List String) := [')
    L.append(',\n'.join(f'  ({lstr(m)}, {lstr(c)}, {lstrs(p)}, {lstrs(u)}, {lstrs(f)})' for m, c, p, u, f in M) + ']\n')
    L.append('/-! ### decorators of the other pruning entry points -/')
    L.append(f'def cbfDecorators : List String := {lstrs(other["cell_body_fiber"])}')
    L.append(f'def fluffDecorators : List String := {lstrs(other["drop_fluff"])}\n')
    L.append('end Navis.Gen.Prune')
    src = '\n'.join(L) + '\n'
    meta = {'sources': ['navis/morpho/manipulation.py', 'navis/graph/graph_utils.py', 'navis/core/skeleton.py'],
            'facts': {'twigs': {k: (v if isinstance(v, (str, int, bool, list)) else str(v)) for k, v in T.items()},
                      'strahler': {k: (v if isinstance(v, (str, int, bool, list)) else str(v)) for k, v in S.items()},
                      'depth': {k: (v if isinstance(v, (str, int, bool, list)) else str(v)) for k, v in D.items()},
                      'longest': {k: (v if isinstance(v, (str, int, bool, list)) else str(v)) for k, v in L_.items()},
                      'methods': [list(m) for m in M]}}
    return 'Prune.lean', src, meta
