"""C03 translator: the `WritesOwn` premise of the copy-then-operate pattern, re-extracted from the navis source.

For every function / method under `navis/` (sub-packages listed in SKIP_DIRS excluded) that takes an `inplace`
parameter — and for the arithmetic dunders `__mul__/__truediv__/__add__/__sub__` of the neuron classes, which take
`copy` (opposite polarity) — the body is walked with `ast` by a small path-sensitive abstract interpreter:

  state  = (what is known about `inplace` on this path, names that alias the *input* and are not ours to write,
            names that hold a copy (or the result of a delegated call), the events seen on the path)
  events = guard     `x = x.copy()` executed where `inplace` is false or unknown            (any syntactic variant:
                     `if not inplace: x = x.copy()`, `if inplace: x = self / else: x = self.copy()`,
                     `n = self.copy() if not inplace else self`, `if inplace is False: ...`)
           write     a statement that can write to what the subject name holds, on a path where `inplace` is not
                     known to be true: attribute / subscript (aug)assignment or `del` rooted at the name, a call with
                     `inplace=True` (or a table function whose `inplace` defaults to True) on it, `out=` rooted at it,
                     `setattr/delattr`, `__dict__.update`
           writeIn   the same through a name that still aliases the input after a guard re-bound the subject
           delegate  the name is passed on together with `inplace=inplace` (callee must itself be in the table)
           branch    an explicit `if` on `inplace`
           retIn     `return <name>` where the name still holds the *input object* (no copy was bound to it) on a path
                     on which `inplace` is not known to be true: a non-inplace call must hand back a FRESH object
                     (`no_leak` / `inplace_identity` need result ≠ input), e.g. an early "nothing to do" `return x`
                     placed before `if not inplace: x = x.copy()`
           lostDelegate  a nested call `f(x, …, inplace=inplace)` whose RESULT IS DISCARDED (expression statement, or
                     bound to `_`) on a path where `inplace` is not known to be true: with inplace=False the callee
                     copies again and its effect is lost, with inplace=True it is applied — the two end states differ

The trace of the *worst* path (first path whose trace fails `okTrace`, else the longest) is emitted per function as
`Navis.Gen.InplaceSpec.inplaceTraces : List (String × List Ev)`, and `inplaceSpec : List (String × Bool)` is defined
from it by the Lean function `okTrace`.  `Props/C03.all_guarded` proves every entry `true` by `decide` over this
generated table, and `guarded_frame` lifts it to the heap model.  Deleting `if not inplace: x = x.copy()` in one
function (or writing before it) changes its trace and the theorem stops checking.

Nothing is imported or executed."""
import ast
from pathlib import Path

PROPS = ['C03']

SKIP_DIRS = ('interfaces', 'plotting', 'tests', '__pycache__')
ARITH = ('__mul__', '__truediv__', '__add__', '__sub__')
IGNORED_CALLS = ('_clear_temp_attr',)          # cache invalidation, not an observable write
MAX_STATES = 64


# ------------------------------------------------------------------------------------------------
def root_name(node, min_depth=0):
    """Name at the root of an Attribute/Subscript chain (and the chain depth)."""
    d = 0
    while isinstance(node, (ast.Attribute, ast.Subscript, ast.Starred)):
        node = node.value
        d += 1
    if isinstance(node, ast.Name) and d >= min_depth:
        return node.id
    return None


def callee_name(call):
    f = call.func
    if isinstance(f, ast.Attribute):
        return f.attr
    if isinstance(f, ast.Name):
        return f.id
    return None


def flag_test(test, flag, polarity):
    """Does `test` decide the flag?  Returns True / False = value of *inplace* when the test holds, else None.
    polarity = +1 for an `inplace` parameter, -1 for a `copy` parameter."""
    def lit(b):
        return b if polarity > 0 else (not b)
    if isinstance(test, ast.Name) and test.id == flag:
        return lit(True)
    if isinstance(test, ast.UnaryOp) and isinstance(test.op, ast.Not):
        v = flag_test(test.operand, flag, polarity)
        return None if v is None else (not v)
    if isinstance(test, ast.Compare) and len(test.ops) == 1 and isinstance(test.left, ast.Name) \
            and test.left.id == flag and isinstance(test.comparators[0], ast.Constant) \
            and isinstance(test.comparators[0].value, bool):
        c = test.comparators[0].value
        if isinstance(test.ops[0], (ast.Is, ast.Eq)):
            return lit(c)
        if isinstance(test.ops[0], (ast.IsNot, ast.NotEq)):
            return lit(not c)
    if isinstance(test, ast.BoolOp) and isinstance(test.op, ast.And):
        for v in test.values:                      # `if not inplace and …:` — body knows the flag
            r = flag_test(v, flag, polarity)
            if r is not None:
                return ('and', r)
    return None


def isinstance_test(test):
    """`isinstance(name, C)` / `isinstance(name, (C1, C2))` -> (name, [last components of the class expressions])"""
    if isinstance(test, ast.Call) and isinstance(test.func, ast.Name) and test.func.id == 'isinstance' \
            and len(test.args) == 2 and isinstance(test.args[0], ast.Name):
        c = test.args[1]
        while isinstance(c, ast.Tuple) and len(c.elts) == 1 and isinstance(c.elts[0], ast.Tuple):
            c = c.elts[0]
        elts = c.elts if isinstance(c, ast.Tuple) else [c]
        names = []
        for e in elts:
            if isinstance(e, ast.Attribute):
                names.append(e.attr)
            elif isinstance(e, ast.Name):
                names.append(e.id)
            else:
                return None
        return test.args[0].id, names
    return None


class State:
    __slots__ = ('ip', 'tainted', 'owned', 'trace', 'guarded', 'excl')

    def __init__(self, ip, tainted, owned, trace, guarded, excl=frozenset()):
        self.ip, self.tainted, self.owned, self.trace, self.guarded = ip, frozenset(tainted), frozenset(owned), tuple(trace), guarded
        self.excl = frozenset(excl)      # (name, class) pairs known NOT to hold: `isinstance(name, class)` is false

    def key(self):
        t = self.trace
        bad = not no_write_before_guard(t) or 'writeIn' in t or 'retIn' in t or 'lostDelegate' in t
        return (self.ip, self.tainted, self.owned, self.guarded, bad, 'delegate' in t, 'branch' in t, 'guard' in t, self.excl)

    def ev(self, e):
        return State(self.ip, self.tainted, self.owned, self.trace + (e,), self.guarded or e == 'guard', self.excl)

    def with_(self, **kw):
        d = dict(ip=self.ip, tainted=self.tainted, owned=self.owned, trace=self.trace, guarded=self.guarded, excl=self.excl)
        d.update(kw)
        return State(**d)


def no_write_before_guard(t):
    for e in t:
        if e == 'guard':
            return True
        if e == 'write':
            return False
    return True


def ok_trace(t):
    return no_write_before_guard(t) and 'writeIn' not in t and 'retIn' not in t and 'lostDelegate' not in t \
        and any(e in t for e in ('guard', 'delegate', 'branch'))


def dedupe(states):
    seen, out = set(), []
    for s in states:
        k = s.key()
        if k not in seen:
            seen.add(k)
            out.append(s)
    return out[:MAX_STATES]


class Walker:
    def __init__(self, fn, subject, flag, polarity, table_defaults):
        self.fn, self.subject, self.flag, self.polarity = fn, subject, flag, polarity
        self.defaults = table_defaults          # bare function name -> default of its inplace parameter (or None)
        self.finished = []

    # ---------------------------------------------------------------- expressions
    def is_flag(self, node):
        """value of `inplace` the keyword expression passes on: 'flag' | True | False | None(unknown)"""
        if isinstance(node, ast.Name) and node.id == self.flag:
            return 'flag' if self.polarity > 0 else 'notflag'
        if isinstance(node, ast.Constant) and isinstance(node.value, bool):
            return node.value
        if isinstance(node, ast.UnaryOp) and isinstance(node.op, ast.Not) and isinstance(node.operand, ast.Name) \
                and node.operand.id == self.flag:
            return 'notflag' if self.polarity > 0 else 'flag'
        return None

    def call_targets(self, call):
        """names (roots) the call may act on: receiver chain root and positional / keyword argument roots"""
        names = []
        if isinstance(call.func, ast.Attribute):
            r = root_name(call.func.value)
            if r:
                names.append(r)
        for a in call.args:
            r = root_name(a)
            if r:
                names.append(r)
        for k in call.keywords:
            if k.arg not in ('inplace', 'copy', None):
                r = root_name(k.value)
                if r and k.arg in ('out', 'x', 'neuron', 'mesh', 'nl'):
                    names.append(r)
        return names

    def call_effect(self, call):
        """('write'|'delegate'|None, names)"""
        name = callee_name(call)
        if name in IGNORED_CALLS:
            return None, []
        names = self.call_targets(call)
        kw = {k.arg: k.value for k in call.keywords if k.arg}
        if name in ('setattr', 'delattr') and call.args:
            r = root_name(call.args[0])
            return ('write', [r]) if r else (None, [])
        if name == 'update' and isinstance(call.func, ast.Attribute) and isinstance(call.func.value, ast.Attribute) \
                and call.func.value.attr == '__dict__':
            r = root_name(call.func.value.value)
            return ('write', [r]) if r else (None, [])
        if 'out' in kw:
            r = root_name(kw['out'])
            if r:
                return 'write', [r]
        if 'inplace' in kw:
            v = self.is_flag(kw['inplace'])
            if v is True:
                return 'write', names
            if v == 'flag':
                return 'delegate', names
            if v == 'notflag' or v is None:
                return 'write', names           # conservatively: may be in place when we are not
            return None, []
        if 'copy' in kw and name in ARITH:
            v = self.is_flag(kw['copy'])
            if v is False:
                return 'write', names
            if v in ('flag', 'notflag'):
                return ('delegate' if (v == 'flag') == (self.polarity < 0) else 'write'), names
            return None, []
        if name in self.defaults and self.defaults[name] is True:
            return 'write', names               # table function whose `inplace` defaults to True
        return None, []

    # ---------------------------------------------------------------- events
    def emit_write(self, st, name):
        """a write through `name` in state st"""
        if st.ip is True:
            return st
        if name in st.owned:
            return st.ev('write')
        if name in st.tainted:
            return st.ev('writeIn' if st.guarded else 'write')
        return st

    def do_calls(self, st, node, discarded=None):
        """effects of all calls inside an expression / statement (not descending into nested defs);
        `discarded` = the call node whose result the statement throws away"""
        for c in self.iter_calls(node):
            eff, names = self.call_effect(c)
            if eff == 'write':
                for n in names:
                    if n in st.tainted or n in st.owned:
                        st = self.emit_write(st, n)
                        break
            elif eff == 'delegate':
                if any(n in st.tainted or n in st.owned for n in names) and st.ip is not True:
                    known = callee_name(c) in self.defaults
                    if known and c is discarded:
                        st = st.ev('lostDelegate')
                    else:
                        st = st.ev('delegate') if known else self.emit_write(st, [n for n in names if n in st.tainted or n in st.owned][0])
        return st

    def iter_calls(self, node):
        stack = [node]
        out = []
        while stack:
            n = stack.pop()
            if isinstance(n, (ast.FunctionDef, ast.AsyncFunctionDef, ast.Lambda, ast.ClassDef)) and n is not node:
                continue
            if isinstance(n, ast.Call):
                out.append(n)
            stack.extend(ast.iter_child_nodes(n))
        out.sort(key=lambda c: (c.lineno, c.col_offset))
        return out

    # ---------------------------------------------------------------- assignment
    def value_kind(self, st, v):
        """('copy', src) | ('alias', src) | ('delegated', None) | ('fresh', None)"""
        if isinstance(v, ast.Call):
            if isinstance(v.func, ast.Attribute) and v.func.attr in ('copy', '__copy__', '__deepcopy__', 'deepcopy'):
                r = root_name(v.func.value)
                if r and isinstance(v.func.value, ast.Name):
                    return 'copy', r
            if callee_name(v) in ('copy', 'deepcopy') and v.args:
                r = root_name(v.args[0])
                if r and isinstance(v.args[0], ast.Name):
                    return 'copy', r
            eff, names = self.call_effect(v)
            if eff == 'delegate' and any(n in st.tainted or n in st.owned for n in names):
                return 'delegated', None
            return 'fresh', None
        if isinstance(v, (ast.Name, ast.Attribute, ast.Subscript)):
            r = root_name(v)
            if r:
                return 'alias', r
        return 'fresh', None

    def bind(self, st, target, kind, src):
        if not isinstance(target, ast.Name):
            return st
        t = target.id
        tainted, owned = set(st.tainted), set(st.owned)
        tainted.discard(t)
        owned.discard(t)
        if kind == 'copy':
            if src in st.tainted or src in st.owned:
                was_input = src in st.tainted
                owned.add(t)
                st = st.with_(tainted=tainted, owned=owned)
                if st.ip is not True and was_input:
                    st = st.ev('guard')
                return st
        elif kind == 'alias':
            if src in st.tainted:
                tainted.add(t)
            elif src in st.owned:
                owned.add(t)
        elif kind == 'delegated':
            # `x = f(x, inplace=inplace)`: from here on the name holds the callee's result (a copy unless inplace)
            owned.add(t)
            st = st.with_(tainted=tainted, owned=owned)
            return st.ev('guard') if st.ip is not True else st
        if kind not in ('copy', 'delegated'):
            st = st.with_(excl=frozenset(e for e in st.excl if e[0] != t))
        return st.with_(tainted=tainted, owned=owned)

    def assign(self, states, targets, value):
        out = []
        if isinstance(value, ast.IfExp):
            v = flag_test(value.test, self.flag, self.polarity)
            if isinstance(v, bool):
                for st in states:
                    st = self.do_calls(st, value.test)
                    for arm, ipv in ((value.body, v), (value.orelse, not v)):
                        if st.ip is not None and st.ip != ipv:
                            continue
                        s2 = st.with_(ip=ipv)
                        if st.ip is None:
                            s2 = s2.ev('branch')
                        out += self.assign([s2], targets, arm)
                return dedupe(out)
        throwaway = all(isinstance(tg, ast.Name) and tg.id == '_' for tg in targets)
        for st in states:
            kind, src = self.value_kind(st, value)
            # calls inside the value (the copy call itself has no effect)
            if kind != 'copy':
                st = self.do_calls(st, value, discarded=value if throwaway else None)
            if throwaway and kind == 'delegated':
                kind = 'fresh'          # the callee's result is dropped: the name `_` holds nothing we track
            for tg in targets:
                if isinstance(tg, (ast.Tuple, ast.List)):
                    for e in tg.elts:
                        st = self.bind(st, e, 'fresh', None) if isinstance(e, ast.Name) else self.target_write(st, e)
                elif isinstance(tg, ast.Name):
                    st = self.bind(st, tg, kind, src)
                else:
                    st = self.target_write(st, tg)
            out.append(st)
        return dedupe(out)

    def target_write(self, st, tg):
        r = root_name(tg, min_depth=1)
        if r:
            st = self.emit_write(st, r)
        return st

    # ---------------------------------------------------------------- statements
    def walk(self, stmts, states):
        for s in stmts:
            if not states:
                break
            states = self.stmt(s, states)
        return states

    def stmt(self, s, states):
        if isinstance(s, (ast.FunctionDef, ast.AsyncFunctionDef, ast.ClassDef, ast.Import, ast.ImportFrom, ast.Pass,
                          ast.Global, ast.Nonlocal)):
            return states
        if isinstance(s, ast.Return):
            for st in states:
                if s.value is not None:
                    st = self.do_calls(st, s.value)
                    # `return x` where x still IS the input object, on a path where inplace may be False
                    if isinstance(s.value, ast.Name) and s.value.id in st.tainted and s.value.id not in st.owned \
                            and st.ip is not True:
                        st = st.ev('retIn')
                self.finished.append(st)
            return []
        if isinstance(s, ast.Raise):
            return []
        if isinstance(s, (ast.Continue, ast.Break)):
            return states
        if isinstance(s, ast.Assign):
            return self.assign(states, s.targets, s.value)
        if isinstance(s, ast.AnnAssign):
            if s.value is None:
                return states
            return self.assign(states, [s.target], s.value)
        if isinstance(s, ast.AugAssign):
            out = []
            for st in states:
                st = self.do_calls(st, s.value)
                if isinstance(s.target, ast.Name):
                    # `x *= 2` on a neuron name is an in-place dunder call
                    if s.target.id in st.tainted or s.target.id in st.owned:
                        st = self.emit_write(st, s.target.id)
                else:
                    st = self.target_write(st, s.target)
                out.append(st)
            return dedupe(out)
        if isinstance(s, ast.Delete):
            out = []
            for st in states:
                for tg in s.targets:
                    st = self.target_write(st, tg)
                out.append(st)
            return dedupe(out)
        if isinstance(s, ast.Expr):
            return dedupe([self.do_calls(st, s.value, discarded=s.value) for st in states])
        if isinstance(s, ast.If):
            v = flag_test(s.test, self.flag, self.polarity)
            out = []
            if isinstance(v, bool):
                for st in states:
                    for body, ipv in ((s.body, v), (s.orelse, not v)):
                        if st.ip is not None and st.ip != ipv:
                            continue
                        s2 = st.with_(ip=ipv)
                        if st.ip is None:
                            s2 = s2.ev('branch')
                        out += self.walk(body, [s2])
                return dedupe(out)
            if isinstance(v, tuple):       # `if not inplace and cond:` — body knows, else does not
                for st in states:
                    st = self.do_calls(st, s.test)
                    if st.ip is None or st.ip == v[1]:
                        s2 = st.with_(ip=v[1])
                        if st.ip is None:
                            s2 = s2.ev('branch')
                        out += self.walk(s.body, [s2])
                    out += self.walk(s.orelse, [st])
                return dedupe(out)
            pre = [self.do_calls(st, s.test) for st in states]
            inst = isinstance_test(s.test)
            if inst:
                name, classes = inst
                yes = [st for st in pre if not all((name, c) in st.excl for c in classes)]
                no = [st.with_(excl=st.excl | {(name, c) for c in classes}) for st in pre]
                return dedupe(self.walk(s.body, yes) + self.walk(s.orelse, no))
            out = self.walk(s.body, list(pre)) + self.walk(s.orelse, list(pre))
            return dedupe(out)
        if isinstance(s, (ast.For, ast.AsyncFor)):
            pre = []
            for st in states:
                st = self.do_calls(st, s.iter)
                r = root_name(s.iter) if isinstance(s.iter, (ast.Name, ast.Attribute, ast.Subscript)) else None
                if r is None and isinstance(s.iter, ast.Call):
                    # enumerate(x) / zip(x, …) / config.tqdm(x, …)
                    for a in s.iter.args:
                        rr = root_name(a)
                        if rr and (rr in st.tainted or rr in st.owned):
                            r = rr
                            break
                tgs = s.target.elts if isinstance(s.target, (ast.Tuple, ast.List)) else [s.target]
                for tg in tgs:
                    st = self.bind(st, tg, 'alias' if r else 'fresh', r)
                pre.append(st)
            body = self.walk(s.body, list(pre))
            return dedupe(self.walk(s.orelse, dedupe(pre + body)))
        if isinstance(s, ast.While):
            pre = [self.do_calls(st, s.test) for st in states]
            body = self.walk(s.body, list(pre))
            return dedupe(self.walk(s.orelse, dedupe(pre + body)))
        if isinstance(s, (ast.With, ast.AsyncWith)):
            pre = []
            for st in states:
                for it in s.items:
                    st = self.do_calls(st, it.context_expr)
                pre.append(st)
            return self.walk(s.body, pre)
        if isinstance(s, ast.Try) or s.__class__.__name__ == 'TryStar':
            body = self.walk(s.body, list(states))
            hs = []
            for h in s.handlers:
                hs += self.walk(h.body, dedupe(list(states) + body))
            els = self.walk(s.orelse, list(body))
            return self.walk(s.finalbody, dedupe(els + hs)) if s.finalbody else dedupe(els + hs)
        if isinstance(s, ast.Assert):
            return states
        if isinstance(s, ast.Match):
            out = []
            for c in s.cases:
                out += self.walk(c.body, list(states))
            return dedupe(out + list(states))
        return dedupe([self.do_calls(st, s) for st in states])

    def run(self):
        start = State(None, {self.subject}, set(), (), False)
        rest = self.walk(self.fn.body, [start])
        return self.finished + rest


# ------------------------------------------------------------------------------------------------
def iter_functions(tree):
    """(qualname, FunctionDef) for module-level functions, methods and nested functions."""
    def rec(body, prefix):
        for n in body:
            if isinstance(n, (ast.FunctionDef, ast.AsyncFunctionDef)):
                yield prefix + n.name, n
                yield from rec(n.body, prefix + n.name + '.<locals>.')
            elif isinstance(n, ast.ClassDef):
                yield from rec(n.body, prefix + n.name + '.')
            elif isinstance(n, (ast.If, ast.Try)):
                yield from rec(getattr(n, 'body', []), prefix)
                yield from rec(getattr(n, 'orelse', []), prefix)
    yield from rec(tree.body, '')


def params(fn):
    a = fn.args
    pos = [x.arg for x in a.posonlyargs + a.args]
    allp = pos + [x.arg for x in a.kwonlyargs]
    defaults = {}
    for name, d in zip(reversed([x.arg for x in a.posonlyargs + a.args]), reversed(a.defaults)):
        defaults[name] = d
    for x, d in zip(a.kwonlyargs, a.kw_defaults):
        if d is not None:
            defaults[x.arg] = d
    return pos, allp, defaults


def is_overload(fn):
    for d in fn.decorator_list:
        if (isinstance(d, ast.Name) and d.id == 'overload') or (isinstance(d, ast.Attribute) and d.attr == 'overload'):
            return True
    return False


def collect(repo: Path, trees=None):
    base = repo / 'navis'
    found = []
    for p in sorted(base.rglob('*.py')):
        rel = p.relative_to(base).as_posix()
        if any(part in SKIP_DIRS for part in p.relative_to(base).parts):
            continue
        try:
            tree = ast.parse(p.read_text())
        except SyntaxError as e:
            raise ValueError(f'cannot parse {rel}: {e}')
        if trees is not None:
            trees[rel] = tree
        for qn, fn in iter_functions(tree):
            if is_overload(fn):
                continue
            pos, allp, defaults = params(fn)
            if not pos:
                continue
            short = qn.split('.')[-1]
            if 'inplace' in allp:
                flag, pol = 'inplace', +1
            elif short in ARITH and 'copy' in allp and rel.startswith('core/'):
                flag, pol = 'copy', -1
            else:
                continue
            if pos[0] == flag:
                continue
            dflt = defaults.get(flag)
            dv = dflt.value if isinstance(dflt, ast.Constant) and isinstance(dflt.value, bool) else None
            found.append(dict(key=f'{rel}:{qn}', rel=rel, qn=qn, fn=fn, subject=pos[0], flag=flag, pol=pol,
                              default_inplace=(dv if pol > 0 else (None if dv is None else (not dv))), line=fn.lineno))
    return found


def is_private(short):
    return short.startswith('_') and not (short.startswith('__') and short.endswith('__'))


def flag_forwarding_sites(trees, names):
    """For the private helpers `names` (bare names): how does the rest of the package call them?
    name -> sorted list of 'rel:line:<true|false|omitted|forward>'.  `forward` = the caller passes anything but a
    boolean literal for `inplace` (in practice its own `inplace` flag) — only then does the helper's non-inplace
    behaviour become the behaviour of a caller that must return a fresh object."""
    out = {n: [] for n in names}
    for rel, tree in trees.items():
        for node in ast.walk(tree):
            if isinstance(node, ast.Call) and callee_name(node) in out:
                kw = {k.arg: k.value for k in node.keywords if k.arg}
                if 'inplace' not in kw:
                    kind = 'omitted'
                elif isinstance(kw['inplace'], ast.Constant) and isinstance(kw['inplace'].value, bool):
                    kind = 'true' if kw['inplace'].value else 'false'
                else:
                    kind = 'forward'
                out[callee_name(node)].append(f'{rel}:{node.lineno}:{kind}')
    return {k: sorted(v) for k, v in out.items()}


def analyse(repo: Path):
    trees = {}
    found = collect(repo, trees)
    privates = sorted({f['qn'].split('.')[-1] for f in found if is_private(f['qn'].split('.')[-1])})
    sites = flag_forwarding_sites(trees, privates)
    defaults = {}
    for f in found:
        short = f['qn'].split('.')[-1]
        if f['flag'] == 'inplace':
            # a bare name may be defined more than once: "defaults to True" only if all definitions agree
            prev = defaults.get(short, 'unset')
            defaults[short] = f['default_inplace'] if prev in ('unset', f['default_inplace']) else None
    rows = []
    for f in found:
        w = Walker(f['fn'], f['subject'], f['flag'], f['pol'], defaults)
        finals = [s for s in w.run()]
        cand = [s for s in finals if s.ip is not True] or finals
        def violates(t):
            return (not no_write_before_guard(t)) or 'writeIn' in t or 'retIn' in t or 'lostDelegate' in t
        # worst path first: a violating one; else one that shows how the flag is honoured; else the longest
        traces = sorted({s.trace for s in cand}, key=lambda t: (not violates(t), not ok_trace(t), -len(t), t))
        trace = list(traces[0]) if traces else []
        short = f['qn'].split('.')[-1]
        exempt = None
        if 'retIn' in trace and is_private(short) and sites.get(short) \
                and not any(c.endswith(':forward') for c in sites[short]):
            # a private helper that no caller hands its own `inplace` flag to (every call site passes a literal, on an
            # object the caller owns): "a non-inplace call returns a fresh object" is not a public behaviour of it.
            # The requirement comes back the moment a call site forwards the flag.
            exempt = sites[short]
            ok_paths = [t for t in traces if 'retIn' not in t]
            trace = list(ok_paths[0]) if ok_paths else [e for e in trace if e != 'retIn']
        rows.append(dict(key=f['key'], line=f['line'], trace=trace, ok=ok_trace(trace), subject=f['subject'],
                         flag=f['flag'], n_paths=len(finals), retin_exempt=exempt))
    return rows


LEAN_EV = {'guard': '.guard', 'write': '.write', 'writeIn': '.writeIn', 'delegate': '.delegate', 'branch': '.branch',
           'retIn': '.retIn', 'lostDelegate': '.lostDelegate'}


def generate(repo: Path):
    rows = analyse(Path(repo))
    if len(rows) < 20:
        raise ValueError(f'only {len(rows)} functions with an inplace parameter found — source layout changed?')
    lines = [
        '/- GENERATED by translator/gen_inplace.py from every function under navis/ that takes `inplace`',
        '   (and the arithmetic dunders taking `copy`).  Do not edit: regenerated on every `./check C03`. -/',
        'import NavisModel.Model.Heap',
        'namespace Navis.Gen.InplaceSpec',
        'open Navis.Heap',
        '',
        '/-- per function: the event trace of its worst path on which `inplace` is not known to be true -/',
        'def inplaceTraces : List (String × List Ev) := [',
    ]
    body = []
    for r in rows:
        evs = ', '.join(LEAN_EV[e] for e in r['trace'])
        body.append(f'  ("{r["key"]}", [{evs}])')
    lines.append(',\n'.join(body))
    lines += [
        ']',
        '',
        '/-- the checked premise per function: copy guard (or delegation) before the first write -/',
        'def inplaceSpec : List (String × Bool) := inplaceTraces.map fun p => (p.1, okTrace p.2)',
        '',
        'end Navis.Gen.InplaceSpec',
        '',
    ]
    meta = {'functions': len(rows), 'not_ok': [r['key'] for r in rows if not r['ok']],
            'skipped_dirs': list(SKIP_DIRS),
            'private_helpers_never_given_the_callers_flag': {r['key']: r['retin_exempt'] for r in rows if r.get('retin_exempt')},
            'traces': {r['key']: ' '.join(r['trace']) for r in rows}}
    return 'InplaceSpec.lean', '\n'.join(lines), meta


if __name__ == '__main__':
    import sys, json
    rows = analyse(Path(sys.argv[1] if len(sys.argv) > 1 else '/repo'))
    for r in rows:
        print(('OK  ' if r['ok'] else 'BAD '), r['key'], r['line'], r['trace'], r['n_paths'])
    print(len(rows), 'functions;', sum(not r['ok'] for r in rows), 'not ok')
