"""C03 translator, fourth module: the two cooperating sites behind `map_neuronlist(..., parallel=True)`.

`utils.map_neuronlist` rewrites `kwargs["inplace"] = True` for the per-neuron jobs whenever `parallel` is true ("they will be
copied into the child processes anyway").  That is sound only if `NeuronProcessor.__call__` really runs EVERY job of a parallel
call in the worker pool (on pickled copies) — no serial fallback inside, or in front of, the parallel branch.  Extracted with
`ast` (nothing imported or executed):

  from `navis/utils/decorators.py`, function `map_neuronlist`:
    * forcedInplaceWhenParallel   an `if` whose test mentions the name `parallel` and whose body assigns the constant True to
                                  `kwargs["inplace"]`
    * forcedNeedsInplaceParam     that test also requires `"inplace" in sig.parameters`
  from `navis/core/core_utils.py`, `NeuronProcessor.__call__`:
    * parallelReassigned          number of statements that assign to the local `parallel` AFTER it was read from the keyword
                                  arguments (`parallel = kwargs.pop('parallel', self.parallel)`) — a fallback such as
                                  `if parallel and len(self.nl) < 2: parallel = False` shows up here
    * parallelTestIsBare          the branch is `if parallel:` (the bare name, not a conjunction with other conditions)
    * poolInParallelBranch        the branch body maps the jobs through the pool (`pool.imap` / `map` / `imap_unordered` /
                                  `amap` / `uimap` inside `with ProcessingPool(...)`)
    * serialCallsInParallelBranch number of loops / direct calls of the job functions inside the parallel branch
    * picklingDropsGraphs         `TreeNeuron.__getstate__` pops `_graph_nx` and `_igraph` (a worker's copy has no graph views)

Output `lean/NavisModel/Gen/ParSpec.lean` with `forced` and `pooled` (:= no re-assignment ∧ bare test ∧ pool in the branch ∧ no
serial calls in it).  `Props/C03.parallel_premise` proves `forced = false ∨ pooled = true` by `decide`; `parallel_frame` lifts it
to the heap model."""
import ast
from pathlib import Path

PROPS = ['C03']
POOL_METHODS = ('imap', 'map', 'imap_unordered', 'amap', 'uimap', 'starmap')


def find_func(tree, name, cls=None):
    for n in ast.walk(tree):
        if cls is None and isinstance(n, ast.FunctionDef) and n.name == name:
            return n
        if cls is not None and isinstance(n, ast.ClassDef) and n.name == cls:
            for m in n.body:
                if isinstance(m, ast.FunctionDef) and m.name == name:
                    return m
    return None


def mentions(node, name):
    return any(isinstance(n, ast.Name) and n.id == name for n in ast.walk(node))


def analyse(repo: Path):
    base = Path(repo) / 'navis'
    # ---- decorator
    dec = ast.parse((base / 'utils/decorators.py').read_text())
    fn = find_func(dec, 'map_neuronlist')
    if fn is None:
        raise ValueError('utils.map_neuronlist not found')
    forced, needs_param = False, False
    for n in ast.walk(fn):
        if isinstance(n, ast.If) and mentions(n.test, 'parallel'):
            for st in n.body:
                if isinstance(st, ast.Assign) and len(st.targets) == 1 and isinstance(st.targets[0], ast.Subscript) \
                        and isinstance(st.targets[0].value, ast.Name) and st.targets[0].value.id == 'kwargs' \
                        and isinstance(st.targets[0].slice, ast.Constant) and st.targets[0].slice.value == 'inplace' \
                        and isinstance(st.value, ast.Constant) and st.value.value is True:
                    forced = True
                    needs_param = any(isinstance(c, ast.Compare) and isinstance(c.left, ast.Constant) and c.left.value == 'inplace'
                                      and isinstance(c.ops[0], ast.In) for c in ast.walk(n.test))
    # ---- processor
    cu = ast.parse((base / 'core/core_utils.py').read_text())
    call = find_func(cu, '__call__', 'NeuronProcessor')
    if call is None:
        raise ValueError('NeuronProcessor.__call__ not found')
    assigns = []
    for n in ast.walk(call):
        tgs = []
        if isinstance(n, ast.Assign):
            tgs = n.targets
        elif isinstance(n, (ast.AugAssign, ast.AnnAssign)):
            tgs = [n.target]
        elif isinstance(n, ast.NamedExpr):
            tgs = [n.target]
        for t in tgs:
            for e in (t.elts if isinstance(t, (ast.Tuple, ast.List)) else [t]):
                if isinstance(e, ast.Name) and e.id == 'parallel':
                    assigns.append(n.lineno)
    reassigned = max(0, len(assigns) - 1)
    branch, bare = None, False
    for n in ast.walk(call):
        if isinstance(n, ast.If) and mentions(n.test, 'parallel') and any(
                isinstance(c, ast.Call) and isinstance(c.func, ast.Attribute) and c.func.attr in POOL_METHODS for c in ast.walk(n)):
            if branch is None or n.lineno < branch.lineno:
                branch = n
    pool_in, serial = False, 0
    if branch is not None:
        bare = isinstance(branch.test, ast.Name) and branch.test.id == 'parallel'
        for st in branch.body:
            for c in ast.walk(st):
                if isinstance(c, ast.Call) and isinstance(c.func, ast.Attribute) and c.func.attr in POOL_METHODS:
                    pool_in = True
                if isinstance(c, (ast.For, ast.While)):
                    serial += 1
                # a direct call of a job: `f(*a, **k)` with starred arguments, or `_call(…)` / `_try_call(…)` / `wrapper(…)`
                if isinstance(c, ast.Call) and isinstance(c.func, ast.Name) and c.func.id in ('_call', '_try_call', 'wrapper'):
                    serial += 1
    sk = ast.parse((base / 'core/skeleton.py').read_text())
    gs = find_func(sk, '__getstate__', 'TreeNeuron')
    popped = set()
    if gs is not None:
        for c in ast.walk(gs):
            if isinstance(c, ast.Call) and isinstance(c.func, ast.Attribute) and c.func.attr == 'pop' and c.args \
                    and isinstance(c.args[0], ast.Constant):
                popped.add(c.args[0].value)
    return dict(forced=forced, needs_param=needs_param, reassigned=reassigned, bare=bare, pool_in=pool_in, serial=serial,
                drops_graphs={'_graph_nx', '_igraph'} <= popped, assign_lines=assigns,
                branch_line=branch.lineno if branch is not None else None)


def generate(repo: Path):
    r = analyse(repo)
    b = lambda v: 'true' if v else 'false'
    lines = [
        '/- GENERATED by translator/gen_parspec.py from utils.map_neuronlist and NeuronProcessor.__call__.',
        '   Do not edit: regenerated on every `./check C03`. -/',
        'namespace Navis.Gen.ParSpec',
        '',
        '/-- `map_neuronlist`: `if parallel …: kwargs["inplace"] = True` -/',
        f'def forcedInplaceWhenParallel : Bool := {b(r["forced"])}',
        f'def forcedNeedsInplaceParam : Bool := {b(r["needs_param"])}',
        '/-- `NeuronProcessor.__call__`: assignments to `parallel` after it was read from the keyword arguments -/',
        f'def parallelReassigned : Nat := {r["reassigned"]}',
        f'def parallelTestIsBare : Bool := {b(r["bare"])}',
        f'def poolInParallelBranch : Bool := {b(r["pool_in"])}',
        f'def serialCallsInParallelBranch : Nat := {r["serial"]}',
        f'def picklingDropsGraphs : Bool := {b(r["drops_graphs"])}',
        '',
        '/-- the decorator forces `inplace=True` on the jobs of a parallel call -/',
        'def forced : Bool := forcedInplaceWhenParallel',
        '/-- every job of a parallel call runs in the pool (on a pickled copy) -/',
        'def pooled : Bool :=',
        '  parallelReassigned == 0 && parallelTestIsBare && poolInParallelBranch && serialCallsInParallelBranch == 0',
        '',
        'end Navis.Gen.ParSpec',
        '',
    ]
    return 'ParSpec.lean', '\n'.join(lines), {k: v for k, v in r.items()}


if __name__ == '__main__':
    import sys
    print(generate(Path(sys.argv[1] if len(sys.argv) > 1 else '/repo'))[1])
