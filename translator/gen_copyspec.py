"""C03 translator, third module: how deep do the `copy()` methods copy?

Extracted with `ast` from `navis/core/{base,skeleton,mesh,dotprop,voxel,neuronlist}.py` (nothing imported or executed):

  * per neuron class that defines `copy`: the function applied to every attribute in the
    `x.__dict__.update({k: <fn>(v) for k, v in self.__dict__.items() if k not in no_copy})` comprehension (`copy.copy` →
    one level; `copy.deepcopy` / `copy_fn` chosen by the `deepcopy` flag → as written), and the literal `no_copy` list;
  * per class: the attributes that get an EXTRA element-wise copy afterwards — a re-binding of `x.__dict__['<a>']` / `x.<a>`
    to a dict / list comprehension whose element is itself a copy (`copy.copy(v)`, `list(v)`, `v.copy()`, `copy.deepcopy(v)`);
    (also inside a `for attr in ('_segments', '_small_segments'):` loop over literal attribute names); for these a two-level
    container (`tags : dict of lists`, `_segments` / `_small_segments` : list of arrays) is copied two levels deep
    (`CopyMode.deep1`), any two-level attribute without such an extra copy only one level (`CopyMode.shallow`);
  * whether `NeuronList.copy` copies every member (`[n.copy(**kwargs) for n in self.neurons]`).

Output: `lean/NavisModel/Gen/CopySpec.lean`.  `Props/C03.tags_copied_two_levels` / `nested_copied_two_levels` (by `decide` over the
generated table) are the premises of `tags_no_leak` / `nested_no_leak`; they stop checking if the element-wise copy of the tag
lists or of the cached segment arrays is removed from `TreeNeuron.copy`."""
import ast
from pathlib import Path

PROPS = ['C03']

CLASSES = [('core/base.py', 'BaseNeuron'), ('core/skeleton.py', 'TreeNeuron'), ('core/mesh.py', 'MeshNeuron'),
           ('core/dotprop.py', 'Dotprops'), ('core/voxel.py', 'VoxelNeuron')]
TWO_LEVEL = {'TreeNeuron': ['tags', '_segments', '_small_segments']}


def find_method(tree, cls, name):
    for n in tree.body:
        if isinstance(n, ast.ClassDef) and n.name == cls:
            for m in n.body:
                if isinstance(m, ast.FunctionDef) and m.name == name:
                    return m
    return None


def call_name(c):
    f = c.func
    if isinstance(f, ast.Attribute):
        base = f.value.id if isinstance(f.value, ast.Name) else '?'
        return f'{base}.{f.attr}'
    if isinstance(f, ast.Name):
        return f.id
    return '?'


def is_copy_of(expr, var):
    """`copy.copy(var)`, `copy.deepcopy(var)`, `list(var)`, `dict(var)`, `var.copy()`, `np.array(var)`"""
    if not isinstance(expr, ast.Call):
        return False
    n = call_name(expr)
    if n in ('copy.copy', 'copy.deepcopy', 'list', 'dict', 'np.array', 'numpy.array') and expr.args \
            and isinstance(expr.args[0], ast.Name) and expr.args[0].id == var:
        return True
    if isinstance(expr.func, ast.Attribute) and expr.func.attr in ('copy', '__copy__') \
            and isinstance(expr.func.value, ast.Name) and expr.func.value.id == var:
        return True
    return False


def analyse_copy(fn):
    generic, no_copy, deep_attrs = None, [], []
    # `for <name> in ('a', 'b', …):` loops over literal attribute names
    loop_literals = {}
    for node in ast.walk(fn):
        if isinstance(node, ast.For) and isinstance(node.target, ast.Name) and isinstance(node.iter, (ast.Tuple, ast.List)) \
                and all(isinstance(e, ast.Constant) and isinstance(e.value, str) for e in node.iter.elts):
            loop_literals[node.target.id] = [e.value for e in node.iter.elts]
    for node in ast.walk(fn):
        if isinstance(node, ast.Assign) and len(node.targets) == 1 and isinstance(node.targets[0], ast.Name) \
                and node.targets[0].id == 'no_copy':
            try:
                no_copy = [str(v) for v in ast.literal_eval(node.value)]
            except Exception:
                no_copy = ['?']
        # x.__dict__.update({k: FN(v) for k, v in self.__dict__.items() ...})
        if isinstance(node, ast.Call) and isinstance(node.func, ast.Attribute) and node.func.attr == 'update' \
                and node.args and isinstance(node.args[0], ast.DictComp):
            dc = node.args[0]
            if isinstance(dc.value, ast.Call):
                generic = call_name(dc.value)
            elif isinstance(dc.value, ast.Name):
                generic = 'alias'                     # the attribute objects themselves are handed over
            elif isinstance(dc.value, ast.IfExp):
                generic = 'conditional'
        # x.__dict__['a'] = {k: copy(v) for k, v in …}   /   x.a = [copy(v) for v in …]
        # also inside `for attr in ('a', 'b'): … x.__dict__[attr] = [copy(v) for v in …]` (loop over literal names)
        if isinstance(node, ast.Assign) and len(node.targets) == 1:
            tg, val = node.targets[0], node.value
            attrs = []
            if isinstance(tg, ast.Subscript) and isinstance(tg.value, ast.Attribute) and tg.value.attr == '__dict__':
                if isinstance(tg.slice, ast.Constant) and isinstance(tg.slice.value, str):
                    attrs = [tg.slice.value]
                elif isinstance(tg.slice, ast.Name):
                    attrs = loop_literals.get(tg.slice.id, [])
            elif isinstance(tg, ast.Attribute) and isinstance(tg.value, ast.Name) and tg.value.id != 'self':
                attrs = [tg.attr]
            if not attrs:
                continue
            if isinstance(val, ast.DictComp) and len(val.generators) == 1:
                t = val.generators[0].target
                var = t.elts[1].id if isinstance(t, ast.Tuple) and len(t.elts) == 2 and isinstance(t.elts[1], ast.Name) else None
                if var and is_copy_of(val.value, var):
                    deep_attrs += attrs
            elif isinstance(val, ast.ListComp) and len(val.generators) == 1 and isinstance(val.generators[0].target, ast.Name):
                if is_copy_of(val.elt, val.generators[0].target.id):
                    deep_attrs += attrs
    return generic, no_copy, sorted(set(deep_attrs))


def analyse(repo: Path):
    base = Path(repo) / 'navis'
    out = []
    for rel, cls in CLASSES:
        tree = ast.parse((base / rel).read_text())
        fn = find_method(tree, cls, 'copy')
        if fn is None:
            continue
        generic, no_copy, deep_attrs = analyse_copy(fn)
        out.append(dict(cls=cls, generic=generic or 'none', no_copy=no_copy, deep=deep_attrs))
    # NeuronList.copy
    tree = ast.parse((base / 'core/neuronlist.py').read_text())
    fn = find_method(tree, 'NeuronList', 'copy')
    members = False
    if fn is not None:
        for node in ast.walk(fn):
            if isinstance(node, ast.ListComp) and isinstance(node.elt, ast.Call) and isinstance(node.elt.func, ast.Attribute) \
                    and node.elt.func.attr == 'copy' and isinstance(node.generators[0].target, ast.Name) \
                    and isinstance(node.elt.func.value, ast.Name) and node.elt.func.value.id == node.generators[0].target.id:
                members = True
    return out, members


def generate(repo: Path):
    rows, members = analyse(repo)
    if not any(r['cls'] == 'TreeNeuron' for r in rows):
        raise ValueError('TreeNeuron.copy not found — source layout changed?')
    nested = []
    for r in rows:
        for a in TWO_LEVEL.get(r['cls'], []):
            two = a in r['deep'] or r['generic'] == 'copy.deepcopy'
            nested.append((r['cls'], a, '.deep1' if two else '.shallow'))
    q = lambda xs: '[' + ', '.join(f'"{x}"' for x in xs) + ']'
    lines = [
        '/- GENERATED by translator/gen_copyspec.py from the `copy()` methods of the neuron classes.',
        '   Do not edit: regenerated on every `./check C03`. -/',
        'import NavisModel.Model.HeapDeep',
        'namespace Navis.Gen.CopySpec',
        'open Navis.HeapDeep',
        '',
        '/-- (class, function applied to every attribute by `copy()`, `no_copy` list, attributes copied element-wise on top) -/',
        'def copyMethods : List (String × String × List String × List String) := [',
        ',\n'.join(f'  ("{r["cls"]}", "{r["generic"]}", {q(r["no_copy"])}, {q(r["deep"])})' for r in rows),
        ']',
        '',
        '/-- how deep the two-level attributes are copied -/',
        'def nestedMode : List (String × String × CopyMode) := [',
        ',\n'.join(f'  ("{c}", "{a}", {m})' for c, a, m in nested),
        ']',
        '',
        '/-- `NeuronList.copy` copies every member neuron -/',
        f'def listCopiesMembers : Bool := {"true" if members else "false"}',
        '',
        'end Navis.Gen.CopySpec',
        '',
    ]
    meta = {'classes': {r['cls']: dict(generic=r['generic'], no_copy=r['no_copy'], deep=r['deep']) for r in rows},
            'nested': [list(n) for n in nested], 'list_copies_members': members}
    return 'CopySpec.lean', '\n'.join(lines), meta


if __name__ == '__main__':
    import sys
    print(generate(Path(sys.argv[1] if len(sys.argv) > 1 else '/repo'))[1])
