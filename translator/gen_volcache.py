"""C18 translator: the facts about the ray-casting structure cached on a `navis.Volume`, re-extracted from the
navis source with `ast` (nothing is imported or executed) and written as a `Navis.VolCache.Spec` value
(lean/NavisModel/Gen/VolCache.lean).

Extracted
  * the back-end dispatch of `navis.intersection.intersect.in_volume`: every `b == '<name>'` test of the loop over
    `backend` together with the function its branch returns (`in_volume_ncoll`, `in_volume_pyoc`, `in_volume_convex`);
  * for each of those functions (searched in navis/intersection/*.py): the plain attributes it *stores on the volume
    argument* (`volume.<a> = …`, `setattr(volume, '<a>', …)`, `volume.__dict__['<a>'] = …`) — i.e. the acceleration
    structure kept on the Volume object between calls; whether the `if` guarding that store mentions `n_rays` (re-use
    only for the same ray count); and whether the guard (through the local names it uses) looks at the *current mesh*
    (`volume.vertices`, `.faces`, `hash(volume)`, `.identifier_hash`, `._data`, `.crc()`, …) — such a cache is keyed by
    the geometry and is not an unconditional re-use (reported separately as `keyedAttrs`);
  * for `navis.core.volumes.Volume`: every method / property setter that writes the mesh of `self` in place
    (`self.vertices = …`, `v.vertices = …` with `v = self` on some path, `out=self.vertices`, or an override of one of the
    inherited trimesh mutators listed in INHERITED) and the attributes it deletes (`delattr(v, '<a>')`, also through
    `for attr in ('<a>', …)`, `del v.<a>`, `v.__dict__.pop('<a>')`);
  * the inherited `trimesh.Trimesh` mutators that `Volume` does not override (fixed list INHERITED — trimesh is external)
    delete nothing; `vertices[in-place-array-op]` (`vol.vertices *= k`, `np.multiply(vol.vertices, k, out=vol.vertices)`)
    is not a method and therefore can never delete anything;
  * what `Volume.__getstate__` drops by name.

A semantic change (a new attribute cached on the volume, a mutator that stops deleting one) changes the generated `spec`
and `Props/C18.ncollpyde_scipy_cache_covered` / `…_answers_current` stop checking.  Renaming locals, re-ordering
independent statements, comments and log lines change nothing."""
import ast
from pathlib import Path

PROPS = ['C18']

INHERITED = ['apply_transform', 'apply_translation', 'apply_scale', 'apply_obb', 'rezero', 'vertices.setter',
             'faces.setter', 'update_vertices', 'update_faces', 'merge_vertices', 'invert']
ARRAY_OP = 'vertices[in-place-array-op]'
GEOM_ATTRS = {'vertices', 'faces', 'triangles', 'identifier', 'identifier_hash', '_data', '__hash__', 'crc', 'md5',
              'hash', 'fast_hash', 'bounds'}


def _parse(p):
    return ast.parse(Path(p).read_text())


def _parents(tree):
    par = {}
    for n in ast.walk(tree):
        for c in ast.iter_child_nodes(n):
            par[c] = n
    return par


def _names(node):
    return {n.id for n in ast.walk(node) if isinstance(n, ast.Name)}


# ------------------------------------------------------------------------------------------------
def dispatch(repo):
    """[(backend name, function name)] from the loop over `backend` in intersect.in_volume."""
    tree = _parse(repo / 'navis' / 'intersection' / 'intersect.py')
    fn = next(n for n in tree.body if isinstance(n, ast.FunctionDef) and n.name == 'in_volume'
              and not any(getattr(d, 'id', None) == 'overload' for d in n.decorator_list))
    out = []
    for node in ast.walk(fn):
        if not isinstance(node, ast.If):
            continue
        lits = [c.comparators[0].value for c in ast.walk(node.test)
                if isinstance(c, ast.Compare) and len(c.ops) == 1 and isinstance(c.ops[0], ast.Eq)
                and isinstance(c.comparators[0], ast.Constant) and isinstance(c.comparators[0].value, str)
                and isinstance(c.left, ast.Name)]
        rets = [s.value.func.id for s in node.body
                if isinstance(s, ast.Return) and isinstance(s.value, ast.Call) and isinstance(s.value.func, ast.Name)
                and s.value.func.id.startswith('in_volume_')]
        if len(lits) == 1 and len(rets) == 1 and (lits[0], rets[0]) not in out:
            out.append((lits[0], rets[0]))
    if not out:
        raise ValueError('back-end dispatch of in_volume not found')
    return out


def find_function(repo, name):
    for p in sorted((repo / 'navis' / 'intersection').glob('*.py')):
        for n in _parse(p).body:
            if isinstance(n, ast.FunctionDef) and n.name == name:
                return n, p.name
    raise ValueError(f'function {name} not found in navis/intersection')


def volume_param(fn):
    args = [a.arg for a in fn.args.posonlyargs + fn.args.args]
    if 'volume' in args:
        return 'volume'
    return args[1]


def stored_attrs(fn):
    """[(attr, raysKeyed, keyed)] for every plain attribute the function stores on its volume argument."""
    vol = volume_param(fn)
    par = _parents(fn)
    assigns = {}           # local name -> [value expressions]
    for n in ast.walk(fn):
        if isinstance(n, ast.Assign):
            for t in n.targets:
                if isinstance(t, ast.Name):
                    assigns.setdefault(t.id, []).append(n.value)
        elif isinstance(n, ast.AnnAssign) and isinstance(n.target, ast.Name) and n.value is not None:
            assigns.setdefault(n.target.id, []).append(n.value)

    def store_sites():
        for n in ast.walk(fn):
            tg = []
            if isinstance(n, ast.Assign):
                tg = n.targets
            elif isinstance(n, (ast.AnnAssign, ast.AugAssign)):
                tg = [n.target]
            for t in tg:
                if isinstance(t, ast.Attribute) and isinstance(t.value, ast.Name) and t.value.id == vol:
                    yield t.attr, n
                if isinstance(t, ast.Subscript) and isinstance(t.value, ast.Attribute) and t.value.attr == '__dict__' \
                        and isinstance(t.value.value, ast.Name) and t.value.value.id == vol \
                        and isinstance(t.slice, ast.Constant) and isinstance(t.slice.value, str):
                    yield t.slice.value, n
            if isinstance(n, ast.Call) and isinstance(n.func, ast.Name) and n.func.id == 'setattr' and len(n.args) >= 2 \
                    and isinstance(n.args[0], ast.Name) and n.args[0].id == vol \
                    and isinstance(n.args[1], ast.Constant) and isinstance(n.args[1].value, str):
                yield n.args[1].value, n

    def is_read(attr):
        for n in ast.walk(fn):
            if isinstance(n, ast.Call) and isinstance(n.func, ast.Name) and n.func.id in ('getattr', 'hasattr') \
                    and len(n.args) >= 2 and isinstance(n.args[0], ast.Name) and n.args[0].id == vol \
                    and isinstance(n.args[1], ast.Constant) and n.args[1].value == attr:
                return True
            if isinstance(n, ast.Attribute) and isinstance(n.ctx, ast.Load) and n.attr == attr \
                    and isinstance(n.value, ast.Name) and n.value.id == vol:
                return True
            if isinstance(n, ast.Constant) and n.value == attr and isinstance(par.get(n), (ast.Subscript, ast.Call)) \
                    and any(isinstance(m, ast.Attribute) and m.attr == '__dict__' for m in ast.walk(par[n])) \
                    and isinstance(getattr(par[n], 'ctx', ast.Load()), ast.Load):
                return True
        return False

    def looks_at_mesh(expr):
        for n in ast.walk(expr):
            if isinstance(n, ast.Attribute) and isinstance(n.value, ast.Name) and n.value.id == vol and n.attr in GEOM_ATTRS:
                return True
            if isinstance(n, ast.Call) and isinstance(n.func, ast.Name) and n.func.id == 'hash' \
                    and any(isinstance(a, ast.Name) and a.id == vol for a in n.args):
                return True
        return False

    out = []
    for attr, site in store_sites():
        if attr in GEOM_ATTRS:
            continue
        if not is_read(attr):
            continue            # written but never looked up again: not a cache
        tests, n = [], site
        while n in par:
            n = par[n]
            if isinstance(n, (ast.If, ast.While)):
                tests.append(n.test)
        # what the guard depends on: the local names it uses, through the assignments made BEFORE the guard (the
        # rebuild inside the guarded block necessarily reads the mesh and says nothing about the re-use decision)
        first = min([t.lineno for t in tests], default=0)
        names, todo, exprs = set(), [], list(tests)
        for t in tests:
            todo += list(_names(t))
        while todo:
            x = todo.pop()
            if x in names:
                continue
            names.add(x)
            for e in assigns.get(x, []):
                if e.lineno < first:
                    exprs.append(e)
                    todo += list(_names(e))
        rays_keyed = any('n_rays' in _names(t) for t in tests)
        keyed = any(looks_at_mesh(e) for e in exprs)
        if not any(a == attr for a, _, _ in out):
            out.append((attr, rays_keyed, keyed))
    return out


# ------------------------------------------------------------------------------------------------
def _str_consts_of(arg, fn_parents, node):
    """String constants an argument can take: a literal, or a loop variable over a literal tuple / list."""
    if isinstance(arg, ast.Constant) and isinstance(arg.value, str):
        return [arg.value]
    if isinstance(arg, ast.Name):
        n = node
        while n in fn_parents:
            n = fn_parents[n]
            if isinstance(n, ast.For) and isinstance(n.target, ast.Name) and n.target.id == arg.id \
                    and isinstance(n.iter, (ast.Tuple, ast.List)):
                return [e.value for e in n.iter.elts if isinstance(e, ast.Constant) and isinstance(e.value, str)]
    return []


def volume_mutators(repo):
    tree = _parse(repo / 'navis' / 'core' / 'volumes.py')
    cls = next(n for n in tree.body if isinstance(n, ast.ClassDef) and n.name == 'Volume')
    rows, getstate_drops = [], []
    for fn in cls.body:
        if not isinstance(fn, ast.FunctionDef):
            continue
        name = fn.name
        for d in fn.decorator_list:
            if isinstance(d, ast.Attribute) and d.attr == 'setter':
                name = f'{fn.name}.setter'
        if fn.name == '__getstate__':
            for n in ast.walk(fn):
                if isinstance(n, ast.Compare):
                    for c in [n.left] + list(n.comparators):
                        for e in ast.walk(c):
                            if isinstance(e, ast.Constant) and isinstance(e.value, str):
                                getstate_drops.append(e.value)
                if isinstance(n, ast.Call) and isinstance(n.func, ast.Attribute) and n.func.attr == 'pop':
                    getstate_drops += [a.value for a in n.args if isinstance(a, ast.Constant) and isinstance(a.value, str)]
            continue
        par = _parents(fn)
        selfs = {'self'}
        copies = set()
        for n in ast.walk(fn):
            if isinstance(n, ast.Assign) and len(n.targets) == 1 and isinstance(n.targets[0], ast.Name):
                if isinstance(n.value, ast.Name) and n.value.id == 'self':
                    selfs.add(n.targets[0].id)
                if isinstance(n.value, ast.IfExp) and any(isinstance(b, ast.Name) and b.id == 'self' for b in (n.value.body, n.value.orelse)):
                    selfs.add(n.targets[0].id)
        writes = False
        for n in ast.walk(fn):
            tg = []
            if isinstance(n, ast.Assign):
                tg = n.targets
            elif isinstance(n, (ast.AugAssign, ast.AnnAssign)):
                tg = [n.target]
            for t in tg:
                root = t
                while isinstance(root, (ast.Subscript,)):
                    root = root.value
                if isinstance(root, ast.Attribute) and root.attr in ('vertices', 'faces') \
                        and isinstance(root.value, ast.Name) and root.value.id in selfs:
                    writes = True
            if isinstance(n, ast.Call):
                for kw in n.keywords:
                    if kw.arg == 'out' and isinstance(kw.value, ast.Attribute) and kw.value.attr in ('vertices', 'faces') \
                            and isinstance(kw.value.value, ast.Name) and kw.value.value.id in selfs:
                        writes = True
        if not writes and name not in INHERITED:
            continue
        clears = []
        for n in ast.walk(fn):
            if isinstance(n, ast.Call) and isinstance(n.func, ast.Name) and n.func.id == 'delattr' and len(n.args) == 2 \
                    and isinstance(n.args[0], ast.Name) and n.args[0].id in selfs:
                clears += _str_consts_of(n.args[1], par, n)
            if isinstance(n, ast.Delete):
                for t in n.targets:
                    if isinstance(t, ast.Attribute) and isinstance(t.value, ast.Name) and t.value.id in selfs:
                        clears.append(t.attr)
            if isinstance(n, ast.Call) and isinstance(n.func, ast.Attribute) and n.func.attr == 'pop' \
                    and isinstance(n.func.value, ast.Attribute) and n.func.value.attr == '__dict__' \
                    and isinstance(n.func.value.value, ast.Name) and n.func.value.value.id in selfs and n.args:
                clears += _str_consts_of(n.args[0], par, n)
        seen = []
        for c in clears:
            if c not in seen:
                seen.append(c)
        rows.append((name, seen))
    have = {r[0] for r in rows}
    for m in INHERITED:
        if m not in have:
            rows.append((m, []))
    rows.append((ARRAY_OP, []))
    drops = []
    for d in getstate_drops:
        if d not in drops:
            drops.append(d)
    return rows, drops


# ------------------------------------------------------------------------------------------------
def _q(s):
    return '"' + s.replace('\\', '\\\\').replace('"', '\\"') + '"'


def _strs(l):
    return '[' + ', '.join(_q(x) for x in l) + ']'


def generate(repo: Path):
    repo = Path(repo)
    backends, keyed, extra = [], [], []
    for bname, fname in dispatch(repo):
        fn, where = find_function(repo, fname)
        st = stored_attrs(fn)
        unkeyed = [(a, rk) for a, rk, k in st if not k]
        keyed += [(bname, a) for a, rk, k in st if k]
        if len(unkeyed) > 1:
            extra += [(bname, a) for a, _ in unkeyed[1:]]
        backends.append((bname, fname, where, unkeyed[0] if unkeyed else None))
    mutators, drops = volume_mutators(repo)
    L = ['import NavisModel.Model.VolCache',
         '/-! GENERATED by translator/gen_volcache.py from the navis source — do not edit.',
         'Back-end dispatch of `in_volume`, the plain attributes each ray-casting back-end stores on the Volume object, the',
         'in-place mutators of `navis.Volume` (own and inherited) with the attributes they delete, `__getstate__` drops. -/',
         'namespace Navis.Gen.VolCache', 'open Navis.VolCache', '',
         'def spec : Spec :=', '  { backends := [']
    L.append(',\n'.join('      ⟨%s, %s, %s⟩' % (_q(b), ('some ' + _q(u[0])) if u else 'none', 'true' if (u and u[1]) else 'false')
                        for b, f, w, u in backends))
    L.append('    ],')
    L.append('    mutators := [')
    L.append(',\n'.join('      ⟨%s, %s⟩' % (_q(m), _strs(c)) for m, c in mutators))
    L.append('    ],')
    L.append(f'    pickleDrops := {_strs(drops)} }}')
    L.append('')
    L.append('/-- the function implementing each back-end -/')
    L.append('def backendFunctions : List (String × String) := [' + ', '.join(f'({_q(b)}, {_q(f)})' for b, f, w, u in backends) + ']')
    L.append('')
    L.append('/-- (back-end, attribute) pairs whose re-use is guarded by a look at the current mesh (keyed by geometry) -/')
    L.append('def keyedAttrs : List (String × String) := [' + ', '.join(f'({_q(b)}, {_q(a)})' for b, a in keyed) + ']')
    L.append('')
    L.append('/-- further attributes stored unconditionally by a back-end beyond the first (not representable in `Backend.attr`) -/')
    L.append('def extraAttrs : List (String × String) := [' + ', '.join(f'({_q(b)}, {_q(a)})' for b, a in extra) + ']')
    L.append('')
    L.append('end Navis.Gen.VolCache')
    meta = {'source': ['navis/intersection/intersect.py', 'navis/intersection/ray.py', 'navis/intersection/convex.py',
                       'navis/core/volumes.py'],
            'backends': {b: {'function': f, 'file': w, 'cache_attr': (u[0] if u else None), 'rays_keyed': bool(u and u[1])}
                         for b, f, w, u in backends},
            'keyed_attrs': keyed, 'extra_attrs': extra,
            'mutators': {m: c for m, c in mutators}, 'pickle_drops': drops}
    return 'VolCache.lean', '\n'.join(L) + '\n', meta
