"""C15 translator: re-extract the declarative facts of navis' coordinate arithmetic / unit handling from the *current*
source (text walked with `ast`; nothing is imported from navis) and emit them as `lean/NavisModel/Gen/Units.lean`.

Extracted (semantic facts, not fingerprints — renaming a local, re-ordering independent statements, comments, log lines do
not change the output):

* operator table: for `TreeNeuron / MeshNeuron / Dotprops / VoxelNeuron` × `__mul__ / __truediv__ / __add__ / __sub__`
  which data are rewritten with which arithmetic operator (node columns incl. `radius`, vertices, points, offset), what
  happens to the connector columns, how `.units` is rescaled (`n.units = (n.units <op> other).to_compact()`), the vector
  length the skeleton guard demands, whether the 4th component is dropped before the connectors, the object that is
  returned, and the cache handling that ends the operator: receiver and literal `exclude=[…]` of `_clear_temp_attr`,
  `delattr(n, '_tree')` for the KD-tree;
* `TreeNeuron.TEMP_ATTR`;  `BaseNeuron.__imul__ …` forwarding with `copy=False`;
* `BaseNeuron.convert_units`: the factor expression, the in-place operator, the `exclude` of its own clear;
* `to_neuron_space`: what the length is converted to (`.to(<target>)`), what the magnitude is divided by, the rounding call;
  `round_smart`'s default precision; the `on_error` policy literals;
* the `add_units` decorator: the factor expression (`np.power(self.units, power)`: the Quantity, not the bare Unit), its guard,
  and every `@add_units(compact=…, power=…)` site with its literals;
* `VoxelNeuron.volume`: which `units_xyz` axes and which count are multiplied;
* `make_dotprops`: per input-type branch the metadata keys handed to the new Dotprops and whether that happens before the
  first (early) `return`;
* the `units` setter: accepted lengths, spelling substitutions, the template for plain numbers;
* the guard of the final `self.units = units` of `TreeNeuron.__init__` / `MeshNeuron.__init__`;
* every `map_units(...)` call site (enclosing function, argument, `on_error`, whether the result is bound back to the name);
* the public methods of the four neuron classes taking `inplace=` (the operation methods the metadata sweep must cover) and
  which of them re-initialise the object with `x.__init__(…)`.
Anything not found in the expected shape raises: a broken tie is reported, never guessed."""
import ast
from pathlib import Path

PROPS = ['C15']

CLASSES = [('TreeNeuron', 'navis/core/skeleton.py'), ('MeshNeuron', 'navis/core/mesh.py'),
           ('Dotprops', 'navis/core/dotprop.py'), ('VoxelNeuron', 'navis/core/voxel.py')]
OPS = [('__mul__', 'mul'), ('__truediv__', 'div'), ('__add__', 'add'), ('__sub__', 'sub')]
AUG = {ast.Mult: '*', ast.Div: '/', ast.Add: '+', ast.Sub: '-'}
NPF = {'multiply': '*', 'divide': '/', 'add': '+', 'subtract': '-', 'true_divide': '/'}


class Untranslatable(ValueError):
    pass


def _lit(n):
    try:
        return ast.literal_eval(n)
    except Exception:
        return None


def _src(n):
    return ast.unparse(n)


def _class(tree, name):
    for n in tree.body:
        if isinstance(n, ast.ClassDef) and n.name == name:
            return n
    raise Untranslatable(f'class {name} not found')


def _method(cls, name):
    for n in cls.body:
        if isinstance(n, ast.FunctionDef) and n.name == name:
            return n
    return None


def _class_assign(cls, name):
    for n in cls.body:
        if isinstance(n, ast.Assign) and any(isinstance(t, ast.Name) and t.id == name for t in n.targets):
            return _lit(n.value)
    return None


def _s(x):
    return '"' + str(x).replace('\\', '\\\\').replace('"', '\\"') + '"'


def _sl(xs):
    return '[' + ', '.join(_s(x) for x in xs) + ']'


def _b(x):
    return 'true' if x else 'false'


def _table_target(t):
    """`n.nodes[[cols]]`, `n.connectors[[cols]]`, `n.connectors.loc[:, [cols]]` → (obj, table, cols)"""
    if not isinstance(t, ast.Subscript):
        return None
    v = t.value
    sl = t.slice
    if isinstance(v, ast.Attribute) and v.attr == 'loc':
        v = v.value
        if isinstance(sl, ast.Tuple) and len(sl.elts) == 2:
            sl = sl.elts[1]
        else:
            return None
    if isinstance(v, ast.Attribute) and isinstance(v.value, ast.Name):
        cols = _lit(sl)
        if isinstance(cols, list) and all(isinstance(c, str) for c in cols):
            return v.value.id, v.attr, cols
    return None


def extract_operator(cls, cname, mname):
    fn = _method(cls, mname)
    if fn is None:
        raise Untranslatable(f'{cname}.{mname} not found')
    f = dict(cls=cname, coordTarget='', coordCols=[], coordOp='', connOp='', connCols=[], unitsOp='', compact=False,
             clearRecv='', clearExclude=[], dropsKdTree=False, reqLen=0, slices3=False, returns='', copyGuard=False,
             somaRadiusOp='', pads3=False, line=fn.lineno)
    res_name = None
    order = []
    for n in ast.walk(fn):
        # n = self.copy() if copy else self
        if isinstance(n, ast.Assign) and len(n.targets) == 1 and isinstance(n.targets[0], ast.Name) \
                and isinstance(n.value, ast.IfExp) and _src(n.value.body) == 'self.copy()' and _src(n.value.orelse) == 'self' \
                and _src(n.value.test) == 'copy':
            res_name = n.targets[0].id
            f['copyGuard'] = True
    if res_name is None:
        raise Untranslatable(f'{cname}.{mname}: `n = self.copy() if copy else self` not found')
    for n in ast.walk(fn):
        if isinstance(n, ast.AugAssign) and type(n.op) in AUG:
            tt = _table_target(n.target)
            if tt and tt[0] == res_name and _src(n.value) == 'other':
                if tt[1] == 'nodes':
                    if f['coordOp']:
                        raise Untranslatable(f'{cname}.{mname}: node columns rewritten twice')
                    f.update(coordTarget='nodes', coordCols=tt[2], coordOp=AUG[type(n.op)])
                    order.append(('coord', n.lineno))
                elif tt[1] == 'connectors':
                    if f['connOp']:
                        raise Untranslatable(f'{cname}.{mname}: connector columns rewritten twice')
                    f.update(connOp=AUG[type(n.op)], connCols=tt[2])
                    order.append(('conn', n.lineno))
            elif isinstance(n.target, ast.Attribute) and _src(n.target) == f'{res_name}.soma_radius' and _src(n.value) == 'other':
                f['somaRadiusOp'] = AUG[type(n.op)]
        # np.multiply(n.vertices, other, out=n.vertices, ...)
        if isinstance(n, ast.Call) and isinstance(n.func, ast.Attribute) and n.func.attr in NPF \
                and isinstance(n.func.value, ast.Name) and n.func.value.id in ('np', 'numpy') and len(n.args) >= 2:
            a0 = n.args[0]
            out = [k.value for k in n.keywords if k.arg == 'out']
            if isinstance(a0, ast.Attribute) and isinstance(a0.value, ast.Name) and a0.value.id == res_name \
                    and _src(n.args[1]) == 'other' and out and _src(out[0]) == _src(a0):
                if f['coordOp']:
                    raise Untranslatable(f'{cname}.{mname}: coordinates rewritten twice')
                f.update(coordTarget=a0.attr, coordOp=NPF[n.func.attr])
                order.append(('coord', n.lineno))
        # n.offset = n.offset <op> other
        if isinstance(n, ast.Assign) and len(n.targets) == 1 and _src(n.targets[0]) == f'{res_name}.offset' \
                and isinstance(n.value, ast.BinOp) and type(n.value.op) in AUG \
                and _src(n.value.left) == f'{res_name}.offset' and _src(n.value.right) == 'other':
            if f['coordOp']:
                raise Untranslatable(f'{cname}.{mname}: coordinates rewritten twice')
            f.update(coordTarget='offset', coordOp=AUG[type(n.value.op)])
        # n.units = (n.units <op> other).to_compact()
        if isinstance(n, ast.Assign) and len(n.targets) == 1 and _src(n.targets[0]) == f'{res_name}.units':
            v = n.value
            compact = False
            if isinstance(v, ast.Call) and isinstance(v.func, ast.Attribute) and v.func.attr == 'to_compact' and not v.args:
                compact, v = True, v.func.value
            if isinstance(v, ast.BinOp) and type(v.op) in AUG and _src(v.left) == f'{res_name}.units' and _src(v.right) == 'other':
                if f['unitsOp']:
                    raise Untranslatable(f'{cname}.{mname}: units assigned twice')
                f.update(unitsOp=AUG[type(v.op)], compact=compact)
                order.append(('units', n.lineno))
            else:
                raise Untranslatable(f'{cname}.{mname}: unrecognised units update `{_src(n)}`')
        # other = other[:3]
        if isinstance(n, ast.Assign) and len(n.targets) == 1 and _src(n.targets[0]) == 'other' and _src(n.value) == 'other[:3]':
            f['slices3'] = True
            order.append(('slice', n.lineno))
        # if len(other) == 3: other = np.append(other, other[0])   (x/y/z only: the radius is scaled like x)
        if isinstance(n, ast.If) and isinstance(n.test, ast.Compare) and len(n.test.ops) == 1 \
                and isinstance(n.test.ops[0], ast.Eq) and _src(n.test.left) == 'len(other)' and _lit(n.test.comparators[0]) == 3:
            for b in n.body:
                if isinstance(b, ast.Assign) and len(b.targets) == 1 and _src(b.targets[0]) == 'other' \
                        and _src(b.value).replace('numpy.', 'np.') == 'np.append(other, other[0])':
                    f['pads3'] = True
        # elif len(other) != K: raise
        if isinstance(n, ast.If) and isinstance(n.test, ast.Compare) and len(n.test.ops) == 1 \
                and isinstance(n.test.ops[0], ast.NotEq) and _src(n.test.left) == 'len(other)' \
                and any(isinstance(b, ast.Raise) for b in n.body):
            k = _lit(n.test.comparators[0])
            if isinstance(k, int):
                f['reqLen'] = k
        # X._clear_temp_attr(exclude=[…])
        if isinstance(n, ast.Call) and isinstance(n.func, ast.Attribute) and n.func.attr == '_clear_temp_attr':
            excl = []
            for kw in n.keywords:
                if kw.arg == 'exclude':
                    excl = _lit(kw.value)
            if n.args:
                excl = _lit(n.args[0])
            if not (isinstance(excl, list) and all(isinstance(e, str) for e in excl)):
                raise Untranslatable(f'{cname}.{mname}: non-literal exclude')
            if f['clearRecv']:
                raise Untranslatable(f'{cname}.{mname}: several _clear_temp_attr calls')
            f.update(clearRecv=_src(n.func.value), clearExclude=excl)
        # delattr(n, '_tree')
        if isinstance(n, ast.Call) and isinstance(n.func, ast.Name) and n.func.id == 'delattr' and len(n.args) == 2 \
                and _src(n.args[0]) == res_name and _lit(n.args[1]) == '_tree':
            f['dropsKdTree'] = True
        if isinstance(n, ast.Return) and n.value is not None and isinstance(n.value, ast.Name):
            f['returns'] = 'n' if n.value.id == res_name else n.value.id
    if f['clearRecv'] == res_name:
        f['clearRecv'] = 'n'
    if not f['coordOp']:
        raise Untranslatable(f'{cname}.{mname}: no coordinate update found')
    # the 4th component must be dropped after the node columns and before the connectors
    if f['slices3']:
        pos = {k: ln for k, ln in order}
        f['slices3'] = pos.get('coord', 0) < pos.get('slice', 0) < pos.get('conn', 10 ** 9)
    return f


def extract_iops(base_cls):
    out = []
    for m, target in (('__imul__', '__mul__'), ('__itruediv__', '__truediv__'), ('__iadd__', '__add__'), ('__isub__', '__sub__')):
        fn = _method(base_cls, m)
        ok = False
        if fn is not None:
            for n in ast.walk(fn):
                if isinstance(n, ast.Return) and isinstance(n.value, ast.Call) and _src(n.value.func) == f'self.{target}':
                    kws = {k.arg: _lit(k.value) for k in n.value.keywords}
                    ok = _src(n.value.args[0]) == 'other' and kws.get('copy') is False if n.value.args else False
        out.append((m, target, ok))
    return out


def _resolve(expr, env, depth=4):
    """inline simple local aliases (`a = <expr>`) into an expression, textually, on the AST"""
    class T(ast.NodeTransformer):
        def visit_Name(self, node):
            if isinstance(node.ctx, ast.Load) and node.id in env:
                return env[node.id]
            return node
    for _ in range(depth):
        new = T().visit(ast.parse(_src(expr), mode='eval').body)
        if _src(new) == _src(expr):
            break
        expr = new
    return expr


def extract_convert_units(base_cls):
    fn = _method(base_cls, 'convert_units')
    if fn is None:
        raise Untranslatable('BaseNeuron.convert_units not found')
    env, res, factor, op, excl, clear_recv = {}, None, None, '', None, ''
    for n in ast.walk(fn):
        if isinstance(n, ast.Assign) and len(n.targets) == 1 and isinstance(n.targets[0], ast.Name):
            if isinstance(n.value, ast.IfExp) and _src(n.value.body) == 'self.copy()' and _src(n.value.orelse) == 'self':
                res = n.targets[0].id
            else:
                env[n.targets[0].id] = n.value
    for n in ast.walk(fn):
        if isinstance(n, ast.AugAssign) and isinstance(n.target, ast.Name) and n.target.id == res and type(n.op) in AUG:
            op = AUG[type(n.op)]
            factor = _src(_resolve(n.value, env)).replace(f'{res}.', 'n.')
        if isinstance(n, ast.Call) and isinstance(n.func, ast.Attribute) and n.func.attr == '_clear_temp_attr':
            clear_recv = 'n' if _src(n.func.value) == res else _src(n.func.value)
            excl = []
            for kw in n.keywords:
                if kw.arg == 'exclude':
                    excl = _lit(kw.value)
    if res is None or factor is None:
        raise Untranslatable('convert_units: `n = self.copy() if not inplace else self` / `n *= conv` not found')
    inplace_guard = any(isinstance(n, ast.IfExp) and _src(n.test) == 'not inplace' and _src(n.body) == 'self.copy()'
                        for n in ast.walk(fn))
    return dict(op=op, factor=factor, clearRecv=clear_recv, clearExclude=excl if excl is not None else [],
                copyUnlessInplace=inplace_guard)


def extract_to_neuron_space(cu_tree, misc_tree):
    fn = next((n for n in cu_tree.body if isinstance(n, ast.FunctionDef) and n.name == 'to_neuron_space'), None)
    if fn is None:
        raise Untranslatable('to_neuron_space not found')
    env = {}
    to_target = divisor = rounding = None
    for n in ast.walk(fn):
        if isinstance(n, ast.Assign) and len(n.targets) == 1 and isinstance(n.targets[0], ast.Name):
            name = n.targets[0].id
            v = n.value
            # units = units.to(<target>)
            if name == 'units' and isinstance(v, ast.Call) and isinstance(v.func, ast.Attribute) and v.func.attr == 'to' \
                    and _src(v.func.value) == 'units' and len(v.args) == 1:
                to_target = _src(_resolve(v.args[0], env))
            elif name == 'units':
                pass                                    # `units = pint.Quantity(units)`: parsing, not an alias
            else:
                env[name] = v
    for n in ast.walk(fn):
        if isinstance(n, ast.Return) and isinstance(n.value, ast.Call) and _src(n.value.func).endswith('round_smart'):
            rounding = _src(n.value.func).split('.')[-1]
            arg = _resolve(n.value.args[0], env)
            if isinstance(arg, ast.BinOp) and isinstance(arg.op, ast.Div) and _src(arg.left) == 'units.magnitude':
                divisor = _src(arg.right)
    pol = None
    for n in ast.walk(fn):
        if isinstance(n, ast.Call) and _src(n.func).endswith('eval_param') and n.args and _src(n.args[0]) == 'on_error':
            for kw in n.keywords:
                if kw.arg == 'allowed_values':
                    pol = list(_lit(kw.value) or [])
    # guards that return the argument unchanged / raise
    dimless_guard = any(isinstance(n, ast.If) and _src(n.test) == 'neuron.units.dimensionless' for n in ast.walk(fn))
    iso_guard = any(isinstance(n, ast.If) and _src(n.test) == 'not neuron.is_isometric' for n in ast.walk(fn))
    if to_target is None or divisor is None:
        raise Untranslatable('to_neuron_space: `units = units.to(…)` / `round_smart(units.magnitude / …)` not found')
    rs = next((n for n in misc_tree.body if isinstance(n, ast.FunctionDef) and n.name == 'round_smart'), None)
    prec = None
    if rs is not None:
        names = [a.arg for a in rs.args.args]
        defaults = [None] * (len(names) - len(rs.args.defaults)) + [(_lit(d)) for d in rs.args.defaults]
        prec = dict(zip(names, defaults)).get('prec')
    if not isinstance(prec, int):
        raise Untranslatable('round_smart: default `prec` not found')
    return dict(toTarget=to_target, divisor=divisor, rounding=rounding or '', policies=pol or [], dimlessGuard=dimless_guard,
                isoGuard=iso_guard, prec=prec)


def extract_add_units(cu_tree, class_trees):
    """the `add_units(compact, power)` decorator: its defaults, the factor the wrapped value is multiplied with, the guard,
    whether compaction happens under `if compact:`; and every `@add_units(...)` site with its literal arguments"""
    fn = next((n for n in cu_tree.body if isinstance(n, ast.FunctionDef) and n.name == 'add_units'), None)
    if fn is None:
        raise Untranslatable('add_units not found')
    names = [a.arg for a in fn.args.args]
    defaults = dict(zip(names[len(names) - len(fn.args.defaults):], [_lit(d) for d in fn.args.defaults]))
    factor = guard = None
    compact_guarded = False
    for n in ast.walk(fn):
        if isinstance(n, ast.If) and 'config.add_units' in _src(n.test):
            guard = _src(n.test)
            for m in ast.walk(n):
                if isinstance(m, ast.Assign) and len(m.targets) == 1 and _src(m.targets[0]) == 'res' \
                        and isinstance(m.value, ast.BinOp) and isinstance(m.value.op, ast.Mult):
                    l, r_ = _src(m.value.left), _src(m.value.right)
                    if l == 'res':
                        factor = r_
                    elif r_ == 'res':
                        factor = l
                if isinstance(m, ast.If) and _src(m.test) == 'compact':
                    compact_guarded = any(isinstance(b, ast.Assign) and _src(b.value) == 'res.to_compact()' for b in m.body)
    if factor is None or guard is None:
        raise Untranslatable('add_units: `res = res * <factor>` under `if config.add_units …` not found')
    sites = []
    for cname, tree in class_trees:
        cls = _class(tree, cname)
        for n in cls.body:
            if not isinstance(n, ast.FunctionDef):
                continue
            for d in n.decorator_list:
                if isinstance(d, ast.Call) and _src(d.func).split('.')[-1] == 'add_units':
                    kw = dict(defaults)
                    for i, a in enumerate(d.args):
                        kw[names[i]] = _lit(a)
                    for k in d.keywords:
                        kw[k.arg] = _lit(k.value)
                    if not isinstance(kw.get('power'), int) or not isinstance(kw.get('compact'), bool):
                        raise Untranslatable(f'{cname}.{n.name}: non-literal add_units arguments')
                    sites.append((cname, n.name, kw['compact'], kw['power']))
                elif _src(d).split('.')[-1] == 'add_units':
                    sites.append((cname, n.name, defaults.get('compact'), defaults.get('power')))
    return dict(factor=factor, guard=guard, compactGuarded=compact_guarded, sites=sites)


def extract_make_dotprops_meta(cu_tree):
    """per input-type branch of `make_dotprops`: the keys of `properties.update({...})` / `properties[...] = …` and whether the
    update comes before the first `return` of the branch (an early return must not skip it)"""
    fn = next((n for n in cu_tree.body if isinstance(n, ast.FunctionDef) and n.name == 'make_dotprops'), None)
    if fn is None:
        raise Untranslatable('make_dotprops not found')
    out = []

    def branch(test, body):
        t = _src(test)
        if not t.startswith('isinstance(x, core.'):
            return
        cname = t[len('isinstance(x, core.'):].rstrip(')')
        keys, first_upd, first_ret = [], None, None
        for st in body:
            for n in ast.walk(st):
                if isinstance(n, ast.Call) and _src(n.func) == 'properties.update' and n.args and isinstance(n.args[0], ast.Dict):
                    ks = [_lit(k) for k in n.args[0].keys]
                    keys += [k for k in ks if k not in keys]
                    first_upd = n.lineno if first_upd is None else min(first_upd, n.lineno)
                if isinstance(n, ast.Assign) and len(n.targets) == 1 and isinstance(n.targets[0], ast.Subscript) \
                        and _src(n.targets[0].value) == 'properties':
                    k = _lit(n.targets[0].slice)
                    if k not in keys:
                        keys.append(k)
                if isinstance(n, ast.Return):
                    first_ret = n.lineno if first_ret is None else min(first_ret, n.lineno)
        before = first_upd is not None and (first_ret is None or first_upd < first_ret)
        out.append((cname, before, sorted(str(k) for k in keys)))

    for st in fn.body:
        node = st
        while isinstance(node, ast.If):
            branch(node.test, node.body)
            node = node.orelse[0] if len(node.orelse) == 1 and isinstance(node.orelse[0], ast.If) else None
    if not out:
        raise Untranslatable('make_dotprops: no isinstance(x, core.<Class>) branches found')
    return out


def extract_voxel_volume(voxel_tree):
    """`VoxelNeuron.volume`: the axes of `self.units_xyz[i]` multiplied into the volume of one voxel, the count it is multiplied
    with, and whether the value is compacted"""
    cls = _class(voxel_tree, 'VoxelNeuron')
    fn = _method(cls, 'volume')
    if fn is None:
        raise Untranslatable('VoxelNeuron.volume not found')
    env = {}
    for n in ast.walk(fn):
        if isinstance(n, ast.Assign) and len(n.targets) == 1 and isinstance(n.targets[0], ast.Name):
            env[n.targets[0].id] = n.value
    ret = next((n for n in ast.walk(fn) if isinstance(n, ast.Return) and n.value is not None), None)
    if ret is None:
        raise Untranslatable('VoxelNeuron.volume: no return')
    e = ret.value
    compact = False
    if isinstance(e, ast.Call) and isinstance(e.func, ast.Attribute) and e.func.attr == 'to_compact' and not e.args:
        compact, e = True, e.func.value
    e = _resolve(e, env)

    def factors(x):
        if isinstance(x, ast.BinOp) and isinstance(x.op, ast.Mult):
            return factors(x.left) + factors(x.right)
        return [x]
    axes, count = [], []
    for f in factors(e):
        t = _src(f)
        if isinstance(f, ast.Subscript) and _src(f.value) == 'self.units_xyz' and isinstance(_lit(f.slice), int):
            axes.append(_lit(f.slice))
        else:
            count.append(t)
    if len(count) != 1:
        raise Untranslatable(f'VoxelNeuron.volume: unexpected factors {count}')
    return dict(axes=axes, count=count[0], compact=compact)


def extract_units_setter(base_tree):
    cls = _class(base_tree, 'UnitObject')
    fn = None
    for n in cls.body:
        if isinstance(n, ast.FunctionDef) and n.name == 'units' and any(_src(d) == 'units.setter' for d in n.decorator_list):
            fn = n
    if fn is None:
        raise Untranslatable('UnitObject.units setter not found')
    lens, repl, numtpl = None, [], ''
    for n in ast.walk(fn):
        if isinstance(n, ast.Compare) and _src(n.left) == 'len(units)' and len(n.ops) == 1 and isinstance(n.ops[0], ast.NotIn):
            lens = _lit(n.comparators[0])
        if isinstance(n, ast.Assign) and len(n.targets) == 1 and _src(n.targets[0]) == 'v':
            c = n.value
            chain = []
            while isinstance(c, ast.Call) and isinstance(c.func, ast.Attribute) and c.func.attr == 'replace':
                chain.append((_lit(c.args[0]), _lit(c.args[1])))
                c = c.func.value
            if chain and _src(c) == 'v':
                repl = chain[::-1]
        if isinstance(n, ast.JoinedStr):
            parts = []
            for p in n.values:
                parts.append('{}' if isinstance(p, ast.FormattedValue) else str(p.value))
            if 'dimensionless' in ''.join(parts):
                numtpl = ''.join(parts)
    if not isinstance(lens, list):
        raise Untranslatable('units setter: `len(units) not in [...]` not found')
    return dict(lens=lens, repl=repl, numtpl=numtpl)


def extract_init_guard(cls, cname):
    fn = _method(cls, '__init__')
    if fn is None:
        raise Untranslatable(f'{cname}.__init__ not found')
    # find the last top-level statement (or `if`) that assigns self.units = units
    found = None
    for st in fn.body:
        for n in ast.walk(st):
            if isinstance(n, ast.Assign) and len(n.targets) == 1 and _src(n.targets[0]) == 'self.units' and _src(n.value) == 'units':
                found = st
    if found is None:
        return dict(cls=cname, assigns=False, guarded=False, guard='')
    if isinstance(found, ast.If):
        return dict(cls=cname, assigns=True, guarded=True, guard=_src(found.test))
    return dict(cls=cname, assigns=True, guarded=False, guard='')


def extract_map_sites(repo):
    sites = []
    for f in sorted((repo / 'navis').rglob('*.py')):
        rel = f.relative_to(repo).as_posix()
        if '/tests/' in rel:
            continue
        try:
            tree = ast.parse(f.read_text())
        except SyntaxError:
            continue

        def visit(node, fnstack):
            for ch in ast.iter_child_nodes(node):
                st = fnstack + [ch] if isinstance(ch, (ast.FunctionDef, ast.ClassDef)) else fnstack
                if isinstance(ch, ast.Call) and isinstance(ch.func, ast.Attribute) and ch.func.attr == 'map_units' \
                        and st and ch.args:
                    onerr = 'default'
                    for kw in ch.keywords:
                        if kw.arg == 'on_error':
                            onerr = str(_lit(kw.value))
                    sites.append(dict(fn=f"{rel[len('navis/'):-3].replace('/', '.')}.{'.'.join(s.name for s in st)}",
                                      arg=_src(ch.args[0]), recv=_src(ch.func.value), onError=onerr, line=ch.lineno))
                visit(ch, st)
        visit(tree, [])
    # bound back?
    return [s for s in sites if not s['fn'].endswith('BaseNeuron.map_units')]


def extract_inplace_methods(cls, cname):
    out = []
    for n in cls.body:
        if isinstance(n, ast.FunctionDef) and not n.name.startswith('_'):
            if any(d for d in n.decorator_list if _src(d) in ('overload', 'typing.overload')):
                continue
            args = [a.arg for a in n.args.args + n.args.kwonlyargs]
            if 'inplace' in args:
                reinit = any(isinstance(c, ast.Call) and isinstance(c.func, ast.Attribute) and c.func.attr == '__init__'
                             and isinstance(c.func.value, ast.Name) for c in ast.walk(n))
                if not any(m[0] == n.name for m in out):
                    out.append((n.name, reinit))
    return out


def generate(repo: Path):
    repo = Path(repo)
    trees = {}
    for cname, rel in CLASSES:
        trees[cname] = ast.parse((repo / rel).read_text())
    base = ast.parse((repo / 'navis/core/base.py').read_text())
    cu = ast.parse((repo / 'navis/core/core_utils.py').read_text())
    misc = ast.parse((repo / 'navis/utils/misc.py').read_text())

    facts = []
    for cname, _ in CLASSES:
        cls = _class(trees[cname], cname)
        for mname, short in OPS:
            f = extract_operator(cls, cname, mname)
            f['op'] = short
            facts.append(f)
    tree_cls = _class(trees['TreeNeuron'], 'TreeNeuron')
    temp_attr = _class_assign(tree_cls, 'TEMP_ATTR')
    if not isinstance(temp_attr, list):
        raise Untranslatable('TreeNeuron.TEMP_ATTR not a literal list')
    base_cls = _class(base, 'BaseNeuron')
    iops = extract_iops(base_cls)
    conv = extract_convert_units(base_cls)
    tns = extract_to_neuron_space(cu, misc)
    setter = extract_units_setter(base)
    mdp = extract_make_dotprops_meta(cu)
    vvol = extract_voxel_volume(trees['VoxelNeuron'])
    addu = extract_add_units(cu, [(c, trees[c]) for c, _ in CLASSES])
    guards = [extract_init_guard(_class(trees[c], c), c) for c, _ in CLASSES]
    sites = extract_map_sites(repo)
    methods = {c: extract_inplace_methods(_class(trees[c], c), c) for c, _ in CLASSES}

    L = []
    A = L.append
    A('/- GENERATED by translator/gen_units.py from navis/core/{skeleton,mesh,dotprop,voxel,base,core_utils}.py, navis/utils/misc.py')
    A('   and every `map_units` call site under navis/.  Do not edit: regenerated from the current source on every `./check C15`. -/')
    A('namespace Navis.Gen.Units')
    A('')
    A('/-- One arithmetic operator of one neuron class, as written in the source. -/')
    A('structure OpFact where')
    A('  cls : String')
    A('  op : String')
    A('  /-- what holds the coordinates that are rewritten: `nodes` (columns `coordCols`), `vertices`, `points`, `offset` -/')
    A('  coordTarget : String')
    A('  coordCols : List String')
    A('  /-- arithmetic operator applied to the coordinates, to the connector columns (`""` = untouched) -/')
    A('  coordOp : String')
    A('  connOp : String')
    A('  connCols : List String')
    A('  /-- `n.units = (n.units <unitsOp> other)…` (`""` = units untouched); followed by `.to_compact()` -/')
    A('  unitsOp : String')
    A('  compact : Bool')
    A('  /-- receiver (`n` = the returned object) and literal `exclude=[…]` of the final `_clear_temp_attr` (`""` = none) -/')
    A('  clearRecv : String')
    A('  clearExclude : List String')
    A('  dropsKdTree : Bool')
    A('  /-- vector length demanded by the `len(other) != k` guard (0 = no guard: numpy broadcasting decides) -/')
    A('  reqLen : Nat')
    A('  /-- `other = other[:3]` between the node columns and the connectors -/')
    A('  slices3 : Bool')
    A('  returns : String')
    A('  copyGuard : Bool')
    A('  /-- `if len(other) == 3: other = np.append(other, other[0])`: x/y/z operands accepted, the radius scaled like x -/')
    A('  pads3 : Bool')
    A('deriving DecidableEq, Repr')
    A('')
    A('def opFacts : List OpFact := [')
    rows = []
    for f in facts:
        rows.append(f'  ⟨{_s(f["cls"])}, {_s(f["op"])}, {_s(f["coordTarget"])}, {_sl(f["coordCols"])}, {_s(f["coordOp"])}, '
                    f'{_s(f["connOp"])}, {_sl(f["connCols"])}, {_s(f["unitsOp"])}, {_b(f["compact"])}, {_s(f["clearRecv"])}, '
                    f'{_sl(f["clearExclude"])}, {_b(f["dropsKdTree"])}, {f["reqLen"]}, {_b(f["slices3"])}, {_s(f["returns"])}, '
                    f'{_b(f["copyGuard"])}, {_b(f["pads3"])}⟩')
    A(',\n'.join(rows))
    A(']')
    A('')
    A('/-- `TreeNeuron.TEMP_ATTR` -/')
    A(f'def treeTempAttr : List String := {_sl(temp_attr)}')
    A('')
    A('/-- `BaseNeuron.__imul__ …`: (method, operator it forwards to, passes `copy=False`) -/')
    A('def inplaceOps : List (String × String × Bool) := [' + ', '.join(f'({_s(a)}, {_s(b)}, {_b(c)})' for a, b, c in iops) + ']')
    A('')
    A('/-! `BaseNeuron.convert_units` -/')
    A(f'def convertOp : String := {_s(conv["op"])}')
    A(f'def convertFactor : String := {_s(conv["factor"])}')
    A(f'def convertClearRecv : String := {_s(conv["clearRecv"])}')
    A(f'def convertClearExclude : List String := {_sl(conv["clearExclude"])}')
    A(f'def convertCopiesUnlessInplace : Bool := {_b(conv["copyUnlessInplace"])}')
    A('')
    A('/-! `core_utils.to_neuron_space`, `utils.round_smart` -/')
    A(f'def mapToTarget : String := {_s(tns["toTarget"])}')
    A(f'def mapDivisor : String := {_s(tns["divisor"])}')
    A(f'def mapRounding : String := {_s(tns["rounding"])}')
    A(f'def mapPolicies : List String := {_sl(tns["policies"])}')
    A(f'def mapDimlessGuard : Bool := {_b(tns["dimlessGuard"])}')
    A(f'def mapIsoGuard : Bool := {_b(tns["isoGuard"])}')
    A(f'def roundSmartPrec : Nat := {tns["prec"]}')
    A('')
    A('/-! `UnitObject.units` setter -/')
    A(f'def unitsAllowedLens : List Nat := [{", ".join(str(int(v)) for v in setter["lens"])}]')
    A('def unitsSpellingFix : List (String × String) := [' + ', '.join(f'({_s(a)}, {_s(b)})' for a, b in setter['repl']) + ']')
    A(f'def unitsNumberTemplate : String := {_s(setter["numtpl"])}')
    A('')
    A('/-! the `add_units(compact, power)` decorator (`config.add_units = True`) -/')
    A('/-- what the wrapped value is multiplied with -/')
    A(f'def addUnitsFactor : String := {_s(addu["factor"])}')
    A(f'def addUnitsGuard : String := {_s(addu["guard"])}')
    A(f'def addUnitsCompactsWhenAsked : Bool := {_b(addu["compactGuarded"])}')
    A('/-- every decorated property: (class, property, compact, power) -/')
    A('def addUnitsSites : List (String × String × Bool × Nat) := [' +
      ', '.join(f'({_s(c)}, {_s(m)}, {_b(cp)}, {int(pw)})' for c, m, cp, pw in addu['sites']) + ']')
    A('')
    A('/-- `VoxelNeuron.volume`: `<count> * self.units_xyz[i] * …` — the axes `i`, the count expression -/')
    A(f'def voxelVolumeAxes : List Nat := [{", ".join(str(int(a)) for a in vvol["axes"])}]')
    A(f'def voxelVolumeCount : String := {_s(vvol["count"])}')
    A('')
    A('/-- `make_dotprops`, per input-type branch: (class, metadata update precedes the first `return`, keys passed on) -/')
    A('def makeDotpropsMeta : List (String × Bool × List String) := [' +
      ', '.join(f'({_s(c)}, {_b(b)}, {_sl(k)})' for c, b, k in mdp) + ']')
    A('')
    A('/-- last `self.units = units` of `__init__`: (class, present, guarded, guard expression) -/')
    A('def initUnits : List (String × Bool × Bool × String) := [' +
      ', '.join(f'({_s(g["cls"])}, {_b(g["assigns"])}, {_b(g["guarded"])}, {_s(g["guard"])})' for g in guards) + ']')
    A('')
    A('/-- every `<x>.map_units(<arg>, on_error=…)` call site: (function, argument, receiver, on_error) -/')
    A('def mapSites : List (String × String × String × String) := [')
    A(',\n'.join(f'  ({_s(s["fn"])}, {_s(s["arg"])}, {_s(s["recv"])}, {_s(s["onError"])})' for s in sites))
    A(']')
    A('')
    A('/-- public methods taking `inplace=`: (class, method, re-initialises with `x.__init__(…)`) -/')
    A('def inplaceMethods : List (String × String × Bool) := [')
    A(',\n'.join(f'  ({_s(c)}, {_s(m)}, {_b(r)})' for c, _ in CLASSES for m, r in methods[c]))
    A(']')
    A('')
    A('end Navis.Gen.Units')
    meta = dict(source=[rel for _, rel in CLASSES] + ['navis/core/base.py', 'navis/core/core_utils.py', 'navis/utils/misc.py'],
                operators=len(facts), temp_attr=temp_attr, map_sites=[s['fn'] + ':' + s['arg'] for s in sites],
                inplace_methods={c: [m for m, _ in methods[c]] for c in methods},
                add_units_sites=[list(t) for t in addu['sites']],
                tree_excludes={f['op']: f['clearExclude'] for f in facts if f['cls'] == 'TreeNeuron'})
    return 'Units.lean', '\n'.join(L) + '\n', meta
