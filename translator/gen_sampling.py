"""Translator for C13: re-extract the declarative facts of navis' down-/resampling code from the *current* source
(`navis/sampling/downsampling.py`, `navis/sampling/resampling.py`, `navis/core/skeleton.py`; read as text, walked with
`ast`; nothing is imported from navis) and emit them as Lean definitions (`Gen/Sampling.lean`).  `Props/C13.lean` proves
that they are what the Lean model (`Model/Ops.lean:downsample`, `Model/Resample.lean`, `Model/Sampling.lean`) hard-wires,
so that an edit of

* `downsample_neuron`: the guard `downsampling_factor <= 1`, the copy unless `inplace`, the dispatch on the neuron type
  and the arguments forwarded to `_downsample_treeneuron`;
* `_downsample_treeneuron`: the `shape[0] <= 1` early return, the rounding of a finite factor
  (`int(np.floor(factor))`, `inf` left alone, before the walk), which column pair the parent map is built from and its
  sentinel `[-1] = -1`, which node types are fix points (`type != 'slab'`), that preserved nodes are OR-ed in by
  `node_id.isin`, that the soma ids are appended to the fix points and that the container the walk *tests membership
  in* and the container it *starts from* are defined after that append (data flow, not names), the walk itself
  (`new_p >= 0`, `i = 0`, `while i < factor`, the stop test `new_p in <fix> or new_p < 0`, `i += 1`, the step
  `new_p = parents[new_p]`, what is recorded when the scan stops / runs out / starts at a root), which rows are kept and
  where their new parent comes from;
* `resample_skeleton`: defaults and decorator, `map_units(..., on_error='raise')`, the numeric columns, the start of the
  id counter (`int(node_id.max()) + 1`), the collapse test (`dist[-1] < resample_to`, the cubic clause), the node
  count (`np.round(dist[-1] / resample_to)`), `np.linspace(dist[0], dist[-1], int(n))`, `interp1d(dist, …, kind=method)`
  for numeric and `kind='nearest'` for categorical columns, the fresh ids (`max_tn_id + i for i in range(len(new_dist) - 2)`,
  `seg[:1]`, `seg[-1:]`), the counter advance, the rows `zip(new_ids[:-1], new_ids[1:])` and which sample they carry, what a
  collapsed segment contributes, the `skip_errors` fall-back rows (`seg[:-1]`), the root rows, the de-duplication, and
  the re-attachment: the KD-tree is built from the NEW node table after de-duplication, the query positions are read from
  the OLD node table, results index `new_nodes.node_id.values`, the soma / connector / tag blocks are three independent
  top-level `if`s, the node table is assigned after them;
* `TreeNeuron.downsample` / `.resample` / `.simple`: callee and forwarded arguments

makes a theorem stop checking.  Only these facts are extracted (operators, constants, argument names, statement nesting,
def-before-use order): renaming a local, reordering independent statements or adding logging keeps the tie (local names
are resolved by their role — "the dict built from zip(node_id, parent_id)", "the name the walk's for-target is copied to"
…).  Anything that is not found in the expected shape raises (a broken tie is reported, never guessed)."""
import ast
from pathlib import Path

PROPS = ['C13']


# ------------------------------------------------------------------------------------------------ helpers
def _func(tree, name, cls=None):
    body = tree.body
    if cls:
        for n in body:
            if isinstance(n, ast.ClassDef) and n.name == cls:
                body = n.body
                break
        else:
            raise ValueError(f'class {cls} not found')
    hits = [n for n in body if isinstance(n, ast.FunctionDef) and n.name == name]
    if hits:
        return hits[-1]          # `@overload` stubs precede the implementation
    raise ValueError(f'function {cls + "." if cls else ""}{name} not found')


def _defaults(fn):
    a = fn.args
    out = {}
    pos = a.posonlyargs + a.args
    for p, d in zip(pos[len(pos) - len(a.defaults):], a.defaults):
        out[p.arg] = ast.unparse(d)
    for p, d in zip(a.kwonlyargs, a.kw_defaults):
        if d is not None:
            out[p.arg] = ast.unparse(d)
    return out


def _decorators(fn):
    out = []
    for d in fn.decorator_list:
        f = d.func if isinstance(d, ast.Call) else d
        out.append(ast.unparse(f).split('.')[-1])
    return out


def _op(n):
    return type(n).__name__


def _const(n):
    if isinstance(n, ast.Constant):
        return n.value
    if isinstance(n, ast.UnaryOp) and isinstance(n.op, ast.USub) and isinstance(n.operand, ast.Constant):
        return -n.operand.value
    return None


def _names(n):
    return {c.id for c in ast.walk(n) if isinstance(c, ast.Name)}


def _attrs(n):
    return {c.attr for c in ast.walk(n) if isinstance(c, ast.Attribute)}


def _one(lst, what):
    if len(lst) != 1:
        raise ValueError(f'{what}: expected exactly one occurrence, found {len(lst)}')
    return lst[0]


def _walk_stmts(body):
    for st in body:
        yield from ast.walk(st)


def _calls(node, name):
    out = []
    for n in (ast.walk(node) if isinstance(node, ast.AST) else _walk_stmts(node)):
        if isinstance(n, ast.Call):
            f = n.func
            last = f.attr if isinstance(f, ast.Attribute) else (f.id if isinstance(f, ast.Name) else None)
            if last == name:
                out.append(n)
    return out


def _kw(call, name):
    for k in call.keywords:
        if k.arg == name:
            return k.value
    return None


def _raises(body):
    return any(isinstance(s, ast.Raise) for s in _walk_stmts(body))


def _returns(body):
    return any(isinstance(s, ast.Return) for s in _walk_stmts(body))


def _end(n):
    return getattr(n, 'end_lineno', n.lineno)


def _assign_target_names(st):
    """names (re)bound by a statement (plain / augmented assignment)"""
    out = set()
    if isinstance(st, ast.Assign):
        for t in st.targets:
            if isinstance(t, ast.Name):
                out.add(t.id)
    elif isinstance(st, ast.AugAssign) and isinstance(st.target, ast.Name):
        out.add(st.target.id)
    elif isinstance(st, ast.AnnAssign) and isinstance(st.target, ast.Name) and st.value is not None:
        out.add(st.target.id)
    return out


def _slice_str(s):
    """`seg[:1]` -> ':1:'; `seg[0]` -> '0'"""
    if isinstance(s, ast.Slice):
        f = lambda v: '' if v is None else str(_const(v))
        return f'{f(s.lower)}:{f(s.upper)}:{f(s.step)}'
    return str(_const(s))


def lslice(s):
    """':1:' -> Lean `(none, some 1)` (step must be absent); anything else raises"""
    parts = s.split(':')
    if len(parts) != 3 or parts[2] != '':
        raise ValueError(f'expected a step-free slice, found {s!r}')
    f = lambda v: 'none' if v == '' else f'some {lint(int(v))}'
    return f'({f(parts[0])}, {f(parts[1])})'


# ------------------------------------------------------------------------------------------------ downsampling
def downsample_facts(tree):
    F = {}
    dn = _func(tree, 'downsample_neuron')
    F['defaults'] = _defaults(dn)
    F['decorators'] = _decorators(dn)
    params = [a.arg for a in dn.args.args]
    if len(params) < 2:
        raise ValueError('downsample_neuron: expected (x, downsampling_factor, …)')
    fac = params[1]
    g = _one([n for n in ast.walk(dn) if isinstance(n, ast.If) and isinstance(n.test, ast.Compare) and len(n.test.ops) == 1
              and isinstance(n.test.left, ast.Name) and n.test.left.id == fac and _raises(n.body)], 'downsample_neuron: factor guard')
    F['factorGuardCmp'], F['factorGuardK'] = _op(g.test.ops[0]), _const(g.test.comparators[0])
    # copy unless inplace, before any dispatch
    cp = [n for n in dn.body if isinstance(n, ast.If) and isinstance(n.test, ast.UnaryOp) and isinstance(n.test.op, ast.Not)
          and 'inplace' in _names(n.test) and _calls(n.body, 'copy')]
    disp = [n for n in dn.body if isinstance(n, ast.If) and 'isinstance' in ast.unparse(n.test)]
    F['copiesUnlessInplace'] = len(cp) == 1 and bool(disp) and cp[0].lineno < disp[0].lineno
    # dispatch chain: (type, callee)
    chain, node = [], _one(disp, 'downsample_neuron: type dispatch')
    while isinstance(node, ast.If):
        t = node.test
        if not (isinstance(t, ast.Call) and ast.unparse(t.func) == 'isinstance'):
            raise ValueError('downsample_neuron: dispatch test is not isinstance(...)')
        cal = [c for c in _walk_stmts(node.body) if isinstance(c, ast.Call)]
        if not cal:
            raise ValueError('downsample_neuron: dispatch branch without a call')
        chain.append((ast.unparse(t.args[1]).split('.')[-1], ast.unparse(cal[0].func).split('.')[-1],
                      sorted(f'{k.arg}={ast.unparse(k.value)}' for k in cal[0].keywords)))
        node = node.orelse[0] if len(node.orelse) == 1 and isinstance(node.orelse[0], ast.If) else None
    F['dispatch'] = [(a, b) for a, b, _ in chain]
    F['treeArgs'] = next((kws for a, b, kws in chain if a == 'TreeNeuron'), [])
    F['returnsX'] = any(isinstance(s, ast.Return) and isinstance(s.value, ast.Name) and s.value.id == params[0] for s in dn.body)

    fn = _func(tree, '_downsample_treeneuron')
    ps = [a.arg for a in fn.args.args]
    if len(ps) != 3:
        raise ValueError('_downsample_treeneuron: expected (x, downsampling_factor, preserve_nodes)')
    X, FAC, PRES = ps
    # early return on tiny tables
    g = _one([n for n in fn.body if isinstance(n, ast.If) and isinstance(n.test, ast.Compare) and len(n.test.ops) == 1
              and 'shape' in _attrs(n.test.left) and _returns(n.body)], '_downsample_treeneuron: small-table guard')
    F['smallGuardCmp'], F['smallGuardK'] = _op(g.test.ops[0]), _const(g.test.comparators[0])
    F['smallGuardAxis'] = _const(g.test.left.slice) if isinstance(g.test.left, ast.Subscript) else None
    # rounding of the factor before the walk: `if not np.isinf(f): f = int(np.floor(f))`
    F['factorRound'], F['factorRoundSkipsInf'], rnd_line = 'none', False, None
    for st in fn.body:
        guard, asg = None, None
        if isinstance(st, ast.If) and not st.orelse:
            cand_ = [a for a in st.body if isinstance(a, ast.Assign) and isinstance(a.targets[0], ast.Name) and a.targets[0].id == FAC]
            if len(cand_) == 1 and len(st.body) == 1:
                guard, asg = st.test, cand_[0]
        elif isinstance(st, ast.Assign) and isinstance(st.targets[0], ast.Name) and st.targets[0].id == FAC:
            asg = st
        if asg is None:
            continue
        if rnd_line is not None:
            raise ValueError('_downsample_treeneuron: the factor is re-assigned more than once')
        fns = [c.func.attr if isinstance(c.func, ast.Attribute) else getattr(c.func, 'id', '?') for c in ast.walk(asg.value) if isinstance(c, ast.Call)]
        if FAC not in _names(asg.value):
            raise ValueError('_downsample_treeneuron: the factor is overwritten by an unrelated value')
        kinds = [k for k in ('floor', 'ceil', 'round', 'rint', 'trunc') if k in fns]
        F['factorRound'] = kinds[0] if len(kinds) == 1 else ('trunc' if (not kinds and fns == ['int']) else 'other')
        if guard is not None:
            g = ast.unparse(guard).replace(FAC, 'F')
            F['factorRoundSkipsInf'] = g in ('not np.isinf(F)', 'np.isfinite(F)', "F != float('inf')", 'F != np.inf', 'not math.isinf(F)', 'math.isfinite(F)')
        rnd_line = st.lineno
    # parent map: {n: p for n, p in zip(<X>.nodes.<a>.values, <X>.nodes.<b>.values)}
    pm = None
    for st in fn.body:
        if isinstance(st, ast.Assign) and isinstance(st.value, ast.DictComp) and isinstance(st.targets[0], ast.Name):
            z = st.value.generators[0].iter
            if isinstance(z, ast.Call) and ast.unparse(z.func) == 'zip' and len(z.args) == 2:
                cols = [[a for a in ('node_id', 'parent_id') if a in _attrs(arg)] for arg in z.args]
                tgt = st.value.generators[0].target
                if isinstance(tgt, ast.Tuple) and len(tgt.elts) == 2 and all(len(c) == 1 for c in cols):
                    order = [e.id for e in tgt.elts]
                    k = cols[order.index(st.value.key.id)][0]
                    v = cols[order.index(st.value.value.id)][0]
                    pm = (st.targets[0].id, k, v, st.lineno)
    if pm is None:
        raise ValueError('_downsample_treeneuron: parent map comprehension not found')
    P = pm[0]
    F['parentMapKey'], F['parentMapValue'] = pm[1], pm[2]
    sent = [st for st in fn.body if isinstance(st, ast.Assign) and isinstance(st.targets[0], ast.Subscript)
            and isinstance(st.targets[0].value, ast.Name) and st.targets[0].value.id == P]
    s = _one(sent, '_downsample_treeneuron: parent-map sentinel')
    F['sentinelKey'], F['sentinelValue'] = _const(s.targets[0].slice), _const(s.value)
    # selection = <X>.nodes.type != 'slab'
    sel = None
    for st in fn.body:
        if isinstance(st, ast.Assign) and isinstance(st.value, ast.Compare) and len(st.value.ops) == 1 \
                and isinstance(st.value.left, ast.Attribute) and isinstance(_const(st.value.comparators[0]), str):
            sel = st
    if sel is None:
        raise ValueError('_downsample_treeneuron: type selection not found')
    SEL = sel.targets[0].id
    F['fixColumn'], F['fixCmp'], F['fixType'] = sel.value.left.attr, _op(sel.value.ops[0]), _const(sel.value.comparators[0])
    # selection = selection | <X>.nodes.node_id.isin(preserve_nodes)
    pr = [st for st in ast.walk(fn) if isinstance(st, ast.Assign) and isinstance(st.targets[0], ast.Name) and st.targets[0].id == SEL
          and isinstance(st.value, ast.BinOp)]
    p = _one(pr, '_downsample_treeneuron: preserve_nodes union')
    isin = _one(_calls(p.value, 'isin'), '_downsample_treeneuron: preserve isin')
    F['presOp'] = _op(p.value.op)
    F['presColumn'] = isin.func.value.attr if isinstance(isin.func.value, ast.Attribute) else '?'
    F['presArg'] = ast.unparse(isin.args[0]) == PRES
    F['presKeepsSelection'] = SEL in _names(p.value.left) or SEL in _names(p.value.right)
    # fix = <X>.nodes[selection].node_id.values
    fx = [st for st in fn.body if isinstance(st, ast.Assign) and isinstance(st.targets[0], ast.Name) and SEL in _names(st.value)
          and st.targets[0].id != SEL and st.lineno > p.lineno]
    fxs = _one(fx, '_downsample_treeneuron: fix point extraction')
    FIX0 = fxs.targets[0].id
    F['fixIdColumn'] = 'node_id' if 'node_id' in _attrs(fxs.value) else '?'
    # soma block: if not isinstance(<X>.soma, type(None)): for s in soma: if s not in FIX: FIX = np.append(FIX, s)
    somablk = [st for st in fn.body if isinstance(st, ast.If) and 'soma' in _attrs(st.test) and _calls(st.body, 'append')]
    sb = _one(somablk, '_downsample_treeneuron: soma block')
    F['somaGuard'] = ast.unparse(sb.test).replace(X, 'X')
    app = _one(_calls(sb.body, 'append'), '_downsample_treeneuron: soma append')
    appst = _one([st for st in _walk_stmts(sb.body) if isinstance(st, ast.Assign) and app in list(ast.walk(st.value))], 'soma append statement')
    APP = appst.targets[0].id
    F['somaAppendsToFix'] = APP == FIX0 and isinstance(app.args[0], ast.Name) and app.args[0].id == FIX0
    # the walk
    walks = [st for st in fn.body if isinstance(st, ast.For) and any(isinstance(c, ast.While) for c in _walk_stmts(st.body))]
    W = _one(walks, '_downsample_treeneuron: walk loop')
    if not isinstance(W.iter, ast.Name) or not isinstance(W.target, ast.Name):
        raise ValueError('_downsample_treeneuron: walk loop is not `for <name> in <name>`')
    START = W.iter.id
    cur = None
    for st in W.body:
        if isinstance(st, ast.Assign) and isinstance(st.value, ast.Name) and st.value.id == W.target.id:
            cur = st.targets[0].id
    if cur is None:
        raise ValueError('_downsample_treeneuron: `this_node = en` not found')
    outer = _one([st for st in W.body if isinstance(st, ast.While)], '_downsample_treeneuron: outer while')
    F['outerWhileTrue'] = _const(outer.test) is True
    cand = None
    for st in outer.body:
        if isinstance(st, ast.Assign) and isinstance(st.value, ast.Subscript) and isinstance(st.value.value, ast.Name) \
                and st.value.value.id == P and isinstance(st.value.slice, ast.Name) and st.value.slice.id == cur:
            cand = st.targets[0].id
    if cand is None:
        raise ValueError('_downsample_treeneuron: `new_p = parents[this_node]` not found')
    cont = _one([st for st in outer.body if isinstance(st, ast.If) and isinstance(st.test, ast.Compare) and isinstance(st.test.left, ast.Name)
                 and st.test.left.id == cand and any(isinstance(c, ast.While) for c in _walk_stmts(st.body))], 'walk: `if new_p >= 0`')
    F['contCmp'], F['contK'] = _op(cont.test.ops[0]), _const(cont.test.comparators[0])
    # else branch: new_parents[this_node] = -1 ; break
    rec = [st for st in cont.orelse if isinstance(st, ast.Assign) and isinstance(st.targets[0], ast.Subscript)
           and isinstance(st.targets[0].slice, ast.Name) and st.targets[0].slice.id == cur]
    r = _one(rec, 'walk: root record')
    NEWP = r.targets[0].value.id
    F['rootRecord'] = _const(r.value)
    F['rootBreaks'] = any(isinstance(st, ast.Break) for st in cont.orelse)
    inner = _one([st for st in cont.body if isinstance(st, ast.While)], 'walk: inner while')
    if not (isinstance(inner.test, ast.Compare) and len(inner.test.ops) == 1 and isinstance(inner.test.left, ast.Name)
            and isinstance(inner.test.comparators[0], ast.Name)):
        raise ValueError('walk: inner loop test is not `<i> <cmp> <factor>`')
    I = inner.test.left.id
    F['loopCmp'] = _op(inner.test.ops[0])
    F['loopRhsIsFactor'] = inner.test.comparators[0].id == FAC
    init = [st for st in cont.body if isinstance(st, ast.Assign) and isinstance(st.targets[0], ast.Name) and st.targets[0].id == I
            and st.lineno < inner.lineno]
    F['loopInit'] = _const(_one(init, 'walk: `i = 0`').value)
    inc = [st for st in inner.body if isinstance(st, ast.AugAssign) and isinstance(st.target, ast.Name) and st.target.id == I]
    ic = _one(inc, 'walk: `i += 1`')
    F['loopStepOp'], F['loopStep'] = _op(ic.op), _const(ic.value)
    stop = _one([st for st in inner.body if isinstance(st, ast.If)], 'walk: stop test')
    t = stop.test
    if not (isinstance(t, ast.BoolOp) and len(t.values) == 2):
        raise ValueError('walk: stop test is not a two-way and/or')
    F['stopBool'] = _op(t.op)
    mem = [v for v in t.values if isinstance(v, ast.Compare) and isinstance(v.ops[0], (ast.In, ast.NotIn))]
    neg = [v for v in t.values if isinstance(v, ast.Compare) and not isinstance(v.ops[0], (ast.In, ast.NotIn))]
    m, ng = _one(mem, 'walk: membership disjunct'), _one(neg, 'walk: root disjunct')
    F['stopMemOp'] = _op(m.ops[0])
    F['stopMemLhsIsCand'] = isinstance(m.left, ast.Name) and m.left.id == cand
    if not isinstance(m.comparators[0], ast.Name):
        raise ValueError('walk: membership container is not a plain name')
    STOPSET = m.comparators[0].id
    F['stopRootLhsIsCand'] = isinstance(ng.left, ast.Name) and ng.left.id == cand
    F['stopRootCmp'], F['stopRootK'] = _op(ng.ops[0]), _const(ng.comparators[0])
    srec = [st for st in stop.body if isinstance(st, ast.Assign) and isinstance(st.targets[0], ast.Subscript)
            and isinstance(st.targets[0].value, ast.Name) and st.targets[0].value.id == NEWP]
    sr = _one(srec, 'walk: record on stop')
    F['stopRecords'] = (isinstance(sr.targets[0].slice, ast.Name) and sr.targets[0].slice.id == cur and isinstance(sr.value, ast.Name) and sr.value.id == cand)
    F['stopBreaks'] = any(isinstance(st, ast.Break) for st in stop.body)
    flag = [st.targets[0].id for st in stop.body if isinstance(st, ast.Assign) and isinstance(st.targets[0], ast.Name) and _const(st.value) is True]
    # step: new_p = parents[new_p], after the stop test, before the increment
    step = [st for st in inner.body if isinstance(st, ast.Assign) and isinstance(st.targets[0], ast.Name) and st.targets[0].id == cand
            and isinstance(st.value, ast.Subscript) and isinstance(st.value.value, ast.Name) and st.value.value.id == P
            and isinstance(st.value.slice, ast.Name) and st.value.slice.id == cand]
    sp = _one(step, 'walk: `new_p = parents[new_p]`')
    F['stepAfterStopTest'] = stop.lineno < sp.lineno
    # after the inner loop: if stop: break  else: new_parents[this] = new_p; this = new_p
    after = [st for st in cont.body if isinstance(st, ast.If) and st.lineno > inner.lineno]
    a = _one(after, 'walk: after-scan branch')
    flagname = flag[0] if flag else None
    at = ast.unparse(a.test)
    stopped_first = flagname is not None and flagname in _names(a.test) and not (isinstance(a.test, ast.UnaryOp) and isinstance(a.test.op, ast.Not)) \
        and 'False' not in at
    brk, go = (a.body, a.orelse) if stopped_first else (a.orelse, a.body)
    F['stoppedBreaksOuter'] = any(isinstance(st, ast.Break) for st in brk) and flagname is not None
    grec = [st for st in go if isinstance(st, ast.Assign) and isinstance(st.targets[0], ast.Subscript) and isinstance(st.targets[0].value, ast.Name)
            and st.targets[0].value.id == NEWP and isinstance(st.targets[0].slice, ast.Name) and st.targets[0].slice.id == cur
            and isinstance(st.value, ast.Name) and st.value.id == cand]
    gmove = [st for st in go if isinstance(st, ast.Assign) and isinstance(st.targets[0], ast.Name) and st.targets[0].id == cur
             and isinstance(st.value, ast.Name) and st.value.id == cand]
    F['exhaustedRecordsAndMoves'] = len(grec) == 1 and len(gmove) == 1 and grec[0].lineno < gmove[0].lineno
    # flag reset at the top of each outer iteration
    F['flagResetEachRound'] = flagname is not None and any(isinstance(st, ast.Assign) and isinstance(st.targets[0], ast.Name)
                                                           and st.targets[0].id == flagname and _const(st.value) is False for st in outer.body)

    # data flow: are the soma ids in the container the walk tests / starts from?
    def defined_after_soma(name):
        if name == APP:
            # no re-binding of the appended-to name between the soma block and the walk
            return not any(name in _assign_target_names(st) for st in fn.body if _end(sb) < st.lineno < W.lineno)
        defs = [st for st in fn.body if name in _assign_target_names(st) and st.lineno < W.lineno]
        if len(defs) != 1:
            return False
        d = defs[0]
        return d.lineno > _end(sb) and APP in _names(d.value)
    F['stopSetHasSoma'] = bool(F['somaAppendsToFix']) and sb.lineno < W.lineno and defined_after_soma(STOPSET)
    F['startsHaveSoma'] = bool(F['somaAppendsToFix']) and sb.lineno < W.lineno and defined_after_soma(START)
    # and are they derived from the fix points at all?
    F['stopSetFromFix'] = STOPSET == FIX0 or any(STOPSET in _assign_target_names(st) and FIX0 in _names(getattr(st, 'value', st)) for st in fn.body)
    F['startsFromFix'] = START == FIX0 or any(START in _assign_target_names(st) and FIX0 in _names(getattr(st, 'value', st)) for st in fn.body)

    F['factorRoundBeforeWalk'] = rnd_line is None or rnd_line < W.lineno
    # rows kept / new parents
    keep = [c for st in fn.body if st.lineno > _end(W) for c in _calls(st, 'isin') if NEWP in _names(c)]
    k = _one(keep, '_downsample_treeneuron: kept rows')
    F['keepColumn'] = k.func.value.attr if isinstance(k.func.value, ast.Attribute) else '?'
    F['keepUsesKeys'] = bool(_calls(k, 'keys'))
    mp = [c for st in fn.body if st.lineno > _end(W) for c in _calls(st, 'map') if c.args and isinstance(c.args[0], ast.Name) and c.args[0].id == NEWP]
    mm = _one(mp, '_downsample_treeneuron: new parent map')
    F['mapColumn'] = mm.func.value.attr if isinstance(mm.func.value, ast.Attribute) else '?'
    mst = _one([st for st in fn.body if isinstance(st, ast.Assign) and mm in list(ast.walk(st.value))], 'new parent assignment')
    F['mapTarget'] = _const(mst.targets[0].slice) if isinstance(mst.targets[0], ast.Subscript) else '?'
    F['clearsCache'] = bool(_calls(fn.body[-3:], '_clear_temp_attr'))
    return F


# ------------------------------------------------------------------------------------------------ resampling
def resample_facts(tree):
    F = {}
    fn = _func(tree, 'resample_skeleton')
    F['defaults'] = _defaults(fn)
    F['decorators'] = _decorators(fn)
    ps = [a.arg for a in fn.args.args]
    X, RES = ps[0], ps[1]
    mu = [st for st in fn.body if isinstance(st, ast.Assign) and isinstance(st.targets[0], ast.Name) and st.targets[0].id == RES
          and _calls(st.value, 'map_units')]
    m = _one(mu, 'resample_skeleton: map_units')
    c = _calls(m.value, 'map_units')[0]
    F['mapUnitsArg'] = ast.unparse(c.args[0]) == RES
    F['mapUnitsOnError'] = _const(_kw(c, 'on_error')) if _kw(c, 'on_error') is not None else ''
    cp = [n for n in fn.body if isinstance(n, ast.If) and isinstance(n.test, ast.UnaryOp) and isinstance(n.test.op, ast.Not)
          and 'inplace' in _names(n.test) and _calls(n.body, 'copy')]
    F['copiesUnlessInplace'] = len(cp) == 1
    F['typeGuardRaises'] = any(isinstance(n, ast.If) and 'isinstance' in ast.unparse(n.test) and 'TreeNeuron' in ast.unparse(n.test) and _raises(n.body)
                               for n in fn.body)
    nc = _one([st for st in fn.body if isinstance(st, ast.Assign) and isinstance(st.value, ast.List) and st.value.elts
               and all(isinstance(_const(e), str) for e in st.value.elts)], 'resample_skeleton: numeric column list')
    NUM = nc.targets[0].id
    F['numCols'] = [_const(e) for e in nc.value.elts]

    # the segment loop
    loops = [st for st in fn.body if isinstance(st, ast.For) and 'small_segments' in _attrs(st.iter)]
    L = _one(loops, 'resample_skeleton: segment loop')
    F['loopOver'] = 'small_segments'
    tg = L.target
    SEG = tg.elts[-1].id if isinstance(tg, ast.Tuple) else tg.id
    # the id counter: the name advanced by `<c> += len(<new ids>)` inside the loop
    aug = [st for st in L.body if isinstance(st, ast.AugAssign) and isinstance(st.target, ast.Name) and isinstance(st.op, ast.Add)
           and _calls(st.value, 'len')]
    adv = _one(aug, 'resample_skeleton: id counter advance')
    CNT = adv.target.id
    init = [st for st in fn.body if st.lineno < L.lineno and CNT in _assign_target_names(st)]
    ini = _one(init, 'resample_skeleton: id counter start')
    v = ini.value
    if isinstance(v, ast.BinOp) and isinstance(v.op, (ast.Add, ast.Sub)) and isinstance(_const(v.right), int):
        F['idBasePlus'] = _const(v.right) if isinstance(v.op, ast.Add) else -_const(v.right)
        left = v.left
    else:
        F['idBasePlus'] = 0
        left = v
    F['idBaseIsPyInt'] = isinstance(left, ast.Call) and isinstance(left.func, ast.Name) and left.func.id == 'int'
    inner = left.args[0] if F['idBaseIsPyInt'] else left
    if isinstance(inner, ast.Call) and isinstance(inner.func, ast.Attribute) and inner.func.attr in ('max', 'min', 'count', 'sum', 'nunique'):
        F['idBaseAgg'] = inner.func.attr
        F['idBaseColumn'] = inner.func.value.attr if isinstance(inner.func.value, ast.Attribute) else ast.unparse(inner.func.value)
    else:
        F['idBaseAgg'] = 'other'
        F['idBaseColumn'] = ast.unparse(inner).replace(X, 'X')
    # dist: cumulative arc length with a leading 0
    DIST = None
    for st in L.body:
        if isinstance(st, ast.Assign) and _calls(st.value, 'cumsum'):
            DIST = st.targets[0].id
            F['distIsCumsumOfNorms'] = bool(_calls(st.value, 'norm'))
    if DIST is None:
        raise ValueError('resample_skeleton: cumulative distance not found')
    ins = [st for st in L.body if isinstance(st, ast.Assign) and isinstance(st.targets[0], ast.Name) and st.targets[0].id == DIST and _calls(st.value, 'insert')]
    i0 = _one(ins, 'resample_skeleton: np.insert(dist, 0, 0)')
    ic = _calls(i0.value, 'insert')[0]
    F['distLeading'] = [_const(a) for a in ic.args[1:]]
    # collapse test
    col = _one([st for st in L.body if isinstance(st, ast.If) and DIST in _names(st.test) and RES in _names(st.test)
                and any(isinstance(s, ast.Continue) for s in st.body)], 'resample_skeleton: collapse test')
    t = col.test
    disj = t.values if isinstance(t, ast.BoolOp) and isinstance(t.op, ast.Or) else [t]
    short = _one([d for d in disj if isinstance(d, ast.Compare) and DIST in _names(d.left)], 'collapse: length disjunct')
    F['shortLhs'] = ast.unparse(short.left).replace(DIST, 'dist')
    F['shortCmp'] = _op(short.ops[0])
    F['shortRhsIsRes'] = isinstance(short.comparators[0], ast.Name) and short.comparators[0].id == RES
    others = [d for d in disj if d is not short]
    F['shortOther'] = sorted(ast.unparse(d).replace(SEG, 'seg') for d in others)
    # what a collapsed segment contributes: [[seg[a], seg[b]] + [values[c][seg[d]] …]]
    subs = [s for s in _walk_stmts(col.body) if isinstance(s, ast.Subscript) and isinstance(s.value, ast.Name) and s.value.id == SEG]
    F['collapseIdx'] = [_slice_str(s.slice) for s in subs]
    # node count and sample positions
    NN = None
    for st in L.body:
        if isinstance(st, ast.Assign) and isinstance(st.value, ast.Call) and DIST in _names(st.value) and RES in _names(st.value) \
                and isinstance(st.targets[0], ast.Name):
            call = st.value
            F['countFn'] = ast.unparse(call.func).split('.')[-1]
            arg = call.args[0]
            if not isinstance(arg, ast.BinOp):
                raise ValueError('resample_skeleton: node count argument is not a binary operation')
            F['countOp'] = _op(arg.op)
            F['countLhs'] = ast.unparse(arg.left).replace(DIST, 'dist')
            F['countRhsIsRes'] = isinstance(arg.right, ast.Name) and arg.right.id == RES
            NN = st.targets[0].id
    if NN is None:
        raise ValueError('resample_skeleton: node count not found')
    ls = _one([c for c in _calls(L.body, 'linspace')], 'resample_skeleton: linspace')
    F['linspaceArgs'] = [ast.unparse(a).replace(DIST, 'dist').replace(NN, 'n') for a in ls.args]
    lst = _one([st for st in L.body if isinstance(st, ast.Assign) and ls in list(ast.walk(st.value))], 'linspace assignment')
    ND = lst.targets[0].id
    # interpolators
    ips = _calls(L.body, 'interp1d')
    kinds = []
    for c in ips:
        k = _kw(c, 'kind')
        xs = ast.unparse(c.args[0]) if c.args else '?'
        kinds.append((xs.replace(DIST, 'dist'), ast.unparse(k) if k is not None else 'None'))
    F['interp'] = sorted(kinds)
    # which loop each interpolator sits in (numeric / categorical column list)
    inloops = []
    for st in _walk_stmts(L.body):
        if isinstance(st, ast.For) and _calls(st.body, 'interp1d'):
            k = _kw(_calls(st.body, 'interp1d')[0], 'kind')
            inloops.append(('num' if (isinstance(st.iter, ast.Name) and st.iter.id == NUM) else 'cat', ast.unparse(k) if k is not None else 'None'))
    F['interpLoops'] = sorted(inloops)
    # samples evaluated at the linspace positions
    F['sampledAtNewDist'] = any(isinstance(c, ast.Call) and isinstance(c.func, ast.Subscript) and c.args and isinstance(c.args[0], ast.Name) and c.args[0].id == ND
                                for c in _walk_stmts(L.body))
    # skip_errors fall-back
    tr = _one([st for st in L.body if isinstance(st, ast.Try)], 'resample_skeleton: try block')
    h = _one(tr.handlers, 'resample_skeleton: except handler')
    F['skipCatches'] = ast.unparse(h.type) if h.type is not None else ''
    sk = _one([st for st in h.body if isinstance(st, ast.If) and 'skip_errors' in _names(st.test)], 'skip_errors branch')
    F['skipContinues'] = any(isinstance(s, ast.Continue) for s in sk.body)
    F['skipElseRaises'] = _raises(sk.orelse)
    isn = _one(_calls(sk.body, 'isin'), 'skip_errors: rows kept')
    F['skipRowsColumn'] = isn.func.value.attr if isinstance(isn.func.value, ast.Attribute) else '?'
    F['skipRowsSlice'] = _slice_str(isn.args[0].slice) if isinstance(isn.args[0], ast.Subscript) else \
        ('::' if (isinstance(isn.args[0], ast.Name) and isn.args[0].id == SEG) else ast.unparse(isn.args[0]))
    F['skipAdvancesCounter'] = any(CNT in _assign_target_names(s) for s in _walk_stmts(sk.body))
    # new ids
    nid = _one([st for st in L.body if isinstance(st, ast.Assign) and _calls(st.value, 'concatenate')], 'resample_skeleton: new ids')
    NID = nid.targets[0].id
    conc = _calls(nid.value, 'concatenate')[0]
    parts = conc.args[0].elts if isinstance(conc.args[0], (ast.Tuple, ast.List)) else []
    if len(parts) != 3:
        raise ValueError('resample_skeleton: new ids are not a concatenation of three parts')
    F['newIdsFirst'] = _slice_str(parts[0].slice) if isinstance(parts[0], ast.Subscript) and parts[0].value.id == SEG else '?'
    F['newIdsLast'] = _slice_str(parts[2].slice) if isinstance(parts[2], ast.Subscript) and parts[2].value.id == SEG else '?'
    mid = parts[1]
    if not (isinstance(mid, ast.ListComp) and isinstance(mid.elt, ast.BinOp) and isinstance(mid.elt.op, ast.Add)):
        raise ValueError('resample_skeleton: fresh ids are not `[<counter> + i for i in range(...)]`')
    F['freshLhsIsCounter'] = isinstance(mid.elt.left, ast.Name) and mid.elt.left.id == CNT
    F['freshRhsIsLoopVar'] = isinstance(mid.elt.right, ast.Name) and mid.elt.right.id == mid.generators[0].target.id
    rg = mid.generators[0].iter
    if not (isinstance(rg, ast.Call) and ast.unparse(rg.func) == 'range' and len(rg.args) == 1 and isinstance(rg.args[0], ast.BinOp)):
        raise ValueError('resample_skeleton: fresh id range is not `range(len(...) - k)`')
    F['freshRangeOp'] = _op(rg.args[0].op)
    F['freshRangeK'] = _const(rg.args[0].right)
    F['freshRangeLenOf'] = 'new_dist' if ND in _names(rg.args[0].left) else ast.unparse(rg.args[0].left)
    F['advanceLenOf'] = 'new_ids' if NID in _names(adv.value) else ('new_dist' if ND in _names(adv.value) else ast.unparse(adv.value))
    F['advanceAfterNewIds'] = adv.lineno > nid.lineno
    # rows: [[tn, pn] + [new_values[c][i] …] for i, (tn, pn) in enumerate(zip(new_ids[:-1], new_ids[1:]))]
    zp = [c for c in _calls(L.body, 'zip') if len(c.args) == 2 and all(isinstance(a, ast.Subscript) and isinstance(a.value, ast.Name) and a.value.id == NID for a in c.args)]
    z = _one(zp, 'resample_skeleton: rows zip')
    F['rowsZip'] = [_slice_str(a.slice) for a in z.args]
    rowlc = _one([n for n in _walk_stmts(L.body) if isinstance(n, ast.ListComp) and z in list(ast.walk(n.generators[0].iter))], 'rows comprehension')
    F['rowsEnumerated'] = bool(_calls(rowlc.generators[0].iter, 'enumerate'))
    gt = rowlc.generators[0].target
    if isinstance(gt, ast.Tuple) and len(gt.elts) == 2 and isinstance(gt.elts[1], ast.Tuple):
        ix, (a, b) = gt.elts[0].id, [e.id for e in gt.elts[1].elts]
        e = rowlc.elt
        F['rowsNodeParent'] = isinstance(e, ast.BinOp) and isinstance(e.left, ast.List) and [getattr(v, 'id', '?') for v in e.left.elts] == [a, b]
        F['rowsValueIndexIsRowIndex'] = isinstance(e, ast.BinOp) and any(isinstance(s, ast.Subscript) and isinstance(s.slice, ast.Name) and s.slice.id == ix
                                                                          for s in ast.walk(e.right))
    else:
        F['rowsNodeParent'] = F['rowsValueIndexIsRowIndex'] = False
    # after the loop: root rows, dedupe
    post = [st for st in fn.body if st.lineno > _end(L)]
    rt = [st for st in post if isinstance(st, ast.Assign) and 'root' in _attrs(st.value) and _calls(st.value, 'isin')]
    F['rootRowsAdded'] = len(rt) == 1
    dd = [st for st in post if isinstance(st, ast.Assign) and _calls(st.value, 'duplicated')]
    d = _one(dd, 'resample_skeleton: de-duplication')
    NEW = d.targets[0].id
    dc = _calls(d.value, 'duplicated')[0]
    F['dedupColumn'] = dc.func.value.attr if isinstance(dc.func.value, ast.Attribute) else '?'
    F['dedupKeep'] = ast.unparse(_kw(dc, 'keep')) if _kw(dc, 'keep') is not None else 'first'
    F['dedupInverted'] = any(isinstance(n, ast.UnaryOp) and isinstance(n.op, ast.Invert) and dc in list(ast.walk(n)) for n in ast.walk(d.value))
    # KD tree from the NEW table, after the de-duplication
    kt = _one([st for st in post if isinstance(st, ast.Assign) and _calls(st.value, 'cKDTree')], 'resample_skeleton: cKDTree')
    TREE = kt.targets[0].id
    F['treeFromNew'] = NEW in _names(kt.value) and X not in _names(kt.value)
    F['treeAfterDedup'] = kt.lineno > d.lineno
    F['treeColumns'] = [_const(e) for n in ast.walk(kt.value) if isinstance(n, ast.List) for e in n.elts]
    # OLD positions: nodes = x.nodes.set_index('node_id')
    old = _one([st for st in post if isinstance(st, ast.Assign) and _calls(st.value, 'set_index') and X in _names(st.value)], 'resample_skeleton: old node index')
    OLD = old.targets[0].id
    F['oldIndexColumn'] = _const(_calls(old.value, 'set_index')[0].args[0])
    # assignment of the new table to the neuron
    setn = [st for st in post if isinstance(st, ast.Assign) and isinstance(st.targets[0], ast.Attribute) and st.targets[0].attr == 'nodes'
            and NEW in _names(st.value)]
    sn = _one(setn, 'resample_skeleton: x.nodes = new_nodes')
    F['oldIndexBeforeAssign'] = old.lineno < sn.lineno
    # the three re-attachment blocks: top-level statements containing a tree.query
    blocks = []
    for st in post:
        if isinstance(st, ast.If):
            qs = [c for c in _calls(st.body, 'query') if isinstance(c.func.value, ast.Name) and c.func.value.id == TREE]
            if qs:
                # an `elif` chain shows up as an If inside orelse: look for queries there too
                nested = [c for c in _calls(st.orelse, 'query')]
                kind = 'soma' if 'soma' in _attrs(st.test) else ('connectors' if 'has_connectors' in _attrs(st.test) else ('tags' if 'has_tags' in _attrs(st.test) else '?'))
                posfrom = all(OLD in _names(a) for c in qs for a in c.args)
                # positions are read through `OLD.loc[...]` into a local first
                loc = [s for s in _walk_stmts(st.body) if isinstance(s, ast.Assign) and OLD in _names(s.value) and 'loc' in _attrs(s.value)]
                ixback = [s for s in _walk_stmts(st.body) if isinstance(s, ast.Subscript) and NEW in _names(s.value) and 'node_id' in _attrs(s.value)
                          and isinstance(s.slice, ast.Name)]
                blocks.append(dict(kind=kind, test=ast.unparse(st.test).replace(X, 'X'), queries=len(qs), nestedQueries=len(nested),
                                   oldPositions=bool(loc) or posfrom, indexesNewIds=bool(ixback),
                                   beforeAssign=_end(st) < sn.lineno, afterTree=st.lineno > kt.lineno))
    F['attachBlocks'] = blocks
    allq = [c for st in post for c in _calls(st, 'query') if isinstance(c.func, ast.Attribute) and isinstance(c.func.value, ast.Name) and c.func.value.id == TREE]
    F['attachQueriesTotal'] = len(allq)
    # soma: else-branch resets the soma; scalar vs iterable
    sblk = [st for st in post if isinstance(st, ast.If) and 'soma' in _attrs(st.test) and _calls(st.body, 'query')]
    if len(sblk) == 1:
        F['somaTest'] = ast.unparse(sblk[0].test).replace(X, 'X')
        F['somaElseClears'] = any(isinstance(s, ast.Assign) and isinstance(s.targets[0], ast.Attribute) and s.targets[0].attr == 'soma' and _const(s.value) is None
                                  for s in sblk[0].orelse)
    else:
        F['somaTest'], F['somaElseClears'] = '?', False
    # tags: set of all tagged nodes, remap per list
    F['clearsCache'] = bool(_calls(post[-3:], '_clear_temp_attr'))
    return F


def method_facts(tree):
    out = []
    for m in ('downsample', 'resample'):
        fn = _func(tree, m, cls='TreeNeuron')
        params = [a.arg for a in fn.args.args if a.arg != 'self']
        cal = None
        for c in ast.walk(fn):
            if isinstance(c, ast.Call) and isinstance(c.func, ast.Attribute) and c.func.attr in ('downsample_neuron', 'resample_skeleton'):
                cal = c
        if cal is None:
            raise ValueError(f'TreeNeuron.{m}: sampling call not found')
        fw = [ast.unparse(a) for a in cal.args[1:]] + [f'{k.arg}={ast.unparse(k.value)}' if k.arg else '**' + ast.unparse(k.value) for k in cal.keywords]
        out.append((m, cal.func.attr, params, sorted(fw), _defaults(fn)))
    # `simple`: downsample_neuron(self, float('inf'), inplace=False)
    fn = _func(tree, 'simple', cls='TreeNeuron')
    cal = _one([c for c in ast.walk(fn) if isinstance(c, ast.Call) and isinstance(c.func, ast.Attribute) and c.func.attr == 'downsample'], 'TreeNeuron.simple')
    fw = [ast.unparse(a) for a in cal.args] + [f'{k.arg}={ast.unparse(k.value)}' for k in cal.keywords]
    out.append(('simple', 'downsample', [], sorted(fw), {}))
    return out


# ------------------------------------------------------------------------------------------------ emit
def lstr(s):
    return '"' + str(s).replace('\\', '\\\\').replace('"', '\\"') + '"'


def lstrs(l):
    return '[' + ', '.join(lstr(s) for s in l) + ']'


def lbool(b):
    return 'true' if b else 'false'


def lint(i):
    if not isinstance(i, int) or isinstance(i, bool):
        raise ValueError(f'expected an integer constant, found {i!r}')
    return f'({i})' if i < 0 else str(i)


def ldefaults(d):
    return '[' + ', '.join(f'({lstr(k)}, {lstr(v)})' for k, v in sorted(d.items())) + ']'


def generate(repo: Path):
    ds_src = (Path(repo) / 'navis' / 'sampling' / 'downsampling.py').read_text()
    rs_src = (Path(repo) / 'navis' / 'sampling' / 'resampling.py').read_text()
    sk_src = (Path(repo) / 'navis' / 'core' / 'skeleton.py').read_text()
    D = downsample_facts(ast.parse(ds_src))
    R = resample_facts(ast.parse(rs_src))
    M = method_facts(ast.parse(sk_src))
    L = ['/- GENERATED by translator/gen_sampling.py from navis/sampling/downsampling.py, navis/sampling/resampling.py,',
         '   navis/core/skeleton.py.  Do not edit: regenerated from the current source tree on every `./check C13`. -/',
         'namespace Navis.Gen.Sampling', '']
    L.append('/-! ### `downsample_neuron` -/')
    L.append(f'def dsDefaults : List (String × String) := {ldefaults(D["defaults"])}')
    L.append(f'def dsDecorators : List String := {lstrs(D["decorators"])}')
    L.append('/-- `if downsampling_factor <cmp> <k>: raise ValueError` -/')
    L.append(f'def factorGuardCmp : String := {lstr(D["factorGuardCmp"])}')
    L.append(f'def factorGuardK : Int := {lint(D["factorGuardK"])}')
    L.append(f'def dsCopiesUnlessInplace : Bool := {lbool(D["copiesUnlessInplace"])}')
    L.append('/-- `isinstance(x, core.<type>)` → callee, in order -/')
    L.append('def dsDispatch : List (String × String) := [' + ', '.join(f'({lstr(a)}, {lstr(b)})' for a, b in D['dispatch']) + ']')
    L.append(f'def dsTreeArgs : List String := {lstrs(D["treeArgs"])}')
    L.append(f'def dsReturnsX : Bool := {lbool(D["returnsX"])}\n')
    L.append('/-! ### `_downsample_treeneuron` -/')
    L.append('/-- `if x.nodes.shape[<axis>] <cmp> <k>: return` -/')
    L.append(f'def smallGuardCmp : String := {lstr(D["smallGuardCmp"])}')
    L.append(f'def smallGuardK : Int := {lint(D["smallGuardK"])}')
    L.append(f'def smallGuardAxis : Int := {lint(D["smallGuardAxis"])}')
    L.append('/-- `if not np.isinf(factor): factor = int(np.<round>(factor))` before the walk ("none" when the factor is used as given) -/')
    L.append(f'def factorRound : String := {lstr(D["factorRound"])}')
    L.append(f'def factorRoundSkipsInf : Bool := {lbool(D["factorRoundSkipsInf"])}')
    L.append(f'def factorRoundBeforeWalk : Bool := {lbool(D["factorRoundBeforeWalk"])}')
    L.append('/-- parent map `{n: p for n, p in zip(nodes.<key>, nodes.<value>)}`, sentinel `[<k>] = <v>` -/')
    L.append(f'def parentMapKey : String := {lstr(D["parentMapKey"])}')
    L.append(f'def parentMapValue : String := {lstr(D["parentMapValue"])}')
    L.append(f'def sentinelKey : Int := {lint(D["sentinelKey"])}')
    L.append(f'def sentinelValue : Int := {lint(D["sentinelValue"])}')
    L.append('/-- fix points: `nodes.<column> <cmp> <type>`, `<op>` `nodes.<presColumn>.isin(preserve_nodes)` -/')
    L.append(f'def fixColumn : String := {lstr(D["fixColumn"])}')
    L.append(f'def fixCmp : String := {lstr(D["fixCmp"])}')
    L.append(f'def fixType : String := {lstr(D["fixType"])}')
    L.append(f'def presOp : String := {lstr(D["presOp"])}')
    L.append(f'def presColumn : String := {lstr(D["presColumn"])}')
    L.append(f'def presArgIsPreserveNodes : Bool := {lbool(D["presArg"])}')
    L.append(f'def presKeepsSelection : Bool := {lbool(D["presKeepsSelection"])}')
    L.append(f'def fixIdColumn : String := {lstr(D["fixIdColumn"])}')
    L.append('/-- soma block: guard, `fix = np.append(fix, s)`; data flow into the walk -/')
    L.append(f'def somaGuard : String := {lstr(D["somaGuard"])}')
    L.append(f'def somaAppendsToFix : Bool := {lbool(D["somaAppendsToFix"])}')
    L.append(f'def stopSetHasSoma : Bool := {lbool(D["stopSetHasSoma"])}')
    L.append(f'def startsHaveSoma : Bool := {lbool(D["startsHaveSoma"])}')
    L.append(f'def stopSetFromFix : Bool := {lbool(D["stopSetFromFix"])}')
    L.append(f'def startsFromFix : Bool := {lbool(D["startsFromFix"])}')
    L.append('/-- the walk: `while True`, `new_p = parents[this]`, `if new_p <contCmp> <contK>` … `else: new_parents[this] = <rootRecord>; break` -/')
    L.append(f'def outerWhileTrue : Bool := {lbool(D["outerWhileTrue"])}')
    L.append(f'def contCmp : String := {lstr(D["contCmp"])}')
    L.append(f'def contK : Int := {lint(D["contK"])}')
    L.append(f'def rootRecord : Int := {lint(D["rootRecord"])}')
    L.append(f'def rootBreaks : Bool := {lbool(D["rootBreaks"])}')
    L.append('/-- `i = <init>`; `while i <loopCmp> downsampling_factor`; `i <op>= <step>` -/')
    L.append(f'def loopInit : Int := {lint(D["loopInit"])}')
    L.append(f'def loopCmp : String := {lstr(D["loopCmp"])}')
    L.append(f'def loopRhsIsFactor : Bool := {lbool(D["loopRhsIsFactor"])}')
    L.append(f'def loopStepOp : String := {lstr(D["loopStepOp"])}')
    L.append(f'def loopStep : Int := {lint(D["loopStep"])}')
    L.append('/-- stop test `new_p <memOp> <fix> <bool> new_p <cmp> <k>` -/')
    L.append(f'def stopBool : String := {lstr(D["stopBool"])}')
    L.append(f'def stopMemOp : String := {lstr(D["stopMemOp"])}')
    L.append(f'def stopMemLhsIsCand : Bool := {lbool(D["stopMemLhsIsCand"])}')
    L.append(f'def stopRootLhsIsCand : Bool := {lbool(D["stopRootLhsIsCand"])}')
    L.append(f'def stopRootCmp : String := {lstr(D["stopRootCmp"])}')
    L.append(f'def stopRootK : Int := {lint(D["stopRootK"])}')
    L.append(f'def stopRecords : Bool := {lbool(D["stopRecords"])}')
    L.append(f'def stopBreaks : Bool := {lbool(D["stopBreaks"])}')
    L.append(f'def stepAfterStopTest : Bool := {lbool(D["stepAfterStopTest"])}')
    L.append(f'def stoppedBreaksOuter : Bool := {lbool(D["stoppedBreaksOuter"])}')
    L.append(f'def exhaustedRecordsAndMoves : Bool := {lbool(D["exhaustedRecordsAndMoves"])}')
    L.append(f'def flagResetEachRound : Bool := {lbool(D["flagResetEachRound"])}')
    L.append('/-- rows kept: `nodes.<column>.isin(list(new_parents.keys()))`; `new_nodes[<target>] = new_nodes.<column>.map(new_parents)` -/')
    L.append(f'def keepColumn : String := {lstr(D["keepColumn"])}')
    L.append(f'def keepUsesKeys : Bool := {lbool(D["keepUsesKeys"])}')
    L.append(f'def mapColumn : String := {lstr(D["mapColumn"])}')
    L.append(f'def mapTarget : String := {lstr(D["mapTarget"])}')
    L.append(f'def dsClearsCache : Bool := {lbool(D["clearsCache"])}\n')
    L.append('/-! ### `resample_skeleton` -/')
    L.append(f'def rsDefaults : List (String × String) := {ldefaults(R["defaults"])}')
    L.append(f'def rsDecorators : List String := {lstrs(R["decorators"])}')
    L.append(f'def rsMapUnitsArg : Bool := {lbool(R["mapUnitsArg"])}')
    L.append(f'def rsMapUnitsOnError : String := {lstr(R["mapUnitsOnError"])}')
    L.append(f'def rsCopiesUnlessInplace : Bool := {lbool(R["copiesUnlessInplace"])}')
    L.append(f'def rsTypeGuardRaises : Bool := {lbool(R["typeGuardRaises"])}')
    L.append(f'def rsNumCols : List String := {lstrs(R["numCols"])}')
    L.append(f'def rsLoopOver : String := {lstr(R["loopOver"])}')
    L.append('/-- `max_tn_id = [int(]<column>.<agg>()[)] + <k>` -/')
    L.append(f'def idBaseAgg : String := {lstr(R["idBaseAgg"])}')
    L.append(f'def idBaseColumn : String := {lstr(R["idBaseColumn"])}')
    L.append(f'def idBasePlus : Int := {lint(R["idBasePlus"])}')
    L.append(f'def idBaseIsPyInt : Bool := {lbool(R["idBaseIsPyInt"])}')
    L.append('/-- `dist = np.insert(np.cumsum(norm(...)), <pos>, <value>)` -/')
    L.append(f'def distIsCumsumOfNorms : Bool := {lbool(R["distIsCumsumOfNorms"])}')
    L.append(f'def distLeading : List Int := [{", ".join(lint(v) for v in R["distLeading"])}]')
    L.append('/-- collapse: `<lhs> <cmp> resample_to or <other…>` → `[[seg[a], seg[b]] + [values[c][seg[d]] …]]` -/')
    L.append(f'def shortLhs : String := {lstr(R["shortLhs"])}')
    L.append(f'def shortCmp : String := {lstr(R["shortCmp"])}')
    L.append(f'def shortRhsIsRes : Bool := {lbool(R["shortRhsIsRes"])}')
    L.append(f'def shortOther : List String := {lstrs(R["shortOther"])}')
    L.append(f'def collapseIdx : List Int := [{", ".join(lint(int(v)) for v in R["collapseIdx"])}]')
    L.append('/-- `n_nodes = np.<fn>(<lhs> <op> resample_to)`; `np.linspace(<args>)` -/')
    L.append(f'def countFn : String := {lstr(R["countFn"])}')
    L.append(f'def countOp : String := {lstr(R["countOp"])}')
    L.append(f'def countLhs : String := {lstr(R["countLhs"])}')
    L.append(f'def countRhsIsRes : Bool := {lbool(R["countRhsIsRes"])}')
    L.append(f'def linspaceArgs : List String := {lstrs(R["linspaceArgs"])}')
    L.append('/-- interpolators `(x argument, kind)`, and per column class -/')
    L.append('def interp : List (String × String) := [' + ', '.join(f'({lstr(a)}, {lstr(b)})' for a, b in R['interp']) + ']')
    L.append('def interpLoops : List (String × String) := [' + ', '.join(f'({lstr(a)}, {lstr(b)})' for a, b in R['interpLoops']) + ']')
    L.append(f'def sampledAtNewDist : Bool := {lbool(R["sampledAtNewDist"])}')
    L.append('/-- `except <type>`: `if skip_errors:` rows `nodes.<column>.isin(seg[<slice>])`, `continue`; `else: raise` -/')
    L.append(f'def skipCatches : String := {lstr(R["skipCatches"])}')
    L.append(f'def skipContinues : Bool := {lbool(R["skipContinues"])}')
    L.append(f'def skipElseRaises : Bool := {lbool(R["skipElseRaises"])}')
    L.append(f'def skipRowsColumn : String := {lstr(R["skipRowsColumn"])}')
    L.append(f'def skipRowsSlice : Option Int × Option Int := {lslice(R["skipRowsSlice"])}')
    L.append(f'def skipAdvancesCounter : Bool := {lbool(R["skipAdvancesCounter"])}')
    L.append('/-- `new_ids = concatenate((seg[<first>], [max_tn_id + i for i in range(len(<of>) <op> <k>)], seg[<last>]))`; `max_tn_id += len(<of>)` -/')
    L.append(f'def newIdsFirst : Option Int × Option Int := {lslice(R["newIdsFirst"])}')
    L.append(f'def newIdsLast : Option Int × Option Int := {lslice(R["newIdsLast"])}')
    L.append(f'def freshLhsIsCounter : Bool := {lbool(R["freshLhsIsCounter"])}')
    L.append(f'def freshRhsIsLoopVar : Bool := {lbool(R["freshRhsIsLoopVar"])}')
    L.append(f'def freshRangeOp : String := {lstr(R["freshRangeOp"])}')
    L.append(f'def freshRangeK : Int := {lint(R["freshRangeK"])}')
    L.append(f'def freshRangeLenOf : String := {lstr(R["freshRangeLenOf"])}')
    L.append(f'def advanceLenOf : String := {lstr(R["advanceLenOf"])}')
    L.append(f'def advanceAfterNewIds : Bool := {lbool(R["advanceAfterNewIds"])}')
    L.append('/-- rows `[[tn, pn] + [new_values[c][i] …] for i, (tn, pn) in enumerate(zip(new_ids[<a>], new_ids[<b>]))]` -/')
    L.append(f'def rowsZip : List (Option Int × Option Int) := [{", ".join(lslice(v) for v in R["rowsZip"])}]')
    L.append(f'def rowsEnumerated : Bool := {lbool(R["rowsEnumerated"])}')
    L.append(f'def rowsNodeParent : Bool := {lbool(R["rowsNodeParent"])}')
    L.append(f'def rowsValueIndexIsRowIndex : Bool := {lbool(R["rowsValueIndexIsRowIndex"])}')
    L.append('/-- after the loop -/')
    L.append(f'def rootRowsAdded : Bool := {lbool(R["rootRowsAdded"])}')
    L.append(f'def dedupColumn : String := {lstr(R["dedupColumn"])}')
    L.append(f'def dedupKeep : String := {lstr(R["dedupKeep"])}')
    L.append(f'def dedupInverted : Bool := {lbool(R["dedupInverted"])}')
    L.append('/-- re-attachment: KD-tree of the new table (after de-duplication), positions from the old table -/')
    L.append(f'def treeFromNew : Bool := {lbool(R["treeFromNew"])}')
    L.append(f'def treeAfterDedup : Bool := {lbool(R["treeAfterDedup"])}')
    L.append(f'def treeColumns : List String := {lstrs(R["treeColumns"])}')
    L.append(f'def oldIndexColumn : String := {lstr(R["oldIndexColumn"])}')
    L.append(f'def oldIndexBeforeAssign : Bool := {lbool(R["oldIndexBeforeAssign"])}')
    L.append('/-- top-level `if` blocks that query the tree: (kind, test, queries in the body, queries nested in its `else`/`elif`,')
    L.append('    positions from the old table, result indexes the new ids, before `x.nodes = …`, after the tree) in source order -/')
    L.append('def attachBlocks : List (String × String × Nat × Nat × Bool × Bool × Bool × Bool) := [')
    L.append(',\n'.join(f'  ({lstr(b["kind"])}, {lstr(b["test"])}, {b["queries"]}, {b["nestedQueries"]}, {lbool(b["oldPositions"])}, {lbool(b["indexesNewIds"])}, '
                        f'{lbool(b["beforeAssign"])}, {lbool(b["afterTree"])})' for b in R['attachBlocks']) + ']')
    L.append(f'def attachQueriesTotal : Nat := {int(R["attachQueriesTotal"])}')
    L.append(f'def somaTest : String := {lstr(R["somaTest"])}')
    L.append(f'def somaElseClears : Bool := {lbool(R["somaElseClears"])}')
    L.append(f'def rsClearsCache : Bool := {lbool(R["clearsCache"])}\n')
    L.append('/-! ### `TreeNeuron.downsample` / `.resample` / `.simple`: (method, callee, parameters, forwarded, defaults) -/')
    L.append('def methods : List (String × String × List String × List String × List (String × String)) := [')
    L.append(',\n'.join(f'  ({lstr(m)}, {lstr(c)}, {lstrs(p)}, {lstrs(f)}, {ldefaults(d)})' for m, c, p, f, d in M) + ']\n')
    L.append('end Navis.Gen.Sampling')
    src = '\n'.join(L) + '\n'
    clean = lambda d: {k: (v if isinstance(v, (str, int, bool, list)) else str(v)) for k, v in d.items()}
    meta = {'sources': ['navis/sampling/downsampling.py', 'navis/sampling/resampling.py', 'navis/core/skeleton.py'],
            'facts': {'downsample': clean(D), 'resample': clean(R), 'methods': [list(map(str, m)) for m in M]}}
    return 'Sampling.lean', src, meta
