"""Translator for C11: re-extract the declarative facts of healing / stitching from the *current* navis source
(`navis/morpho/manipulation.py`, read as text, walked with `ast`; nothing is imported from navis) and emit them as Lean
definitions (`Gen/Heal.lean`).  `Props/C11.lean` proves theorems over these definitions that stop checking when a fact changes.

Facts (semantic, not a fingerprint of the function bodies — renamed locals of other statements, added log lines or comments,
reordered independent statements do not change the output):

* `heal_skeleton`: accepted method names, `.upper()` normalisation, defaults, which keyword of `_stitch_mst` receives which
  argument (and `inplace=True`), `drop_disc` keeps `subtrees[0]`, `max_dist` goes through `map_units`;
* `_stitch_mst`: which COLUMN a boolean mask is converted with (`x.nodes.<col>.values[mask]`), which column the mask / node list
  are matched against, the `LEAFS` literal with its `type` values, the comparison of the fragment size with `min_size` and that
  sizes are counted BEFORE the node filters, the `distance_upper_bound` argument of the kd-tree query, `argmin` over the query
  distances and the index bookkeeping of the chosen pair, the MST weight key, the single-component early return, which values
  of `max_dist` mean "no limit" (only the sentinels True / False / None — the number 0 is a limit);
* `stitch_skeletons`: `ALLOWED_MASTER`, defaults, how each master is picked, the clash set, that the neuron's own ids are added to
  the seen set BEFORE `max(seen)` is taken, the fresh-id formula, what is added to the seen set afterwards, the four remap
  targets (node ids, connector node ids, tags, parent ids) and that unknown keys map to themselves, the master being skipped,
  the `'NONE'` literal, the concatenations;
* `combine_neurons`: the `method` / `master` it hands to `stitch_skeletons`;
* `break_fragments` / `drop_fluff`: sort direction, size comparisons, the fraction test, slice and default index.

Anything the extractor cannot find in the expected shape raises (a broken tie is reported, never guessed)."""
import ast
from pathlib import Path

PROPS = ['C11']

OPS = {ast.GtE: '≥', ast.Gt: '>', ast.LtE: '≤', ast.Lt: '<', ast.Eq: '=', ast.NotEq: '≠'}


class Missing(ValueError):
    pass


def _func(tree, name):
    for n in tree.body:
        if isinstance(n, ast.FunctionDef) and n.name == name:
            return n
    raise Missing(f'function {name} not found')


def _const(n):
    if isinstance(n, ast.Constant):
        return n.value
    if isinstance(n, ast.UnaryOp) and isinstance(n.op, ast.USub) and isinstance(n.operand, ast.Constant):
        return -n.operand.value
    raise Missing(f'not a constant: {ast.unparse(n)[:80]}')


def _chain(n):
    out = []
    while isinstance(n, ast.Attribute):
        out.append(n.attr)
        n = n.value
    if isinstance(n, ast.Name):
        out.append(n.id)
        return out[::-1]
    return None


def _defaults(fn):
    a = fn.args
    names = [x.arg for x in a.args]
    defs = [None] * (len(names) - len(a.defaults)) + list(a.defaults)
    out = {}
    for k, d in zip(names, defs):
        if d is not None:
            out[k] = d
    for k, d in zip(a.kwonlyargs, a.kw_defaults):
        if d is not None:
            out[k.arg] = d
    return out


def _names(n):
    return {x.id for x in ast.walk(n) if isinstance(x, ast.Name)}


def _calls(n, attr=None, name=None):
    for c in ast.walk(n):
        if isinstance(c, ast.Call):
            if attr and isinstance(c.func, ast.Attribute) and c.func.attr == attr:
                yield c
            elif name and isinstance(c.func, ast.Name) and c.func.id == name:
                yield c


def _kw(call, k):
    for kw in call.keywords:
        if kw.arg == k:
            return kw.value
    return None


def _one(it, what):
    l = list(it)
    if len(l) != 1:
        raise Missing(f'{what}: expected exactly one occurrence, found {len(l)}')
    return l[0]


def _cmp_with(fn, name, side='right'):
    """the single comparison `<expr> OP name` (or `name OP <expr>` for side='left') in fn; returns (op symbol, other side src)"""
    hits = []
    for c in ast.walk(fn):
        if isinstance(c, ast.Compare) and len(c.ops) == 1 and type(c.ops[0]) in OPS:
            l, r = c.left, c.comparators[0]
            if side == 'right' and isinstance(r, ast.Name) and r.id == name:
                hits.append((OPS[type(c.ops[0])], ast.unparse(l)))
            if side == 'left' and isinstance(l, ast.Name) and l.id == name:
                hits.append((OPS[type(c.ops[0])], ast.unparse(r)))
    return hits


def _sorted_reverse(fn, what):
    for c in _calls(fn, name='sorted'):
        key = _kw(c, 'key')
        rev = _kw(c, 'reverse')
        if key is not None and 'len' in ast.unparse(key):
            return bool(_const(rev)) if rev is not None else False
    raise Missing(f'{what}: sorted(..., key=len…) not found')


# ------------------------------------------------------------------------------------------------------------------
def heal_facts(fn):
    f = {}
    d = _defaults(fn)
    f['defaults'] = {k: ast.unparse(v) for k, v in d.items()}
    meths = None
    for c in ast.walk(fn):
        if isinstance(c, ast.Compare) and len(c.ops) == 1 and isinstance(c.ops[0], ast.NotIn) \
                and isinstance(c.left, ast.Name) and c.left.id == 'method':
            meths = [_const(e) for e in c.comparators[0].elts]
    if meths is None:
        raise Missing('heal_skeleton: `method not in (...)` not found')
    f['methods'] = meths
    f['upper'] = any(isinstance(a, ast.Assign) and isinstance(a.targets[0], ast.Name) and a.targets[0].id == 'method'
                     and isinstance(a.value, ast.Call) and isinstance(a.value.func, ast.Attribute) and a.value.func.attr == 'upper'
                     for a in ast.walk(fn))
    call = _one(_calls(fn, name='_stitch_mst'), 'heal_skeleton: call of _stitch_mst')
    f['forward'] = {kw.arg: ast.unparse(kw.value) for kw in call.keywords}
    f['first_arg'] = ast.unparse(call.args[0]) if call.args else '?'
    # drop_disc: subset_neuron(x, subset=trees[k], inplace=True) under `if drop_disc:`
    keep_ix, keep_src, guard = None, None, None
    for st in ast.walk(fn):
        if isinstance(st, ast.If) and isinstance(st.test, ast.Name) and st.test.id == 'drop_disc':
            for c in _calls(st, attr='subset_neuron'):
                s = _kw(c, 'subset')
                if isinstance(s, ast.Subscript):
                    keep_ix = int(_const(s.slice))
                    nm = ast.unparse(s.value)
                    for a in ast.walk(st):
                        if isinstance(a, ast.Assign) and isinstance(a.targets[0], ast.Name) and a.targets[0].id == nm:
                            keep_src = ast.unparse(a.value)
            for c in ast.walk(st):
                if isinstance(c, ast.Compare) and 'len' in ast.unparse(c.left) and type(c.ops[0]) in OPS:
                    guard = f'{OPS[type(c.ops[0])]}{_const(c.comparators[0])}'
    if keep_ix is None or keep_src is None:
        raise Missing('heal_skeleton: drop_disc branch not recognised')
    f['drop_keep_ix'], f['drop_keep_src'], f['drop_guard'] = keep_ix, keep_src, guard
    f['copies'] = any(isinstance(st, ast.If) and isinstance(st.test, ast.UnaryOp) and isinstance(st.test.op, ast.Not)
                      and 'inplace' in _names(st.test) and any('copy' in ast.unparse(b) for b in st.body) for st in ast.walk(fn))
    f['map_units'] = any(True for c in _calls(fn, attr='map_units') if c.args and 'max_dist' in _names(c.args[0]))
    return f


def mst_facts(fn):
    f = {}
    f['defaults'] = {k: ast.unparse(v) for k, v in _defaults(fn).items()}
    # boolean mask -> ids
    col = None
    for st in ast.walk(fn):
        if isinstance(st, ast.If) and isinstance(st.test, ast.Compare) and 'dtype' in ast.unparse(st.test.left) \
                and ast.unparse(st.test.comparators[0]) == 'bool':
            for a in ast.walk(st):
                if isinstance(a, ast.Assign) and isinstance(a.targets[0], ast.Name) and a.targets[0].id == 'mask' \
                        and isinstance(a.value, ast.Subscript) and isinstance(a.value.slice, ast.Name) and a.value.slice.id == 'mask':
                    ch = _chain(a.value.value)
                    if ch and ch[-1] == 'values':
                        ch = ch[:-1]
                    col = ch[-1] if ch else ast.unparse(a.value.value)
    if col is None:
        raise Missing('_stitch_mst: boolean mask conversion not found')
    f['bool_mask_col'] = col
    # filters: every `.isin(...)`
    order = []
    for st in fn.body:
        for c in _calls(st, attr='isin'):
            arg = c.args[0]
            recv = c.func.value
            if isinstance(recv, ast.Subscript):
                rc = str(_const(recv.slice))
            else:
                ch = _chain(recv)
                rc = ch[-1] if ch else ast.unparse(recv)
            if isinstance(arg, ast.List):
                f['leaf_types'] = [_const(e) for e in arg.elts]
                f['leaf_col'] = rc
                order.append(('nodes', st.lineno))
            elif 'mask' in _names(arg):
                f['mask_col'] = rc
                order.append(('mask', st.lineno))
            elif 'nodes' in _names(arg):
                f['list_col'] = rc
                order.append(('nodes', st.lineno))
            elif 'above' in _names(arg) or 'min_size' in ast.unparse(st.test if isinstance(st, ast.If) else st)[:200]:
                order.append(('min_size', st.lineno))
    for k in ('leaf_types', 'leaf_col', 'mask_col', 'list_col'):
        if k not in f:
            raise Missing(f'_stitch_mst: {k} not found')
    ms = [l for k, l in order if k == 'min_size']
    others = [l for k, l in order if k != 'min_size']
    if not ms:
        raise Missing('_stitch_mst: min_size filter not found')
    f['min_size_first'] = max(ms) <= min(others)
    hits = _cmp_with(fn, 'min_size')
    if len(hits) != 1:
        raise Missing(f'_stitch_mst: comparison with min_size: {hits}')
    f['min_size_op'] = hits[0][0]
    f['min_size_counts'] = any(True for c in _calls(fn, attr='value_counts'))
    lit = [c for c in ast.walk(fn) if isinstance(c, ast.Compare) and isinstance(c.left, ast.Name) and c.left.id == 'nodes'
           and isinstance(c.ops[0], ast.Eq) and isinstance(c.comparators[0], ast.Constant)]
    f['leafs_literal'] = _const(_one(lit, '_stitch_mst: nodes == "<literal>"').comparators[0])
    # kd-tree query
    q = _one(_calls(fn, attr='query'), '_stitch_mst: kd.query')
    ub = _kw(q, 'distance_upper_bound')
    f['upper_bound'] = ast.unparse(ub) if ub is not None else 'none'
    f['query_tree'] = ast.unparse(q.func.value)
    f['query_points'] = ast.unparse(q.args[0]) if q.args else '?'
    qa = None
    for a in ast.walk(fn):
        if isinstance(a, ast.Assign) and a.value is q and isinstance(a.targets[0], ast.Tuple):
            qa = [ast.unparse(e) for e in a.targets[0].elts]
    if not qa or len(qa) != 2:
        raise Missing('_stitch_mst: `distances, indexes = kd.query(...)` not found')
    dist_n, idx_n = qa
    asg = {a.targets[0].id: a.value for a in ast.walk(fn) if isinstance(a, ast.Assign) and len(a.targets) == 1 and isinstance(a.targets[0], ast.Name)}
    am = _one(_calls(fn, attr='argmin'), '_stitch_mst: np.argmin')
    f['argmin_over_distances'] = ast.unparse(am.args[0]) == dist_n
    ib = [k for k, v in asg.items() if v is am]
    if len(ib) != 1:
        raise Missing('_stitch_mst: index of the argmin not bound to a name')
    ib = ib[0]
    ia = [k for k, v in asg.items() if ast.unparse(v) == f'{idx_n}[{ib}]']
    tree_frag = f['query_tree'].split('.')[0]
    first = {}
    for a in ast.walk(fn):
        if isinstance(a, ast.Assign) and len(a.targets) == 1 and isinstance(a.targets[0], ast.Name):
            if a.targets[0].id not in first or a.lineno < first[a.targets[0].id].lineno:
                first[a.targets[0].id] = a
    pts = first[f['query_points']].value if f['query_points'] in first else None
    pts_frag = ast.unparse(pts).split('.')[0] if pts is not None else '?'
    edge = _one(_calls(fn, attr='add_edge'), '_stitch_mst: frag_graph.add_edge')
    ekw = {kw.arg: ast.unparse(kw.value) for kw in edge.keywords}

    def src(nm):
        return ast.unparse(asg[nm]) if nm in asg else nm
    ok = bool(ia)
    if ok:
        ia = ia[0]
        na, nb, dd = src(ekw.get('node_a', '?')), src(ekw.get('node_b', '?')), src(ekw.get('distance', '?'))
        ok = (na == f'{tree_frag}.node_ids[{ia}]' and nb == f'{pts_frag}.node_ids[{ib}]' and dd == f'{dist_n}[{ib}]')
        ok = ok and [ast.unparse(x) for x in edge.args] == [f'{tree_frag}.frag_id', f'{pts_frag}.frag_id']
    f['pair_indexing'] = ok
    mst = _one(_calls(fn, attr='minimum_spanning_edges'), '_stitch_mst: nx.minimum_spanning_edges')
    w = _kw(mst, 'weight')
    f['mst_weight_is_distance'] = w is not None and _const(w) in ekw and _const(w) == 'distance'
    f['mst_graph_is_frag_graph'] = ast.unparse(mst.args[0]) == ast.unparse(edge.func.value)
    f['pairs'] = any(True for c in _calls(fn, name='combinations') if len(c.args) == 2 and _const(c.args[1]) == 2)
    # added edges come from the node_a / node_b attributes
    f['to_add_nodes'] = any(isinstance(a, ast.ListComp) and "['node_a']" in ast.unparse(a.elt) and "['node_b']" in ast.unparse(a.elt)
                            for a in ast.walk(fn))
    # single component: return untouched
    f['single_returns'] = any(isinstance(st, ast.If) and isinstance(st.test, ast.Compare) and ast.unparse(st.test) == 'len(cc) == 1'
                              and any(isinstance(b, ast.Return) for b in st.body) for st in ast.walk(fn))
    # which values of max_dist mean "no limit": the test of the `if` whose body sets `max_dist = np.inf`
    sentinels = None
    for st in ast.walk(fn):
        if isinstance(st, ast.If) and any(isinstance(b, ast.Assign) and isinstance(b.targets[0], ast.Name) and b.targets[0].id == 'max_dist'
                                          and 'inf' in ast.unparse(b.value) for b in st.body):
            terms = st.test.values if isinstance(st.test, ast.BoolOp) and isinstance(st.test.op, ast.Or) else [st.test]
            sentinels = []
            for t in terms:
                if isinstance(t, ast.Compare) and len(t.ops) == 1 and isinstance(t.ops[0], ast.Is) and isinstance(t.left, ast.Name) \
                        and t.left.id == 'max_dist' and isinstance(t.comparators[0], ast.Constant):
                    sentinels.append(repr(t.comparators[0].value))
                elif isinstance(t, ast.Call) and ast.unparse(t) in ('isinstance(max_dist, type(None))',):
                    sentinels.append('None')
                elif isinstance(t, ast.UnaryOp) and isinstance(t.op, ast.Not) and ast.unparse(t.operand) == 'max_dist':
                    sentinels.append('<falsy>')          # `not max_dist`: None, False, 0, 0.0, '' ...
                else:
                    sentinels.append('<' + ast.unparse(t) + '>')
    if sentinels is None:
        raise Missing('_stitch_mst: the `max_dist = np.inf` default branch not found')
    f['unlimited_max_dist'] = sorted(set(sentinels), key=lambda v: ['True', 'False', 'None'].index(v) if v in ('True', 'False', 'None') else 9)
    rw = _one(_calls(fn, attr='rewire_skeleton'), '_stitch_mst: rewire_skeleton')
    f['rewire_inplace'] = ast.unparse(_kw(rw, 'inplace')) if _kw(rw, 'inplace') is not None else 'none'
    return f


def stitch_facts(fn):
    f = {}
    f['defaults'] = {k: ast.unparse(v) for k, v in _defaults(fn).items()}
    am = None
    for a in ast.walk(fn):
        if isinstance(a, ast.Assign) and isinstance(a.targets[0], ast.Name) and a.targets[0].id == 'ALLOWED_MASTER':
            am = [_const(e) for e in a.value.elts]
    if am is None:
        raise Missing('stitch_skeletons: ALLOWED_MASTER not found')
    f['allowed_master'] = am
    f['master_upper'] = any(isinstance(a, ast.Assign) and isinstance(a.targets[0], ast.Name) and a.targets[0].id == 'master'
                            and 'upper' in ast.unparse(a.value) for a in ast.walk(fn))
    # master picks
    picks = {}

    def visit_if(st):
        t = st.test
        if isinstance(t, ast.Compare) and isinstance(t.left, ast.Name) and t.left.id == 'master' and isinstance(t.ops[0], ast.Eq):
            lit = _const(t.comparators[0])
            for a in st.body:
                if isinstance(a, ast.Assign) and isinstance(a.targets[0], ast.Name) and a.targets[0].id == 'm_ix':
                    picks[lit] = a.value
            if len(st.orelse) == 1 and isinstance(st.orelse[0], ast.If):
                visit_if(st.orelse[0])
            else:
                for a in st.orelse:
                    if isinstance(a, ast.Assign) and isinstance(a.targets[0], ast.Name) and a.targets[0].id == 'm_ix':
                        picks['<else>'] = a.value
    for st in fn.body:
        if isinstance(st, ast.If):
            visit_if(st)
    if set(picks) != {'SOMA', 'LARGEST', '<else>'}:
        raise Missing(f'stitch_skeletons: master branches {sorted(picks)}')
    s = picks['SOMA']
    f['soma_pick'] = ('first-with-soma' if isinstance(s, ast.Subscript) and _const(s.slice) == 0 and isinstance(s.value, ast.ListComp)
                      and 'has_soma' in ast.unparse(s.value) else ast.unparse(s))
    lg = picks['LARGEST']
    srt = lg.value if isinstance(lg, ast.Subscript) else None
    if not (isinstance(srt, ast.Call) and isinstance(srt.func, ast.Name) and srt.func.id == 'sorted'):
        raise Missing('stitch_skeletons: LARGEST pick is not sorted(...)[k]')
    f['largest_key'] = 'n_nodes' if 'n_nodes' in ast.unparse(_kw(srt, 'key')) else ast.unparse(_kw(srt, 'key'))
    f['largest_reverse'] = bool(_const(_kw(srt, 'reverse'))) if _kw(srt, 'reverse') is not None else False
    f['largest_ix'] = int(_const(lg.slice))
    f['first_ix'] = int(_const(picks['<else>']))
    f['soma_fallback'] = any(isinstance(st, ast.If) and 'has_soma' in ast.unparse(st.test) and 'not any' in ast.unparse(st.test)
                             and any(isinstance(b, ast.Assign) and ast.unparse(b.value) == "'LARGEST'" for b in st.body) for st in fn.body)
    # the remap loop
    loop = None
    for st in ast.walk(fn):
        if isinstance(st, ast.For) and 'enumerate' in ast.unparse(st.iter) and any(
                isinstance(a, ast.Assign) and isinstance(a.targets[0], ast.Name) and a.targets[0].id == 'new_map' for a in ast.walk(st)):
            loop = st
    if loop is None:
        raise Missing('stitch_skeletons: remap loop not found')
    f['skip_master'] = any(isinstance(st, ast.If) and ast.unparse(st.test) in ('i == m_ix', 'm_ix == i')
                           and any(isinstance(b, ast.Continue) for b in st.body) for st in loop.body)
    asg = [a for a in ast.walk(loop) if isinstance(a, ast.Assign) and len(a.targets) == 1]
    named = {}
    for a in asg:
        if isinstance(a.targets[0], ast.Name):
            named.setdefault(a.targets[0].id, []).append(a)
    this_n = [k for k, v in named.items() if any('node_id' in ast.unparse(x.value) and 'set' in ast.unparse(x.value) for x in v) and k != 'seen_tn']
    if len(this_n) != 1:
        raise Missing('stitch_skeletons: the set of this neuron\'s ids not found')
    this_n = this_n[0]
    clash = _one(named.get('non_unique', []), 'stitch_skeletons: non_unique')
    if not (isinstance(clash.value, ast.BinOp) and isinstance(clash.value.op, ast.BitAnd) and _names(clash.value) == {'seen_tn', this_n}):
        raise Missing(f'stitch_skeletons: clash set is {ast.unparse(clash.value)}')
    f['clash'] = 'seen & this'
    new_tn = _one(named.get('new_tn', []), 'stitch_skeletons: new_tn')
    # np.arange(start, len(non_unique)) + max(<set>) + k
    terms = []

    def flat(e):
        if isinstance(e, ast.BinOp) and isinstance(e.op, ast.Add):
            flat(e.left); flat(e.right)
        else:
            terms.append(e)
    flat(new_tn.value)
    start = count = maxof = None
    plus = 0
    for t in terms:
        if isinstance(t, ast.Call) and isinstance(t.func, ast.Attribute) and t.func.attr == 'arange':
            if len(t.args) == 2:
                start, count = int(_const(t.args[0])), ast.unparse(t.args[1])
            else:
                start, count = 0, ast.unparse(t.args[0])
        elif isinstance(t, ast.Call) and isinstance(t.func, ast.Name) and t.func.id == 'max':
            maxof = ast.unparse(t.args[0])
        elif isinstance(t, ast.Constant):
            plus += int(t.value)
        else:
            raise Missing(f'stitch_skeletons: unexpected term in new_tn: {ast.unparse(t)}')
    if start is None or maxof is None:
        raise Missing('stitch_skeletons: fresh id formula not recognised')
    f['fresh_start'], f['fresh_count'], f['fresh_max_of'], f['fresh_plus'] = start, count, maxof, plus
    # seen updates
    upd = [a for a in named.get('seen_tn', []) if isinstance(a.value, ast.BinOp) and isinstance(a.value.op, ast.BitOr)]
    own = [a for a in upd if this_n in _names(a.value)]
    fresh = [a for a in upd if this_n not in _names(a.value)]
    if len(own) != 1 or len(fresh) != 1:
        raise Missing(f'stitch_skeletons: seen-set updates: {[ast.unparse(a) for a in upd]}')
    f['own_before_max'] = own[0].lineno < new_tn.lineno
    # the own-ids update must not sit inside the `if non_unique:` branch after the formula, i.e. be unconditional or earlier
    f['fresh_added'] = sorted(_names(fresh[0].value) - {'seen_tn', 'set'})
    f['fresh_added_after'] = fresh[0].lineno > new_tn.lineno
    init = [a for a in ast.walk(fn) if isinstance(a, ast.AnnAssign) and isinstance(a.target, ast.Name) and a.target.id == 'seen_tn']
    init += [a for a in ast.walk(fn) if isinstance(a, ast.Assign) and isinstance(a.targets[0], ast.Name) and a.targets[0].id == 'seen_tn'
             and a not in upd]
    f['seen_init'] = ast.unparse(_one(init, 'stitch_skeletons: initial seen set').value)
    nm = _one(named.get('new_map', []), 'stitch_skeletons: new_map')
    f['new_map'] = ast.unparse(nm.value)
    # remap targets
    targets = {}
    for a in asg:
        t = a.targets[0]
        gets = [c for c in _calls(a.value, attr='get') if isinstance(c.func.value, ast.Name) and c.func.value.id == 'new_map']
        if not gets:
            continue
        ident = all(len(c.args) == 2 and ast.unparse(c.args[0]) == ast.unparse(c.args[1]) for c in gets)
        if isinstance(t, ast.Subscript):
            key = f'{ast.unparse(t.value).split(".")[-1]}.{_const(t.slice)}'
            srcs = [c for c in _calls(a.value, attr='map')]
            srccol = _chain(srcs[0].func.value)[-1] if srcs and _chain(srcs[0].func.value) else '?'
        elif isinstance(t, ast.Attribute):
            key = t.attr
            srccol = 'tags' if 'tags' in ast.unparse(a.value) else '?'
        else:
            continue
        targets[key] = (ident, srccol)
    f['remap_targets'] = targets
    f['dup_guard'] = any(isinstance(st, ast.If) and 'duplicated' in ast.unparse(st.test) and "'node_id'" in ast.unparse(st.test) for st in fn.body)
    # concatenation, tags merge
    cc = {}
    for a in ast.walk(fn):
        if isinstance(a, ast.Assign) and isinstance(a.targets[0], ast.Attribute) and a.targets[0].attr in ('_nodes', '_connectors') \
                and isinstance(a.value, ast.Call) and ast.unparse(a.value.func).endswith('concat'):
            lc = a.value.args[0]
            cc[a.targets[0].attr] = (ast.unparse(lc.elt), ast.unparse(lc.generators[0].iter)) if isinstance(lc, ast.ListComp) else ('?', '?')
    f['concat'] = cc
    f['tags_append'] = any(isinstance(a, ast.Assign) and isinstance(a.targets[0], ast.Subscript) and ast.unparse(a.targets[0].value) == 'tags'
                           and isinstance(a.value, ast.BinOp) and isinstance(a.value.op, ast.Add) and 'tags.get' in ast.unparse(a.value.left)
                           for a in ast.walk(fn))
    none_lit = [c for c in ast.walk(fn) if isinstance(c, ast.Compare) and isinstance(c.left, ast.Name) and c.left.id == 'method'
                and isinstance(c.ops[0], ast.Eq) and isinstance(c.comparators[0], ast.Constant) and isinstance(c.comparators[0].value, str)]
    f['none_literal'] = _const(_one(none_lit, 'stitch_skeletons: method == "<literal>"').comparators[0])
    call = _one(_calls(fn, name='_stitch_mst'), 'stitch_skeletons: call of _stitch_mst')
    f['forward'] = {kw.arg: ast.unparse(kw.value) for kw in call.keywords}
    f['copies_inputs'] = any('copy' in ast.unparse(a.value) and 'NeuronList' in ast.unparse(a.value) for a in ast.walk(fn)
                             if isinstance(a, ast.Assign))
    return f


def combine_facts(fn):
    call = _one(_calls(fn, name='stitch_skeletons'), 'combine_neurons: call of stitch_skeletons')
    return {kw.arg: _const(kw.value) for kw in call.keywords}


def break_facts(fn):
    f = {'reverse': _sorted_reverse(fn, 'break_fragments')}
    hits = _cmp_with(fn, 'min_size')
    if len(hits) != 1:
        raise Missing(f'break_fragments: comparison with min_size: {hits}')
    f['op'], f['lhs'] = hits[0]
    return f


def fluff_facts(fn):
    f = {'reverse': _sorted_reverse(fn, 'drop_fluff')}
    hits = _cmp_with(fn, 'keep_size')
    if len(hits) != 1:
        raise Missing(f'drop_fluff: comparison `… OP keep_size`: {hits}')
    f['op'], f['lhs'] = hits[0]
    fr = _cmp_with(fn, 'keep_size', side='left')
    if len(fr) != 1:
        raise Missing(f'drop_fluff: fraction test: {fr}')
    f['frac_op'], f['frac_rhs'] = fr[0][0], fr[0][1]
    f['frac_scale'] = any(isinstance(a, ast.Assign) and isinstance(a.targets[0], ast.Name) and a.targets[0].id == 'keep_size'
                          and isinstance(a.value, ast.BinOp) and isinstance(a.value.op, ast.Mult) and 'len' in ast.unparse(a.value)
                          for a in ast.walk(fn))
    sl = [s for s in ast.walk(fn) if isinstance(s, ast.Subscript) and isinstance(s.slice, ast.Slice) and s.slice.lower is None
          and s.slice.upper is not None and ast.unparse(s.slice.upper) == 'n_largest']
    f['prefix_slice'] = len(sl) >= 1 and all(s.slice.step is None for s in sl)
    dflt = [a for a in ast.walk(fn) if isinstance(a, ast.Assign) and isinstance(a.targets[0], ast.Name) and a.targets[0].id == 'keep'
            and isinstance(a.value, ast.Subscript) and isinstance(a.value.slice, ast.Constant)]
    f['default_ix'] = int(_const(_one(dflt, 'drop_fluff: default `keep = cc[k]`').value.slice))
    sub = _one(_calls(fn, attr='subset_neuron'), 'drop_fluff: subset_neuron')
    f['keep_disc_cn'] = ast.unparse(_kw(sub, 'keep_disc_cn')) if _kw(sub, 'keep_disc_cn') is not None else 'none'
    return f


# ------------------------------------------------------------------------------------------------------------------
def _strs(l):
    return '[' + ', '.join('"' + str(x).replace('"', '\\"') + '"' for x in l) + ']'


def _b(x):
    return 'true' if x else 'false'


def _s(x):
    return '"' + str(x).replace('\\', '\\\\').replace('"', '\\"') + '"'


def generate(repo: Path):
    path = repo / 'navis' / 'morpho' / 'manipulation.py'
    tree = ast.parse(path.read_text())
    H = heal_facts(_func(tree, 'heal_skeleton'))
    M = mst_facts(_func(tree, '_stitch_mst'))
    S = stitch_facts(_func(tree, 'stitch_skeletons'))
    C = combine_facts(_func(tree, 'combine_neurons'))
    B = break_facts(_func(tree, 'break_fragments'))
    F = fluff_facts(_func(tree, 'drop_fluff'))

    tg = S['remap_targets']
    want_t = ['nodes.node_id', 'connectors.node_id', 'tags', 'nodes.parent_id']
    tlist = [(k, tg[k][0], tg[k][1]) for k in want_t if k in tg] + [(k, v[0], v[1]) for k, v in sorted(tg.items()) if k not in want_t]
    lean = f'''/- GENERATED by translator/gen_heal.py from navis/morpho/manipulation.py.
   Do not edit: regenerated from the current source tree on every `./check C11`. -/
namespace Navis.Gen.Heal

/-! ### `heal_skeleton` -/
/-- `if method not in (…)` after `method = str(method).upper()` -/
def healMethods : List String := {_strs(H['methods'])}
def healMethodUpper : Bool := {_b(H['upper'])}
/-- default arguments (source text) -/
def healDefaults : List (String × String) := [{', '.join(f'({_s(k)}, {_s(v)})' for k, v in H['defaults'].items())}]
/-- `_stitch_mst({H['first_arg']}, …)`: keyword ↦ argument -/
def healForward : List (String × String) := [{', '.join(f'({_s(k)}, {_s(v)})' for k, v in sorted(H['forward'].items()))}]
/-- `drop_disc`: `subset_neuron(x, subset=<{H['drop_keep_src']}>[{H['drop_keep_ix']}], …)` when `len(…) {H['drop_guard']}` -/
def dropDiscSource : String := {_s(H['drop_keep_src'])}
def dropDiscIndex : Nat := {H['drop_keep_ix']}
def dropDiscGuard : String := {_s(H['drop_guard'])}
def healCopiesUnlessInplace : Bool := {_b(H['copies'])}
def healMaxDistMapUnits : Bool := {_b(H['map_units'])}

/-! ### `_stitch_mst` -/
/-- `mask = x.nodes.<column>.values[mask]` for a boolean mask -/
def boolMaskColumn : String := {_s(M['bool_mask_col'])}
/-- `to_use.<column>.isin(mask)` / `to_use.<column>.isin(make_iterable(nodes))` -/
def maskFilterColumn : String := {_s(M['mask_col'])}
def listFilterColumn : String := {_s(M['list_col'])}
/-- `nodes == "<literal>"` ⇒ `to_use["<column>"].isin([…])` -/
def leafsLiteral : String := {_s(M['leafs_literal'])}
def leafColumn : String := {_s(M['leaf_col'])}
def leafTypes : List String := {_strs(M['leaf_types'])}
/-- `sizes[sizes {M['min_size_op']} min_size]` with `sizes = cc.value_counts()` taken before the node filters -/
def minSizeKeeps (size minSize : Nat) : Bool := decide (size {M['min_size_op']} minSize)
def minSizeCountsAllNodes : Bool := {_b(M['min_size_first'] and M['min_size_counts'])}
/-- `{M['query_tree']}.query({M['query_points']}, distance_upper_bound=…)` -/
def queryUpperBound : String := {_s(M['upper_bound'])}
def argminOverQueryDistances : Bool := {_b(M['argmin_over_distances'])}
/-- `index_a = indexes[index_b]`, `node_a = frag_a.node_ids[index_a]`, `node_b = frag_b.node_ids[index_b]`,
`distance = distances[index_b]`, edge `(frag_a.frag_id, frag_b.frag_id)` -/
def pairIndexing : Bool := {_b(M['pair_indexing'])}
def mstWeightIsDistance : Bool := {_b(M['mst_weight_is_distance'] and M['mst_graph_is_frag_graph'])}
def allFragmentPairs : Bool := {_b(M['pairs'])}
def addedEdgesFromPairNodes : Bool := {_b(M['to_add_nodes'])}
def singleComponentReturnsInput : Bool := {_b(M['single_returns'])}
/-- the values of `max_dist` that mean "no limit" (the test guarding `max_dist = np.inf`); `<falsy>` stands for `not max_dist`,
which would also swallow the number 0 -/
def unlimitedMaxDist : List String := {_strs(M['unlimited_max_dist'])}
/-- every one of them is one of the non-numeric sentinels `True` / `False` / `None`: a numeric `max_dist` — 0 included — is a limit -/
def numericMaxDistIsLimit : Bool := {_b(all(v in ('True', 'False', 'None') for v in M['unlimited_max_dist']))}
def rewireInplaceArg : String := {_s(M['rewire_inplace'])}

/-! ### `stitch_skeletons` -/
def allowedMaster : List String := {_strs(S['allowed_master'])}
def stitchDefaults : List (String × String) := [{', '.join(f'({_s(k)}, {_s(v)})' for k, v in S['defaults'].items())}]
def masterUpper : Bool := {_b(S['master_upper'])}
def somaPick : String := {_s(S['soma_pick'])}
def somaFallsBackToLargest : Bool := {_b(S['soma_fallback'])}
def largestKey : String := {_s(S['largest_key'])}
def largestReverse : Bool := {_b(S['largest_reverse'])}
def largestIndex : Nat := {S['largest_ix']}
def firstIndex : Nat := {S['first_ix']}
def skipMaster : Bool := {_b(S['skip_master'])}
def duplicateGuardColumnIsNodeId : Bool := {_b(S['dup_guard'])}
def seenInit : String := {_s(S['seen_init'])}
def clashSet : String := {_s(S['clash'])}
/-- the neuron's own ids are united into the seen set BEFORE `max(seen)` is taken -/
def ownIdsSeenBeforeMax : Bool := {_b(S['own_before_max'])}
/-- `np.arange({S['fresh_start']}, {S['fresh_count']}) + max({S['fresh_max_of']}) + {S['fresh_plus']}` -/
def freshId (mx : Int) (k : Nat) : Int := ({S['fresh_start']} + (k : Int)) + mx + {S['fresh_plus']}
def freshCount : String := {_s(S['fresh_count'])}
def freshMaxOf : String := {_s(S['fresh_max_of'])}
def newMap : String := {_s(S['new_map'])}
/-- what is united into the seen set after the remap -/
def freshAddedToSeen : List String := {_strs(S['fresh_added'])}
def freshAddedAfterFormula : Bool := {_b(S['fresh_added_after'])}
/-- assignments that go through `new_map.get(k, d)`: (target, `d` is the key itself, source column) -/
def remapTargets : List (String × Bool × String) := [{', '.join(f'({_s(k)}, {_b(i)}, {_s(c)})' for k, i, c in tlist)}]
def concatNodes : String × String := ({_s(S['concat'].get('_nodes', ('?', '?'))[0])}, {_s(S['concat'].get('_nodes', ('?', '?'))[1])})
def concatConnectors : String × String := ({_s(S['concat'].get('_connectors', ('?', '?'))[0])}, {_s(S['concat'].get('_connectors', ('?', '?'))[1])})
def tagsAppended : Bool := {_b(S['tags_append'])}
def noneLiteral : String := {_s(S['none_literal'])}
def stitchForward : List (String × String) := [{', '.join(f'({_s(k)}, {_s(v)})' for k, v in sorted(S['forward'].items()))}]
def stitchCopiesInputs : Bool := {_b(S['copies_inputs'])}

/-! ### `combine_neurons` -/
def combineArgs : List (String × String) := [{', '.join(f'({_s(k)}, {_s(v)})' for k, v in sorted(C.items()))}]

/-! ### `break_fragments` / `drop_fluff` -/
def breakLargestFirst : Bool := {_b(B['reverse'])}
/-- `{B['lhs']} {B['op']} min_size` -/
def breakKeeps (size minSize : Nat) : Bool := decide (size {B['op']} minSize)
def fluffLargestFirst : Bool := {_b(F['reverse'])}
/-- `{F['lhs']} {F['op']} keep_size` -/
def fluffKeeps (size keepSize : Nat) : Bool := decide (size {F['op']} keepSize)
/-- `keep_size {F['frac_op']} {F['frac_rhs']}` ⇒ `keep_size = len(G.nodes) * keep_size`; `keep_size = num / den` -/
def fluffIsFraction (num den : Nat) : Bool := decide (num {F['frac_op']} {F['frac_rhs']} * den)
def fluffFractionOfNodeCount : Bool := {_b(F['frac_scale'])}
def fluffPrefixSlice : Bool := {_b(F['prefix_slice'])}
def fluffDefaultIndex : Nat := {F['default_ix']}
def fluffKeepDiscCn : String := {_s(F['keep_disc_cn'])}

end Navis.Gen.Heal
'''
    meta = dict(source=str(path.relative_to(repo)), heal=H, stitch_mst={k: v for k, v in M.items()},
                stitch={k: (v if k != 'remap_targets' else {a: list(b) for a, b in v.items()}) for k, v in S.items()},
                combine=C, break_fragments=B, drop_fluff=F)
    return 'Heal.lean', lean, meta
