"""Translator for C16: re-extract the declarative facts of navis' transform code from the *current* source
(`navis/transforms/base.py`, `navis/transforms/xfm_funcs.py`, `navis/transforms/templates.py`; read as text, walked
with `ast`; nothing is imported from navis) and emit them as Lean definitions (`Gen/XformFacts.lean`).
`Props/C16.lean` §10 proves theorems over these definitions, so that an edit of

* `TransformSequence.__neg__`: whether the members are walked in REVERSED order and whether each is negated;
* `TransformSequence.xform`: whether the working array is a copy of the caller's points (`.astype(...)`, `.copy()`,
  `np.array(...)` copy; `np.asarray(..., dtype=…)` is not), whether members are applied in list order;
* `xfm_funcs.xform`: the order in which points / helper points / connectors are stacked, the slice bounds with which
  every part is cut back out of the transformed block (which count, negated or doubled), the `> 1` guard of the
  scale guess, the operators and base with which radius / units / soma radius follow the magnitude, the scale of
  the helper points;
* `xfm_funcs.mirror`: the axis -> index table and the entries written into the flip matrix;
* `templates.mirror_brain` / `symmetrize_brain`: how the axis size is read from each bounding-box layout, under which
  `isinstance` branches faces are re-wound, the helper-point factor, the side test and the warp of the flip back;
* `xfm_funcs._xform_image` / `_get_coordinates_map`: interpolation order, that the pull-back goes through
  `-transform`, the three index <-> world expressions

makes a theorem stop checking.  Facts are semantic (roles, operators, bounds), not a fingerprint: renamed locals,
reordered independent statements, comments and log lines keep the tie.  Anything the extractor cannot find in the
expected shape raises (a broken tie is reported, never guessed)."""
import ast
from pathlib import Path

PROPS = ['C16']


# ------------------------------------------------------------------------------------------------ helpers
def _func(tree, name, cls=None):
    body = tree.body
    if cls:
        for n in body:
            if isinstance(n, ast.ClassDef) and n.name == cls:
                body = n.body
                break
        else:
            raise ValueError(f'class {cls} not found')
    for n in body:
        if isinstance(n, ast.FunctionDef) and n.name == name:
            return n
    raise ValueError(f'function {cls + "." if cls else ""}{name} not found')


def lstr(s):
    return '"' + str(s).replace('\\', '\\\\').replace('"', '\\"') + '"'


def lbool(b):
    return 'true' if b else 'false'


def lint(i):
    return f'({int(i)})' if int(i) < 0 else str(int(i))


def _is_self_attr(n, attr):
    return isinstance(n, ast.Attribute) and n.attr == attr and isinstance(n.value, ast.Name) and n.value.id == 'self'


def _minus_one(n):
    if isinstance(n, ast.Constant) and n.value == -1:
        return True
    return isinstance(n, ast.UnaryOp) and isinstance(n.op, ast.USub) and isinstance(n.operand, ast.Constant) and n.operand.value == 1


def _order_of(it, attr, who):
    """how a loop / comprehension walks `self.<attr>`: 'forward' | 'reversed'"""
    if _is_self_attr(it, attr):
        return 'forward'
    if isinstance(it, ast.Call) and isinstance(it.func, ast.Name) and it.func.id in ('list', 'tuple') and len(it.args) == 1:
        return _order_of(it.args[0], attr, who)
    if isinstance(it, ast.Call) and isinstance(it.func, ast.Name) and it.func.id == 'reversed' and len(it.args) == 1 \
            and _order_of(it.args[0], attr, who) == 'forward':
        return 'reversed'
    if isinstance(it, ast.Subscript) and _is_self_attr(it.value, attr) and isinstance(it.slice, ast.Slice) \
            and it.slice.lower is None and it.slice.upper is None:
        if it.slice.step is None:
            return 'forward'
        if _minus_one(it.slice.step):
            return 'reversed'
    raise ValueError(f'{who}: cannot tell in which order `self.{attr}` is walked: {ast.unparse(it)}')


# ------------------------------------------------------------------------------------------------ base.py
def neg_facts(tree):
    fn = _func(tree, '__neg__', 'TransformSequence')
    comps = [n for n in ast.walk(fn) if isinstance(n, (ast.ListComp, ast.GeneratorExp))]
    if len(comps) != 1 or len(comps[0].generators) != 1:
        raise ValueError('TransformSequence.__neg__: expected exactly one comprehension over the members')
    c = comps[0]
    g = c.generators[0]
    if not isinstance(g.target, ast.Name) or g.ifs:
        raise ValueError('TransformSequence.__neg__: unexpected comprehension shape')
    order = _order_of(g.iter, 'transforms', 'TransformSequence.__neg__')
    e = c.elt
    if isinstance(e, ast.UnaryOp) and isinstance(e.op, ast.USub) and isinstance(e.operand, ast.Name) and e.operand.id == g.target.id:
        inverts = True
    elif isinstance(e, ast.Name) and e.id == g.target.id:
        inverts = False
    else:
        raise ValueError(f'TransformSequence.__neg__: unexpected element expression {ast.unparse(e)}')
    return {'reversed': order == 'reversed', 'inverts': inverts}


def _copies(e, who):
    """does evaluating `e` always give a NEW array (never the caller's buffer)?"""
    if isinstance(e, ast.Call):
        f = e.func
        kw = {k.arg: k.value for k in e.keywords}
        nocopy = 'copy' in kw and isinstance(kw['copy'], ast.Constant) and kw['copy'].value in (False, None)
        if isinstance(f, ast.Attribute) and f.attr in ('astype', 'copy'):
            return not nocopy
        if isinstance(f, ast.Attribute) and f.attr == 'array' and isinstance(f.value, ast.Name) and f.value.id in ('np', 'numpy'):
            return not nocopy
        if isinstance(f, ast.Attribute) and f.attr in ('asarray', 'asanyarray', 'ascontiguousarray', 'asfortranarray', 'atleast_2d'):
            return False
        if isinstance(f, ast.Attribute) and f.attr in ('vstack', 'hstack', 'concatenate', 'zeros', 'empty', 'ones', 'full'):
            return True
    if isinstance(e, ast.Name):
        return False
    raise ValueError(f'{who}: cannot tell whether `{ast.unparse(e)}` copies its input')


def seq_xform_facts(tree):
    fn = _func(tree, 'xform', 'TransformSequence')
    points = fn.args.args[1].arg
    loops = [n for n in fn.body if isinstance(n, ast.For)]
    loop = None
    for l in loops:
        try:
            order = _order_of(l.iter, 'transforms', 'TransformSequence.xform')
        except ValueError:
            continue
        # the loop that applies the members writes into the working array
        bufs = {n.targets[0].value.id for n in ast.walk(l) if isinstance(n, ast.Assign) and len(n.targets) == 1
                and isinstance(n.targets[0], ast.Subscript) and isinstance(n.targets[0].value, ast.Name)}
        rebind = {n.targets[0].id for n in ast.walk(l) if isinstance(n, ast.Assign) and len(n.targets) == 1
                  and isinstance(n.targets[0], ast.Name) and isinstance(n.value, ast.Call)
                  and isinstance(n.value.func, ast.Attribute) and n.value.func.attr == 'xform'}
        if bufs or rebind:
            loop, loop_order, buf, inplace_write = l, order, (sorted(bufs) or sorted(rebind))[0], bool(bufs)
    if loop is None:
        raise ValueError('TransformSequence.xform: loop applying the members not found')
    # last binding of the working array before the loop (plain aliases `a = b` are followed)
    def binding(name):
        v = None
        for n in fn.body:
            if n is loop:
                break
            if isinstance(n, ast.Assign) and len(n.targets) == 1 and isinstance(n.targets[0], ast.Name) and n.targets[0].id == name:
                v = n.value
        return v
    init = binding(buf)
    for _ in range(5):
        if isinstance(init, ast.Name) and init.id != points and binding(init.id) is not None:
            init = binding(init.id)
    if init is None:
        if buf == points and inplace_write:
            copies, expr = False, points
        else:
            raise ValueError(f'TransformSequence.xform: initial binding of `{buf}` not found')
    else:
        expr = ast.unparse(init)
        copies = _copies(init, 'TransformSequence.xform') if inplace_write else True
        if not any(isinstance(x, ast.Name) and x.id == points for x in ast.walk(init)):
            raise ValueError(f'TransformSequence.xform: `{buf}` is not derived from `{points}`')
    return {'copies': copies, 'expr': expr, 'in_order': loop_order == 'forward'}


# ------------------------------------------------------------------------------------------------ xfm_funcs.xform
TABLES = ('nodes', 'points', 'vertices', 'connectors')


def _count_of(e):
    """`xf.n_nodes` | `xf.<tbl>.shape[0]` | `len(xf.<tbl>)`  ->  table name"""
    if isinstance(e, ast.Attribute) and e.attr.startswith('n_') and isinstance(e.value, ast.Name):
        t = e.attr[2:]
        return t if t in TABLES else None
    if isinstance(e, ast.Subscript) and isinstance(e.slice, ast.Constant) and e.slice.value == 0 \
            and isinstance(e.value, ast.Attribute) and e.value.attr == 'shape' \
            and isinstance(e.value.value, ast.Attribute) and e.value.value.attr in TABLES:
        return e.value.value.attr
    if isinstance(e, ast.Call) and isinstance(e.func, ast.Name) and e.func.id == 'len' and len(e.args) == 1 \
            and isinstance(e.args[0], ast.Attribute) and e.args[0].attr in TABLES:
        return e.args[0].attr
    return None


def _bound(e, who):
    if e is None:
        return ''
    t = _count_of(e)
    if t:
        return f'n:{t}'
    if isinstance(e, ast.UnaryOp) and isinstance(e.op, ast.USub) and _count_of(e.operand):
        return f'-n:{_count_of(e.operand)}'
    if isinstance(e, ast.BinOp) and isinstance(e.op, ast.Mult):
        for a, b in ((e.left, e.right), (e.right, e.left)):
            if _count_of(a) and isinstance(b, ast.Constant) and b.value == 2:
                return f'2n:{_count_of(a)}'
    raise ValueError(f'{who}: unexpected slice bound `{ast.unparse(e)}`')


def _target_role(t):
    """what an assignment target stands for"""
    if isinstance(t, ast.Subscript) and isinstance(t.value, ast.Attribute) and t.value.attr in ('nodes', 'connectors'):
        return t.value.attr
    if isinstance(t, ast.Attribute) and t.attr in ('points', 'vertices'):
        return t.attr
    if isinstance(t, ast.Name):
        return 'helpers' if t.id == 'hp' else t.id
    return None


def _pow10(e, var='magnitude'):
    return isinstance(e, ast.BinOp) and isinstance(e.op, ast.Pow) and isinstance(e.left, ast.Constant) \
        and isinstance(e.right, ast.Name) and e.right.id == var and e.left.value


def _num_factor(e):
    """product of the numeric constants multiplied into an expression (1 when there are none)"""
    f = 1
    for n in ast.walk(e):
        if isinstance(n, ast.BinOp) and isinstance(n.op, ast.Mult):
            for s in (n.left, n.right):
                if isinstance(s, ast.Constant) and isinstance(s.value, (int, float)):
                    f *= s.value
    return f


def _helper_expr(fn, who):
    """the expression building the helper points of a k-less Dotprops: must be points + vect * sampling_resolution * c"""
    for n in ast.walk(fn):
        if isinstance(n, ast.BinOp) and isinstance(n.op, ast.Add):
            attrs = {a.attr for a in ast.walk(n) if isinstance(a, ast.Attribute)}
            if {'points', 'vect'} <= attrs:
                if 'sampling_resolution' not in attrs:
                    raise ValueError(f'{who}: helper points are not scaled by the sampling resolution')
                left_attrs = {a.attr for a in ast.walk(n.left) if isinstance(a, ast.Attribute)}
                if 'points' not in left_attrs:
                    n = ast.BinOp(left=n.right, op=ast.Add(), right=n.left)
                return _num_factor(n)
    raise ValueError(f'{who}: helper point expression not found')


def xform_facts(tree):
    fn = _func(tree, 'xform')
    who = 'xfm_funcs.xform'
    # stacking order (statements ordered by line number: ast.walk is breadth-first)
    stack_stmts = sorted([n for n in ast.walk(fn) if isinstance(n, ast.Assign) and len(n.targets) == 1
                          and isinstance(n.targets[0], ast.Name) and n.targets[0].id == 'xyz'
                          and isinstance(n.value, ast.Call) and isinstance(n.value.func, ast.Attribute)
                          and n.value.func.attr in ('append', 'vstack', 'concatenate')], key=lambda n: n.lineno)
    order = ['points']
    for n in stack_stmts:
        if n.value.func.attr == 'append':
            a, b = n.value.args[0], n.value.args[1]
        else:
            a, b = n.value.args[0].elts
        first = isinstance(a, ast.Name) and a.id == 'xyz'
        other = b if first else a
        role = 'connectors' if 'connectors' in ast.unparse(other) else 'helpers'
        order = (order + [role]) if first else ([role] + order)
    # slices of the transformed block
    slices = []
    for n in ast.walk(fn):
        if isinstance(n, ast.Assign) and len(n.targets) == 1 and isinstance(n.value, ast.Subscript) \
                and isinstance(n.value.value, ast.Name) and n.value.value.id == 'xyz_xf' and isinstance(n.value.slice, ast.Slice):
            role = _target_role(n.targets[0])
            if role is None:
                raise ValueError(f'{who}: cannot tell what `{ast.unparse(n.targets[0])}` is')
            if n.value.slice.step is not None:
                raise ValueError(f'{who}: stepped slice of the transformed block')
            slices.append((n.lineno, role, _bound(n.value.slice.lower, who), _bound(n.value.slice.upper, who)))
    slices = [s[1:] for s in sorted(slices)]
    if sorted(s[0] for s in slices) != ['connectors', 'helpers', 'nodes', 'points', 'vertices']:
        raise ValueError(f'{who}: expected one slice each for nodes/points/helpers/vertices/connectors, found {[s[0] for s in slices]}')
    slices = sorted(slices)
    # guard of the scale guess
    guard = None
    for n in ast.walk(fn):
        if isinstance(n, ast.If) and isinstance(n.test, ast.Compare) and len(n.test.ops) == 1 \
                and any(isinstance(c, ast.Call) and isinstance(c.func, ast.Name) and c.func.id == '_guess_change' for c in ast.walk(ast.Module(body=n.body, type_ignores=[]))):
            l = n.test.left
            if not (isinstance(l, ast.Subscript) and isinstance(l.value, ast.Attribute) and l.value.attr == 'shape'
                    and isinstance(l.value.value, ast.Name) and l.value.value.id == 'xyz'):
                raise ValueError(f'{who}: the scale guess is guarded by `{ast.unparse(n.test)}`')
            guard = (type(n.test.ops[0]).__name__, ast.literal_eval(n.test.comparators[0]))
    if guard is None:
        raise ValueError(f'{who}: guard of `_guess_change` not found')
    # scale rules
    rules = {}
    for n in ast.walk(fn):
        if isinstance(n, ast.AugAssign) and _pow10(n.value):
            t = ast.unparse(n.target)
            key = 'radius' if "'radius'" in t or '"radius"' in t else ('soma_radius' if 'soma_radius' in t else None)
            if key:
                rules[key] = (type(n.op).__name__, _pow10(n.value))
        if isinstance(n, ast.Assign) and len(n.targets) == 1 and isinstance(n.targets[0], ast.Attribute) and n.targets[0].attr == 'units':
            for b in ast.walk(n.value):
                if isinstance(b, ast.BinOp) and _pow10(b.right) and isinstance(b.left, ast.Attribute) and b.left.attr == 'units':
                    rules['units'] = (type(b.op).__name__, _pow10(b.right))
    if set(rules) != {'radius', 'soma_radius', 'units'}:
        raise ValueError(f'{who}: scale rules found only for {sorted(rules)}')
    return {'order': order, 'slices': slices, 'guard': guard, 'rules': rules, 'helper': _helper_expr(fn, who)}


def mirror_facts(tree):
    fn = _func(tree, 'mirror')
    who = 'xfm_funcs.mirror'
    axis = None
    entries = []
    base = None
    ix_name = None
    for n in ast.walk(fn):
        if isinstance(n, ast.Assign) and len(n.targets) == 1:
            t, v = n.targets[0], n.value
            if isinstance(t, ast.Name) and isinstance(v, ast.Subscript) and isinstance(v.value, ast.Dict):
                axis = sorted((ast.literal_eval(k), ast.literal_eval(x)) for k, x in zip(v.value.keys, v.value.values))
                ix_name = t.id
            if isinstance(t, ast.Name) and t.id == 'mirrormat' and isinstance(v, ast.Call) and isinstance(v.func, ast.Attribute):
                base = v.func.attr + ':' + ','.join(str(ast.literal_eval(a)) for a in v.args)
    for n in ast.walk(fn):
        if isinstance(n, ast.Assign) and len(n.targets) == 1 and isinstance(n.targets[0], ast.Subscript) \
                and isinstance(n.targets[0].value, ast.Name) and n.targets[0].value.id == 'mirrormat':
            sl = n.targets[0].slice
            if not isinstance(sl, ast.Tuple) or len(sl.elts) != 2:
                raise ValueError(f'{who}: unexpected write into the flip matrix')
            pos = []
            for e in sl.elts:
                if isinstance(e, ast.Name) and e.id == ix_name:
                    pos.append('ix')
                else:
                    pos.append(str(ast.literal_eval(e)))
            v = n.value
            val = 'size' if isinstance(v, ast.Name) and v.id == 'mirror_axis_size' else str(ast.literal_eval(v))
            entries.append((n.lineno, pos[0], pos[1], val))
    if axis is None or base is None or not entries:
        raise ValueError(f'{who}: axis table / matrix construction not found')
    return {'axis': axis, 'entries': sorted(e[1:] for e in entries), 'base': base}


# ------------------------------------------------------------------------------------------------ templates.py
def _isinstance_classes(test):
    out = []
    for n in ast.walk(test):
        if isinstance(n, ast.Call) and isinstance(n.func, ast.Name) and n.func.id == 'isinstance' and len(n.args) == 2:
            c = n.args[1]
            for e in (c.elts if isinstance(c, ast.Tuple) else [c]):
                out.append(e.attr if isinstance(e, ast.Attribute) else getattr(e, 'id', '?'))
    return out


def _rewinds(fn):
    """isinstance branches under which `x.faces = x.faces[:, ::-1]` is executed"""
    found = []

    def is_rewind(n):
        if not (isinstance(n, ast.Assign) and len(n.targets) == 1 and isinstance(n.targets[0], ast.Attribute) and n.targets[0].attr == 'faces'):
            return False
        v = n.value
        return isinstance(v, ast.Subscript) and isinstance(v.value, ast.Attribute) and v.value.attr == 'faces' \
            and isinstance(v.slice, ast.Tuple) and len(v.slice.elts) == 2 and isinstance(v.slice.elts[1], ast.Slice) \
            and v.slice.elts[1].step is not None and _minus_one(v.slice.elts[1].step) \
            and isinstance(v.slice.elts[0], ast.Slice) and v.slice.elts[0].lower is None and v.slice.elts[0].upper is None

    def walk(stmts, ctx):
        for s in stmts:
            if is_rewind(s):
                found.append(ctx[-1] if ctx else '?')
            if isinstance(s, ast.If):
                cls = _isinstance_classes(s.test)
                walk(s.body, ctx + ['|'.join(cls)] if cls else ctx)
                walk(s.orelse, ctx)
            elif isinstance(s, (ast.For, ast.While, ast.With, ast.Try)):
                for b in ('body', 'orelse', 'finalbody'):
                    walk(getattr(s, b, []), ctx)
    walk(fn.body, [])
    return sorted(found)


def mirror_brain_facts(tree):
    fn = _func(tree, 'mirror_brain')
    who = 'templates.mirror_brain'
    sizes = []
    for n in ast.walk(fn):
        if isinstance(n, ast.If) and isinstance(n.test, ast.Compare) and 'shape' in ast.unparse(n.test.left):
            shape = ast.unparse(n.test.comparators[0])
            for s in n.body:
                if isinstance(s, ast.Assign) and isinstance(s.targets[0], ast.Name) and s.targets[0].id == 'mirror_axis_size':
                    v = s.value
                    if not (isinstance(v, ast.Call) and isinstance(v.func, ast.Attribute) and isinstance(v.func.value, ast.Subscript)):
                        raise ValueError(f'{who}: unexpected axis size expression {ast.unparse(v)}')
                    sub = v.func.value
                    idx = []
                    for e in sub.slice.elts:
                        idx.append(':' if isinstance(e, ast.Slice) and e.lower is None and e.upper is None and e.step is None else ast.unparse(e))
                    sizes.append((shape, ','.join(idx), v.func.attr))
    if len(sizes) != 2:
        raise ValueError(f'{who}: expected the axis size for two bounding-box layouts, found {sizes}')
    return {'sizes': sorted(sizes), 'rewinds': _rewinds(fn), 'helper': _helper_expr(fn, who)}


def symmetrize_facts(tree):
    fn = _func(tree, 'symmetrize_brain')
    who = 'templates.symmetrize_brain'
    side, back_warp, center = None, None, None
    for n in ast.walk(fn):
        if isinstance(n, ast.Assign) and len(n.targets) == 1 and isinstance(n.targets[0], ast.Name):
            nm, v = n.targets[0].id, n.value
            if nm == 'center':
                center = ast.unparse(v)
            if nm == 'is_left' and isinstance(v, ast.Compare) and len(v.ops) == 1:
                if not isinstance(v.left, ast.Subscript) and isinstance(v.comparators[0], ast.Subscript):
                    # `center < x[:, 0]`  ==  `x[:, 0] > center`
                    swap = {ast.Lt: ast.Gt, ast.Gt: ast.Lt, ast.LtE: ast.GtE, ast.GtE: ast.LtE, ast.Eq: ast.Eq, ast.NotEq: ast.NotEq}
                    v = ast.Compare(left=v.comparators[0], ops=[swap[type(v.ops[0])]()], comparators=[v.left])
                l = v.left
                if not (isinstance(l, ast.Subscript) and isinstance(l.slice, ast.Tuple) and len(l.slice.elts) == 2):
                    raise ValueError(f'{who}: unexpected side test {ast.unparse(v)}')
                side = (type(v.ops[0]).__name__, ast.literal_eval(l.slice.elts[1]), ast.unparse(v.comparators[0]))
            if nm == 'xmf' and isinstance(v, ast.Call):
                kw = {k.arg: k.value for k in v.keywords}
                back_warp = ast.unparse(kw['warp']) if 'warp' in kw else 'default'
    if side is None or back_warp is None or center is None:
        raise ValueError(f'{who}: side test / flip back / centre not found')
    return {'side': side, 'back_warp': back_warp, 'center': center, 'rewinds': _rewinds(fn), 'helper': _helper_expr(fn, who),
            'extent': _symm_extent(fn, who)}


def _bbox_cell(e):
    """`bbox[r, c]` / `bbox[r][c]` -> (r, c)"""
    if isinstance(e, ast.Subscript) and isinstance(e.value, ast.Name) and e.value.id == 'bbox' \
            and isinstance(e.slice, ast.Tuple) and len(e.slice.elts) == 2:
        return tuple(int(ast.literal_eval(x)) for x in e.slice.elts)
    if isinstance(e, ast.Subscript) and isinstance(e.value, ast.Subscript) and isinstance(e.value.value, ast.Name) \
            and e.value.value.id == 'bbox':
        return (int(ast.literal_eval(e.value.slice)), int(ast.literal_eval(e.slice)))
    return None


def _symm_extent(fn, who):
    """per bounding-box layout: the cells read as (x_min, x_max), where `center = MIN + (MAX - MIN) / 2`"""
    cen = None
    for n in ast.walk(fn):
        if isinstance(n, ast.Assign) and len(n.targets) == 1 and isinstance(n.targets[0], ast.Name) and n.targets[0].id == 'center':
            cen = n.value
    ok = isinstance(cen, ast.BinOp) and isinstance(cen.op, ast.Add) and isinstance(cen.right, ast.BinOp) \
        and isinstance(cen.right.op, ast.Div) and isinstance(cen.right.right, ast.Constant) and cen.right.right.value == 2 \
        and isinstance(cen.right.left, ast.BinOp) and isinstance(cen.right.left.op, ast.Sub) \
        and ast.unparse(cen.left) == ast.unparse(cen.right.left.right)
    if not ok:
        raise ValueError(f'{who}: centre is not of the form MIN + (MAX - MIN) / 2: {ast.unparse(cen) if cen is not None else None}')
    lo_e, hi_e = cen.left, cen.right.left.left
    if _bbox_cell(lo_e) is not None:
        # one expression for every layout
        return [('any', _bbox_cell(lo_e), _bbox_cell(hi_e))]
    if not (isinstance(lo_e, ast.Name) and isinstance(hi_e, ast.Name)):
        raise ValueError(f'{who}: cannot tell where the x-extent comes from: {ast.unparse(cen)}')
    out = []
    for n in ast.walk(fn):
        if isinstance(n, ast.If) and isinstance(n.test, ast.Compare) and len(n.test.ops) == 1 and isinstance(n.test.ops[0], ast.Eq) \
                and ast.unparse(n.test.left) == 'bbox.shape':
            shape = ast.unparse(n.test.comparators[0])
            cells = {}
            for st in n.body:
                if isinstance(st, ast.Assign) and len(st.targets) == 1:
                    t, v = st.targets[0], st.value
                    if isinstance(t, ast.Tuple) and isinstance(v, ast.Tuple):
                        for a, b in zip(t.elts, v.elts):
                            if isinstance(a, ast.Name):
                                cells[a.id] = _bbox_cell(b)
                    elif isinstance(t, ast.Name):
                        cells[t.id] = _bbox_cell(v)
            if lo_e.id in cells or hi_e.id in cells:
                if cells.get(lo_e.id) is None or cells.get(hi_e.id) is None:
                    raise ValueError(f'{who}: x-extent for layout {shape} not read from two cells of bbox')
                out.append((shape, cells[lo_e.id], cells[hi_e.id]))
    if not out:
        raise ValueError(f'{who}: no per-layout x-extent found')
    return sorted(out)


# ------------------------------------------------------------------------------------------------ image path
def image_facts(tree):
    xi = _func(tree, '_xform_image')
    cm = _func(tree, '_get_coordinates_map')
    order = None
    for n in ast.walk(xi):
        if isinstance(n, ast.Call) and isinstance(n.func, ast.Attribute) and n.func.attr == 'map_coordinates':
            kw = {k.arg: k.value for k in n.keywords}
            order = ast.literal_eval(kw['order']) if 'order' in kw else 3
            mode = ast.literal_eval(kw['mode']) if 'mode' in kw else 'constant'
            cval = ast.literal_eval(kw['cval']) if 'cval' in kw else 0
    if order is None:
        raise ValueError('_xform_image: map_coordinates call not found')
    tr = cm.args.args[0].arg
    neg = fwd = False
    for n in ast.walk(cm):
        if isinstance(n, ast.Call) and isinstance(n.func, ast.Attribute) and n.func.attr == 'xform':
            v = n.func.value
            if isinstance(v, ast.UnaryOp) and isinstance(v.op, ast.USub) and isinstance(v.operand, ast.Name) and v.operand.id == tr:
                neg = True
            elif isinstance(v, ast.Name) and v.id == tr:
                fwd = True
    exprs = {}
    for n in ast.walk(cm):
        if isinstance(n, ast.Assign) and len(n.targets) == 1 and isinstance(n.targets[0], ast.Name) \
                and n.targets[0].id in ('target_voxel_size', 'coo_array_target', 'ix_array_source', 'target_offset'):
            exprs[n.targets[0].id] = ast.unparse(n.value)
    if set(exprs) != {'target_voxel_size', 'coo_array_target', 'ix_array_source', 'target_offset'}:
        raise ValueError(f'_get_coordinates_map: index expressions found only for {sorted(exprs)}')
    return {'order': order, 'mode': mode, 'cval': cval, 'neg': neg, 'fwd': fwd, 'exprs': exprs}


# ------------------------------------------------------------------------------------------------ emit
CMP = {'Gt': '.gt', 'GtE': '.ge', 'Lt': '.lt', 'LtE': '.le', 'Eq': '.eq', 'NotEq': '.ne'}
OPS = {'Mult': '.mul', 'Div': '.div'}
PART = {'points': '.points', 'helpers': '.helpers', 'connectors': '.connectors'}


def lbound(b):
    if b == '':
        return '.none'
    kind, _, tbl = b.partition(':')
    t = '.conns' if tbl == 'connectors' else '.pts'
    return {'n': f'.cnt {t}', '-n': f'.negCnt {t}', '2n': f'.twice {t}'}[kind]


def lcell(c):
    return '.ix' if c == 'ix' else f'.lit {int(c)}'


def lmval(v):
    return '.size' if v == 'size' else f'.num {lint(int(v))}'


def generate(repo: Path):
    base = ast.parse((repo / 'navis' / 'transforms' / 'base.py').read_text())
    xf = ast.parse((repo / 'navis' / 'transforms' / 'xfm_funcs.py').read_text())
    tp = ast.parse((repo / 'navis' / 'transforms' / 'templates.py').read_text())
    ng, sx, xm, mr = neg_facts(base), seq_xform_facts(base), xform_facts(xf), mirror_facts(xf)
    mb, sy, im = mirror_brain_facts(tp), symmetrize_facts(tp), image_facts(xf)
    if xm['guard'][0] not in CMP or sy['side'][0] not in CMP:
        raise ValueError('unexpected comparison operator')
    sl = {a: (b, c) for a, b, c in xm['slices']}
    L = []
    L.append('import NavisModel.Model.XformSpec')
    L.append('/- GENERATED by translator/gen_xformfacts.py from navis/transforms/base.py, navis/transforms/xfm_funcs.py,\n'
             '   navis/transforms/templates.py.  Do not edit: regenerated from the current source tree on every `./check C16`.\n'
             '   Vocabulary and meaning of every fact: Model/XformSpec.lean; theorems over them: Props/C16.lean §10. -/')
    L.append('namespace Navis.Gen.XformFacts\nopen Navis.XformSpec\n')
    L.append('/-! ### `TransformSequence.__neg__` -/')
    L.append('/-- the members are walked in reversed order (`self.transforms[::-1]` / `reversed(...)`) -/')
    L.append(f'def negReversesOrder : Bool := {lbool(ng["reversed"])}')
    L.append('/-- every member is negated (`-t`) -/')
    L.append(f'def negInvertsEachMember : Bool := {lbool(ng["inverts"])}\n')
    L.append('/-! ### `TransformSequence.xform` -/')
    L.append(f'/-- the working array `{sx["expr"]}` is always a new array (never the caller\'s buffer) -/')
    L.append(f'def seqXformCopiesInput : Bool := {lbool(sx["copies"])}')
    L.append('/-- members are applied in list order -/')
    L.append(f'def seqAppliesInListOrder : Bool := {lbool(sx["in_order"])}\n')
    L.append('/-! ### `xfm_funcs.xform` -/')
    L.append('/-- order of the parts of the collated block -/')
    L.append('def stackOrder : List Part := [' + ', '.join(PART[s] for s in xm['order']) + ']')
    L.append('/-- `<part> = xyz_xf[lower : upper]` -/')
    for key, nm in (('nodes', 'sliceNodes'), ('points', 'slicePoints'), ('vertices', 'sliceVertices'),
                    ('helpers', 'sliceHelpers'), ('connectors', 'sliceConnectors')):
        L.append(f'def {nm} : Bound × Bound := ({lbound(sl[key][0])}, {lbound(sl[key][1])})')
    L.append('/-- `if xyz.shape[0] <cmp> <c>:` guards `_guess_change` -/')
    L.append(f'def guessGuard : Cmp × Int := ({CMP[xm["guard"][0]]}, {lint(xm["guard"][1])})')
    L.append('/-- how radius / units / soma radius follow the detected magnitude: operator and base of `<base>**magnitude` -/')
    for k, nm in (('radius', 'radiusScale'), ('units', 'unitsScale'), ('soma_radius', 'somaScale')):
        L.append(f'def {nm} : ScaleOp × Int := ({OPS.get(xm["rules"][k][0], ".other")}, {lint(xm["rules"][k][1])})')
    L.append('/-- helper points of a k-less Dotprops: `points + vect * sampling_resolution * <factor>` -/')
    L.append(f'def helperFactorXform : Int := {lint(xm["helper"])}')
    L.append(f'def helperFactorMirror : Int := {lint(mb["helper"])}')
    L.append(f'def helperFactorSymmetrize : Int := {lint(sy["helper"])}\n')
    L.append('/-! ### `xfm_funcs.mirror` -/')
    L.append('def axisIndex : List (String × Nat) := [' + ', '.join(f'({lstr(a)}, {int(b)})' for a, b in mr['axis']) + ']')
    L.append(f'def mirrorBase : String := {lstr(mr["base"])}')
    L.append('/-- `mirrormat[row, col] = value` in source order (`ix` = index of the mirror axis, `size` = `mirror_axis_size`) -/')
    L.append('def mirrorEntries : List (Cell × Cell × MVal) := ['
             + ', '.join(f'({lcell(a)}, {lcell(b)}, {lmval(c)})' for a, b, c in mr['entries']) + ']\n')
    L.append('/-! ### `templates.mirror_brain` / `symmetrize_brain` -/')
    L.append('/-- per bounding-box layout: (shape, index expression, reduction) giving `mirror_axis_size` -/')
    L.append('def axisSize : List (String × String × String) := ['
             + ', '.join(f'({lstr(a)}, {lstr(b)}, {lstr(c)})' for a, b, c in mb['sizes']) + ']')
    L.append('/-- `isinstance` branches in which `faces = faces[:, ::-1]` is executed -/')
    L.append('def mirrorRewinds : List String := [' + ', '.join(lstr(s) for s in mb['rewinds']) + ']')
    L.append('def symmetrizeRewinds : List String := [' + ', '.join(lstr(s) for s in sy['rewinds']) + ']')
    L.append('/-- `is_left = x[:, <col>] <cmp> center` -/')
    L.append(f'def symmSideTest : Cmp × Nat := ({CMP[sy["side"][0]]}, {int(sy["side"][1])})')
    L.append('/-- per bounding-box layout: the cells `(row, col)` of `bbox` read as `(x_min, x_max)` for the midplane -/')
    L.append('def symmExtent : List (String × (Nat × Nat) × (Nat × Nat)) := ['
             + ', '.join(f'({lstr(a)}, ({b[0]}, {b[1]}), ({c[0]}, {c[1]}))' for a, b, c in sy['extent']) + ']')
    L.append(f'def symmSideRhs : String := {lstr(sy["side"][2])}')
    L.append(f'def symmCenter : String := {lstr(sy["center"])}')
    L.append('/-- `warp=` of the flip back -/')
    L.append(f'def symmFlipBackWarp : String := {lstr(sy["back_warp"])}\n')
    L.append('/-! ### `_xform_image` / `_get_coordinates_map` -/')
    L.append(f'def imageInterpOrder : Int := {lint(im["order"])}')
    L.append(f'def imageMode : String := {lstr(im["mode"])}')
    L.append(f'def imageCval : Int := {lint(im["cval"])}')
    L.append('/-- target positions are pulled back with `(-transform).xform`; the box is pushed forward with `transform.xform` -/')
    L.append(f'def imagePullsBackThroughNeg : Bool := {lbool(im["neg"])}')
    L.append(f'def imagePushesBoxForward : Bool := {lbool(im["fwd"])}')
    for k, nm in (('target_voxel_size', 'imageTargetPitch'), ('coo_array_target', 'imageTargetWorld'),
                  ('ix_array_source', 'imageSourceIndex'), ('target_offset', 'imageTargetOffset')):
        L.append(f'def {nm} : String := {lstr(im["exprs"][k])}')
    L.append('\nend Navis.Gen.XformFacts\n')
    meta = {'source': ['navis/transforms/base.py', 'navis/transforms/xfm_funcs.py', 'navis/transforms/templates.py'],
            'facts': {'neg': ng, 'seq_xform': sx, 'xform': {k: (v if k != 'rules' else {a: list(b) for a, b in v.items()}) for k, v in xm.items()},
                      'mirror': mr, 'mirror_brain': mb, 'symmetrize': sy, 'image': im}}
    return 'XformFacts.lean', '\n'.join(L), meta
