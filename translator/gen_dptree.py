"""Translator for C06 (kd-tree cache of Dotprops): which code paths change the coordinates of a Dotprops and
whether they drop the cached nearest-neighbour index `_tree`.

Extracted with `ast` (nothing imported from navis) from `navis/core/dotprop.py` and the module-level helpers that
write Dotprops coordinates (`sampling/downsampling.py`, `morpho/subset.py`, `morpho/manipulation.py`,
`transforms/xfm_funcs.py`, `transforms/templates.py`, `nbl/nblast_funcs.py`):

* per function: does it WRITE coordinates of some receiver `R` (`R.points = …` through the setter, `R._points = …`
  directly, an in-place ufunc `out=R.points`, an augmented / subscript assignment on `R.points`), and is the cached
  tree INVALIDATED on that receiver: `delattr(R, '_tree')`, `del R._tree`, `R._tree = None`,
  `R._clear_temp_attr()` while `'_tree'` is listed in `Dotprops.TEMP_ATTR`, the write goes through the `points`
  setter (which itself resets `_tree`), or `R` is a fresh `.copy()` made in the same function on which no tree can
  have been built yet.  An invalidation only counts when it is unconditional relative to the write (enclosing `if`s
  either also enclose the write or only test for the presence of `_tree`) and no `.kdtree` read on `R` follows it;
* the `kdtree` property (builds from `self.points`, caches in `_tree`, returns the cache), the `points` setter
  (resets `_tree`), `copy()` (does not copy `_tree`), `__getstate__` (drops a pykdtree tree), `dist_dots` (queries
  `other.kdtree`), `Dotprops.TEMP_ATTR`.

Semantic facts only: renaming locals, reordering independent statements, comments do not change the output."""
import ast
from pathlib import Path

PROPS = ['C06']

FILES = ['navis/core/dotprop.py', 'navis/sampling/downsampling.py', 'navis/morpho/subset.py',
         'navis/morpho/manipulation.py', 'navis/transforms/xfm_funcs.py', 'navis/transforms/templates.py',
         'navis/nbl/nblast_funcs.py']
COORD = ('points', '_points')


def recv(e):
    """textual receiver of an attribute access `R.attr` (Name or `n[i]`-style expression)"""
    try:
        return ast.unparse(e)
    except Exception:   # pragma: no cover
        return '?'


def is_coord_attr(e):
    return isinstance(e, ast.Attribute) and e.attr in COORD


def coord_target(t):
    """(receiver, kind) if assignment target `t` writes coordinates"""
    if is_coord_attr(t):
        return recv(t.value), ('setter' if t.attr == 'points' else 'direct')
    if isinstance(t, ast.Subscript) and is_coord_attr(t.value):
        return recv(t.value.value), 'subscript'
    return None


def mentions_tree(e):
    for n in ast.walk(e):
        if isinstance(n, ast.Constant) and n.value == '_tree':
            return True
        if isinstance(n, ast.Attribute) and n.attr == '_tree':
            return True
    return False


class FnScan:
    """writes / invalidations / tree reads of one function body, with the chain of enclosing `if`s of each"""

    def __init__(self, fn, temp_attr):
        self.fn, self.temp_attr = fn, temp_attr
        self.writes, self.invals, self.reads, self.fresh, self.calls = [], [], [], {}, []
        self._walk(fn.body, ())

    def _walk(self, body, ifs):
        for st in body:
            self._stmt(st, ifs)

    def _stmt(self, st, ifs):
        if isinstance(st, (ast.FunctionDef, ast.AsyncFunctionDef, ast.ClassDef)):
            return
        if isinstance(st, ast.If):
            self._expr(st.test, st.lineno, ifs)
            self._walk(st.body, ifs + (st,))
            self._walk(st.orelse, ifs + (st,))
            return
        for f in ('body', 'orelse', 'finalbody'):
            if hasattr(st, f) and isinstance(getattr(st, f), list) and not isinstance(st, ast.If):
                self._walk(getattr(st, f), ifs)
        if isinstance(st, ast.Try):
            for h in st.handlers:
                self._walk(h.body, ifs)
        if isinstance(st, ast.With):
            for it in st.items:
                self._expr(it.context_expr, st.lineno, ifs)
            return
        if isinstance(st, (ast.For, ast.While)):
            self._expr(st.iter if isinstance(st, ast.For) else st.test, st.lineno, ifs)
            return
        if isinstance(st, ast.Assign):
            for t in st.targets:
                ct = coord_target(t)
                if ct:
                    self.writes.append((ct[0], ct[1], st.lineno, ifs))
                if isinstance(t, ast.Attribute) and t.attr == '_tree':
                    if isinstance(st.value, ast.Constant) and st.value.value is None:
                        self.invals.append((recv(t.value), 'assign-none', st.lineno, ifs))
                if isinstance(t, ast.Name) and isinstance(st.value, ast.Call) and isinstance(st.value.func, ast.Attribute) \
                        and st.value.func.attr == 'copy':
                    self.fresh[t.id] = st.lineno
            self._expr(st.value, st.lineno, ifs)
        elif isinstance(st, ast.AugAssign):
            ct = coord_target(st.target)
            if ct:
                self.writes.append((ct[0], 'augassign', st.lineno, ifs))
            self._expr(st.value, st.lineno, ifs)
        elif isinstance(st, ast.Delete):
            for t in st.targets:
                if isinstance(t, ast.Attribute) and t.attr == '_tree':
                    self.invals.append((recv(t.value), 'del', st.lineno, ifs))
        elif isinstance(st, (ast.Expr, ast.Return)):
            if st.value is not None:
                self._expr(st.value, st.lineno, ifs)

    def _expr(self, e, line, ifs):
        for n in ast.walk(e):
            if isinstance(n, ast.IfExp):
                pass
            if isinstance(n, ast.Call):
                for kw in n.keywords:
                    if kw.arg == 'out' and is_coord_attr(kw.value):
                        self.writes.append((recv(kw.value.value), 'ufunc-out', line, ifs))
                if isinstance(n.func, ast.Name) and n.func.id == 'delattr' and len(n.args) == 2 \
                        and isinstance(n.args[1], ast.Constant) and n.args[1].value == '_tree':
                    self.invals.append((recv(n.args[0]), 'delattr', line, ifs))
                if isinstance(n.func, ast.Attribute) and n.func.attr == '_clear_temp_attr':
                    excl = []
                    for kw in n.keywords:
                        if kw.arg == 'exclude':
                            try:
                                excl = list(ast.literal_eval(kw.value))
                            except Exception:
                                excl = ['?']
                    if n.args:
                        try:
                            excl = list(ast.literal_eval(n.args[0]))
                        except Exception:
                            excl = ['?']
                    if '_tree' in self.temp_attr and '_tree' not in excl and '?' not in excl:
                        self.invals.append((recv(n.func.value), 'clear_temp_attr', line, ifs))
                if isinstance(n.func, ast.Attribute) and n.func.attr in ('recalculate_tangents', 'sampling_resolution'):
                    self.reads.append((recv(n.func.value), line))
                if isinstance(n.func, ast.Attribute):
                    self.calls.append((recv(n.func.value), n.func.attr, line))
            if isinstance(n, ast.Attribute) and n.attr in ('kdtree', 'sampling_resolution'):
                self.reads.append((recv(n.value), line))

    # -------------------------------------------------------------------------------------------
    def verdicts(self, setter_resets):
        """one (receiver, write kind, invalidated, how) per receiver whose coordinates are written"""
        out = []
        for r in sorted({w[0] for w in self.writes}):
            ws = [w for w in self.writes if w[0] == r]
            kinds = sorted({w[1] for w in ws})
            how = None
            if all(k == 'setter' for k in kinds):
                how = 'setter' if setter_resets else None
            if how is None:
                last_read = max([ln for (rr, ln) in self.reads if rr == r], default=-1)
                for (ri, kind, ln, ifs) in self.invals:
                    if ri != r or ln < last_read:
                        continue
                    # unconditional relative to every write: each enclosing `if` also encloses the write or only
                    # tests for the presence of the tree
                    ok = True
                    for w in ws:
                        for cond in ifs:
                            if cond not in w[3] and not mentions_tree(cond.test):
                                ok = False
                    if ok:
                        how = kind
                        break
            if how is None and r in self.fresh:
                # a copy made in this function: no tree exists unless something built one before the write
                first_w = min(w[2] for w in ws)
                built = [ln for (rr, ln) in self.reads if rr == r and self.fresh[r] < ln]
                lazy = [ln for (rr, at, ln) in self.calls if rr == r and at in ('recalculate_tangents',) and self.fresh[r] < ln]
                if self.fresh[r] < first_w and not built and not lazy:
                    how = 'fresh-copy'
            out.append((r, '+'.join(kinds), how is not None, how or 'none'))
        return out


def class_def(tree, name):
    for n in tree.body:
        if isinstance(n, ast.ClassDef) and n.name == name:
            return n
    raise ValueError(f'class {name} not found')


def fn_name(fn):
    for d in fn.decorator_list:
        if isinstance(d, ast.Attribute) and d.attr == 'setter':
            return f'{fn.name}.setter'
    return fn.name


def is_property_getter(fn):
    return any(isinstance(d, ast.Name) and d.id == 'property' for d in fn.decorator_list)


def extract_class_facts(cls):
    temp_attr = None
    for n in cls.body:
        if isinstance(n, ast.Assign) and any(isinstance(t, ast.Name) and t.id == 'TEMP_ATTR' for t in n.targets):
            temp_attr = [str(x) for x in ast.literal_eval(n.value)]
    if temp_attr is None:
        raise ValueError('Dotprops.TEMP_ATTR not found')
    fns = {fn_name(n): n for n in cls.body if isinstance(n, ast.FunctionDef)}
    facts = {}
    # points setter resets the tree
    ps = fns.get('points.setter')
    if ps is None:
        raise ValueError('Dotprops.points setter not found')
    sc = FnScan(ps, temp_attr)
    facts['setter_writes'] = any(w[0] == 'self' and w[1] == 'direct' for w in sc.writes)
    facts['setter_resets'] = any(i[0] == 'self' and not i[3] for i in sc.invals)
    # kdtree property
    kd = next((n for n in cls.body if isinstance(n, ast.FunctionDef) and n.name == 'kdtree' and is_property_getter(n)), None)
    if kd is None:
        raise ValueError('Dotprops.kdtree property not found')
    builds_from_points = stores = guarded = returns_cache = False
    for n in ast.walk(kd):
        if isinstance(n, ast.Assign) and any(isinstance(t, ast.Attribute) and t.attr == '_tree' and recv(t.value) == 'self' for t in n.targets):
            stores = True
            v = n.value
            if isinstance(v, ast.Call) and len(v.args) >= 1 and is_coord_attr(v.args[0]) and recv(v.args[0].value) == 'self':
                builds_from_points = True
        if isinstance(n, ast.If) and mentions_tree(n.test) and isinstance(n.test, ast.UnaryOp) and isinstance(n.test.op, ast.Not):
            guarded = True
        if isinstance(n, ast.Return) and isinstance(n.value, ast.Attribute) and n.value.attr == '_tree':
            returns_cache = True
    facts.update(kdtree_builds_from_points=builds_from_points, kdtree_stores=stores, kdtree_rebuilds_when_missing=guarded,
                 kdtree_returns_cache=returns_cache)
    # copy() leaves the tree behind
    cp = fns.get('copy')
    no_copy = []
    if cp is not None:
        for n in ast.walk(cp):
            if isinstance(n, ast.Assign) and any(isinstance(t, ast.Name) and t.id == 'no_copy' for t in n.targets):
                try:
                    no_copy = [str(x) for x in ast.literal_eval(n.value)]
                except Exception:
                    no_copy = []
    facts['copy_drops_tree'] = '_tree' in no_copy
    # __getstate__ pops a pykdtree tree
    gs = fns.get('__getstate__')
    pops = False
    if gs is not None:
        for n in ast.walk(gs):
            if isinstance(n, ast.Call) and isinstance(n.func, ast.Attribute) and n.func.attr == 'pop' and n.args \
                    and isinstance(n.args[0], ast.Constant) and n.args[0].value == '_tree':
                pops = True
    facts['getstate_drops_pykdtree'] = pops
    # dist_dots queries the target's kdtree property
    dd = fns.get('dist_dots')
    via_prop = False
    if dd is not None:
        other = dd.args.args[1].arg if len(dd.args.args) > 1 else 'other'
        for n in ast.walk(dd):
            if isinstance(n, ast.Call) and isinstance(n.func, ast.Attribute) and n.func.attr == 'query' \
                    and isinstance(n.func.value, ast.Attribute) and n.func.value.attr == 'kdtree' and recv(n.func.value.value) == other:
                via_prop = True
    facts['dist_dots_queries_other_kdtree'] = via_prop
    return temp_attr, fns, facts


def lean_str(s):
    return '"' + s.replace('\\', '\\\\').replace('"', '\\"') + '"'


def generate(repo: Path):
    repo = Path(repo)
    src = (repo / FILES[0]).read_text()
    cls = class_def(ast.parse(src), 'Dotprops')
    temp_attr, fns, facts = extract_class_facts(cls)
    rows = []     # (qualified name, receiver, write kinds, invalidated, how)
    per_fn = {}
    for name, fn in fns.items():
        if name == 'points.setter':
            # the setter IS the write; it invalidates iff it resets the tree itself
            rows.append(('Dotprops.points.setter', 'self', 'direct', facts['setter_resets'], 'assign-none' if facts['setter_resets'] else 'none'))
            per_fn[name] = [rows[-1]]
            continue
        sc = FnScan(fn, temp_attr)
        vs = sc.verdicts(facts['setter_resets'])
        per_fn[name] = [(f'Dotprops.{name}',) + v for v in vs]
        rows += per_fn[name]
    for rel in FILES[1:]:
        p = repo / rel
        if not p.exists():
            continue
        tree = ast.parse(p.read_text())
        mod = rel[len('navis/'):-3].replace('/', '.')
        for n in ast.walk(tree):
            if isinstance(n, ast.FunctionDef):
                sc = FnScan(n, temp_attr)
                for v in sc.verdicts(facts['setter_resets']):
                    rows.append((f'{mod}.{n.name}',) + v)
    rows.sort()

    # the arithmetic dunders the in-place operators dispatch to: own verdict, or (one level of delegation) the verdict
    # of the Dotprops method they call on the receiver
    def method_flag(mname):
        fn = fns.get(mname)
        if fn is None:
            return None
        own = per_fn.get(mname, [])
        if own:
            return all(r[3] for r in own)
        sc = FnScan(fn, temp_attr)
        for (_r, attr, _ln) in sc.calls:
            if attr in per_fn and per_fn[attr] and attr != mname:
                return all(r[3] for r in per_fn[attr])
        return None

    arith = {m: method_flag(m) for m in ('__add__', '__sub__', '__mul__', '__truediv__')}
    b = lambda x: 'true' if x else 'false'
    opt = lambda x: 'none' if x is None else f'some {b(x)}'

    def helper_flag(suffix):
        rs = [r for r in rows if r[0].endswith(suffix)]
        return None if not rs else all(r[3] for r in rs)

    out = []
    out.append('import NavisModel.Model.DpCache')
    out.append('/-! GENERATED by translator/gen_dptree.py from navis/core/dotprop.py and the helpers that write Dotprops\n'
               'coordinates — do not edit.  One row per (function, receiver) whose coordinates are written:\n'
               '`(function, receiver, kind of write, cached kd-tree invalidated?, how)`. -/')
    out.append('namespace Navis.Gen.DpTree')
    out.append('open Navis.DpCache\n')
    out.append('/-- `Dotprops.TEMP_ATTR` -/')
    out.append('def tempAttr : List String := [' + ', '.join(lean_str(s) for s in temp_attr) + ']\n')
    out.append('def writers : List (String × String × String × Bool × String) := [')
    out.append(',\n'.join(f'  ({lean_str(r[0])}, {lean_str(r[1])}, {lean_str(r[2])}, {b(r[3])}, {lean_str(r[4])})' for r in rows))
    out.append('  ]\n')
    for k in ('setter_writes', 'setter_resets', 'kdtree_builds_from_points', 'kdtree_stores', 'kdtree_rebuilds_when_missing',
              'kdtree_returns_cache', 'copy_drops_tree', 'getstate_drops_pykdtree', 'dist_dots_queries_other_kdtree'):
        camel = ''.join(w.capitalize() if i else w for i, w in enumerate(k.split('_')))
        out.append(f'def {camel} : Bool := {b(facts[k])}')
    out.append('')
    out.append('/-- does the code path behind each modelled coordinate-changing method drop the cached tree?\n'
               '(`none`: the method no longer exists / no longer writes coordinates in a way the translator can follow) -/')
    out.append('def invalOpt : Method → Option Bool')
    out.append(f'  | .add => {opt(arith["__add__"])}')
    out.append(f'  | .sub => {opt(arith["__sub__"])}')
    out.append(f'  | .mul => {opt(arith["__mul__"])}')
    out.append(f'  | .truediv => {opt(arith["__truediv__"])}')
    out.append(f'  | .setPoints => some {b(facts["setter_resets"])}')
    out.append(f'  | .downsample => {opt(helper_flag("._downsample_dotprops"))}')
    out.append(f'  | .subset => {opt(helper_flag("._subset_dotprops"))}\n')
    out.append('def inval (m : Method) : Bool := (invalOpt m).getD false\n')
    out.append('end Navis.Gen.DpTree\n')
    meta = {'source': FILES, 'temp_attr': temp_attr, 'facts': facts,
            'writers': [{'fn': r[0], 'receiver': r[1], 'write': r[2], 'invalidates': r[3], 'how': r[4]} for r in rows],
            'arith': arith}
    return 'DpTree.lean', '\n'.join(out), meta
