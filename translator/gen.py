"""Translator: regenerate lean/NavisModel/Gen/*.lean from the *current* navis source tree.
Every generated file is written only when its content changed (keeps `lake build` a no-op)."""
from pathlib import Path


def write_if_changed(p: Path, s: str):
    if p.exists() and p.read_text() == s:
        return False
    p.parent.mkdir(parents=True, exist_ok=True)
    p.write_text(s)
    return True


def regenerate(repo: Path, out: Path):
    info = {'files': {}}
    from . import gen_smat, gen_cache, gen_consts
    for m in (gen_smat, gen_cache, gen_consts):
        try:
            name, src, meta = m.generate(repo)
        except NotImplementedError:
            continue
        changed = write_if_changed(out / name, src)
        info['files'][name] = dict(meta, changed=changed)
    return info
