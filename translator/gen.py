"""Translator: regenerate lean/NavisModel/Gen/*.lean from the *current* navis source tree.
Every generated file is written only when its content changed (keeps `lake build` a no-op).
Each translator module `translator/gen_*.py` declares PROPS (the properties whose theorems depend on
its output) and `generate(repo) -> (filename, lean_source, meta_dict)`."""
import importlib, pkgutil
from pathlib import Path


def write_if_changed(p: Path, s: str):
    if p.exists() and p.read_text() == s:
        return False
    p.parent.mkdir(parents=True, exist_ok=True)
    p.write_text(s)
    return True


def modules():
    import translator
    for m in pkgutil.iter_modules(translator.__path__):
        if m.name.startswith('gen_'):
            yield importlib.import_module(f'translator.{m.name}')


def regenerate(repo: Path, out: Path, prop=None):
    """Run every translator module serving `prop` (all when prop is None)."""
    info = {'files': {}}
    for m in modules():
        props = getattr(m, 'PROPS', [])
        if prop is not None and prop not in props:
            continue
        name, src, meta = m.generate(Path(repo))
        changed = write_if_changed(out / name, src)
        info['files'][name] = dict(meta, changed=changed, module=m.__name__)
    return info
