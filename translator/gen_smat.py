"""Translator for C06: re-extract the declarative parts of NBLAST scoring from the current navis source.

* both score matrices (`navis/nbl/score_mats/smat_fcwb.csv`, `smat_alpha_fcwb.csv`): interval labels
  (bounds + which side is closed) and cells, every number as the exact rational value of the double
  Python's `float()` gives for the CSV token (navis parses the labels with `float()`; pandas' cell
  parser may differ from `float()` in the last bit, far below the 2^-40 comparison tolerance);
* the `side=` expression and the subtracted offset of `Digitizer.__call__`, the default `clip` of
  `Digitizer.__init__` (what `from_strings` uses), with `ast`;
* `ALLOWED_SCORES` of `nblast_funcs.py`.

Nothing is imported from navis; files are read as text."""
import ast, csv
from pathlib import Path

PROPS = ['C06']


def rat(x: float) -> str:
    n, d = float(x).as_integer_ratio()
    k = d.bit_length() - 1
    assert d == 1 << k
    return f'dy {n} {k}' if n >= 0 else f'dy ({n}) {k}'


def xval(tok: str) -> str:
    v = float(tok)
    if v == float('inf'):
        return '.pinf'
    if v == float('-inf'):
        return '.ninf'
    if v != v:
        raise ValueError(f'NaN boundary {tok!r}')
    return f'.fin ({rat(v)})'


def parse_label(s: str):
    """'(0.75,1.5]' -> (lo, hi, right) with the tokens kept as text."""
    s = s.strip()
    enc = s[0] + s[-1]
    if enc == '[)':
        right = False
    elif enc == '(]':
        right = True
    else:
        raise ValueError(f'label {s!r} is not a half-open interval')
    lo, hi = s[1:-1].split(',')
    return lo.strip(), hi.strip(), right


def read_table(path: Path):
    with open(path, newline='') as f:
        rows = list(csv.reader(f))
    header, body = rows[0], [r for r in rows[1:] if r]
    cols = [parse_label(c) for c in header[1:]]
    rws = [parse_label(r[0]) for r in body]
    cells = [[float(c) for c in r[1:]] for r in body]
    for r in cells:
        if len(r) != len(cols):
            raise ValueError(f'{path.name}: ragged row')
    return rws, cols, cells


def lean_intervals(name, ivs):
    lines = []
    for k, (lo, hi, r) in enumerate(ivs):
        comma = ',' if k + 1 < len(ivs) else ''
        lines.append(f'⟨{xval(lo)}, {xval(hi)}, {"true" if r else "false"}⟩{comma}  -- {"(" if r else "["}{lo},{hi}{"]" if r else ")"}')
    items = '\n  '.join(lines)
    return f'def {name} : List Interval := [\n  {items}\n  ]\n'


def lean_cells(name, cells):
    rows = ',\n  '.join('[' + ', '.join(rat(c) for c in r) + ']' for r in cells)
    return f'def {name} : List (List Rat) := [\n  {rows}\n  ]\n'


# ---------------------------------------------------------------------------------------------
def find_class(tree, name):
    for n in tree.body:
        if isinstance(n, ast.ClassDef) and n.name == name:
            return n
    raise ValueError(f'class {name} not found')


def find_method(cls, name):
    for n in cls.body:
        if isinstance(n, ast.FunctionDef) and n.name == name:
            return n
    raise ValueError(f'method {cls.name}.{name} not found')


def is_self_right(e):
    return isinstance(e, ast.Attribute) and e.attr == 'right' and isinstance(e.value, ast.Name) and e.value.id == 'self'


def side_const(e):
    if isinstance(e, ast.Constant) and e.value in ('left', 'right'):
        return 'Side.' + e.value
    raise ValueError(f'unsupported side constant: {ast.dump(e)}')


def side_expr(e):
    """Lean term for the `side=` expression in terms of `right : Bool`."""
    if isinstance(e, ast.Constant):
        return side_const(e)
    if isinstance(e, ast.IfExp):
        t = e.test
        if is_self_right(t):
            return f'if right then {side_const(e.body)} else {side_const(e.orelse)}'
        if isinstance(t, ast.UnaryOp) and isinstance(t.op, ast.Not) and is_self_right(t.operand):
            return f'if right then {side_const(e.orelse)} else {side_const(e.body)}'
    raise ValueError(f'unsupported side expression: {ast.unparse(e)}')


def extract_digitizer(src: str):
    tree = ast.parse(src)
    cls = find_class(tree, 'Digitizer')
    call = find_method(cls, '__call__')
    rets = [n for n in ast.walk(call) if isinstance(n, ast.Return)]
    if len(rets) != 1:
        raise ValueError('Digitizer.__call__: expected exactly one return')
    e = rets[0].value
    off = 0
    # peel `<expr> - c` / `<expr> + c`
    while isinstance(e, ast.BinOp) and isinstance(e.op, (ast.Sub, ast.Add)) and isinstance(e.right, ast.Constant) \
            and isinstance(e.right.value, int):
        off += e.right.value if isinstance(e.op, ast.Sub) else -e.right.value
        e = e.left
    if not (isinstance(e, ast.Call) and isinstance(e.func, ast.Attribute) and e.func.attr == 'searchsorted'):
        raise ValueError(f'Digitizer.__call__: not a searchsorted call: {ast.unparse(e)}')
    side = None
    for kw in e.keywords:
        if kw.arg == 'side':
            side = kw.value
    if side is None and len(e.args) >= 3:
        side = e.args[2]
    side_lean = side_expr(side) if side is not None else 'Side.left'   # numpy default
    side_txt = ast.unparse(side) if side is not None else "'left' (numpy default)"
    arr_ok = len(e.args) >= 1 and isinstance(e.args[0], ast.Attribute) and e.args[0].attr == 'boundaries'
    if not arr_ok:
        raise ValueError('Digitizer.__call__: searchsorted is not applied to self.boundaries')
    # default clip of __init__
    init = find_method(cls, '__init__')
    names = [a.arg for a in init.args.args]
    defaults = dict(zip(names[len(names) - len(init.args.defaults):], init.args.defaults))
    clip = defaults.get('clip')
    if not (isinstance(clip, ast.Tuple) and len(clip.elts) == 2 and all(isinstance(c, ast.Constant) and isinstance(c.value, bool) for c in clip.elts)):
        raise ValueError('Digitizer.__init__: default clip is not a pair of booleans')
    clipv = tuple(c.value for c in clip.elts)
    # from_strings must not override clip
    fs = find_method(cls, 'from_strings')
    for n in ast.walk(fs):
        if isinstance(n, ast.Call) and isinstance(n.func, ast.Name) and n.func.id == 'cls':
            for kw in n.keywords:
                if kw.arg == 'clip':
                    raise ValueError('Digitizer.from_strings passes an explicit clip')
    return side_lean, side_txt, off, clipv


def extract_allowed_scores(src: str):
    tree = ast.parse(src)
    for n in tree.body:
        if isinstance(n, ast.Assign) and any(isinstance(t, ast.Name) and t.id == 'ALLOWED_SCORES' for t in n.targets):
            v = ast.literal_eval(n.value)
            return [str(x) for x in v]
    raise ValueError('ALLOWED_SCORES not found')


def _names(e):
    return {n.id for n in ast.walk(e) if isinstance(n, ast.Name)}


def _subscript_of(e, base_attr):
    """`self.<base_attr>[<Name>]` -> the index name"""
    if isinstance(e, ast.Subscript) and isinstance(e.value, ast.Attribute) and e.value.attr == base_attr \
            and isinstance(e.slice, ast.Name):
        return e.slice.id
    return None


def extract_scoring_facts(nbl_src: str, dp_src: str):
    """Semantic facts of `NBlaster.single_query_target` / `calc_self_hit` and `Dotprops.dist_dots` the model relies on."""
    f = {}
    tree = ast.parse(nbl_src)
    cls = find_class(tree, 'NBlaster')
    sqt = find_method(cls, 'single_query_target')
    params = [a.arg for a in sqt.args.args]
    qn, tn = params[1], params[2]
    # (a) the self-self short-cut is keyed on the two POSITIONS
    first_if = next((n for n in sqt.body if isinstance(n, ast.If)), None)
    t = first_if.test if first_if is not None else None
    f['shortcut_on_positions'] = bool(
        isinstance(t, ast.Compare) and len(t.ops) == 1 and isinstance(t.ops[0], ast.Eq) and
        isinstance(t.left, ast.Name) and isinstance(t.comparators[0], ast.Name) and
        {t.left.id, t.comparators[0].id} == {qn, tn})
    # (b) normalisation divides by the QUERY's self hit
    norm_by = None
    for n in ast.walk(sqt):
        if isinstance(n, ast.AugAssign) and isinstance(n.op, ast.Div):
            norm_by = _subscript_of(n.value, 'self_hits') or norm_by
        if isinstance(n, ast.BinOp) and isinstance(n.op, ast.Div) and _subscript_of(n.right, 'self_hits'):
            norm_by = _subscript_of(n.right, 'self_hits')
    f['normalises_by_query'] = norm_by == qn
    # (c) the reverse score is the same function with the two indices swapped, in forward mode
    rev_ok = False
    for n in ast.walk(sqt):
        if isinstance(n, ast.Call) and isinstance(n.func, ast.Attribute) and n.func.attr == 'single_query_target':
            a = [x.id if isinstance(x, ast.Name) else None for x in n.args[:2]]
            sc = [kw.value.value for kw in n.keywords if kw.arg == 'scores' and isinstance(kw.value, ast.Constant)]
            sc += [x.value for x in n.args[2:3] if isinstance(x, ast.Constant)]
            rev_ok = a == [tn, qn] and sc == ['forward']
    f['reverse_swaps_indices'] = rev_ok
    # (d) the dot products are scaled by sqrt(alpha) (and by nothing else) when alpha is used
    sc_ok = False
    for n in ast.walk(sqt):
        if isinstance(n, ast.AugAssign) and isinstance(n.op, ast.Mult) and isinstance(n.target, ast.Name) \
                and isinstance(n.value, ast.Call) and isinstance(n.value.func, ast.Attribute) and n.value.func.attr == 'sqrt' \
                and len(n.value.args) == 1 and isinstance(n.value.args[0], ast.Name):
            sc_ok = True
    f['dots_scaled_by_sqrt_alpha'] = sc_ok
    # (e) Dotprops.dist_dots: points without a neighbour inside the cap get distance = cap and dot product 0 on EVERY
    #     path that returns the dot products (with and without alpha), alpha product 0 where it is returned
    dcls = find_class(ast.parse(dp_src), 'Dotprops')
    dd = find_method(dcls, 'dist_dots')
    zero_lines = {}     # variable -> (line of `var[mask] = value`, value)
    for n in ast.walk(dd):
        if isinstance(n, ast.Assign) and len(n.targets) == 1 and isinstance(n.targets[0], ast.Subscript) \
                and isinstance(n.targets[0].value, ast.Name) and isinstance(n.targets[0].slice, ast.Name):
            var = n.targets[0].value.id
            val = n.value.value if isinstance(n.value, ast.Constant) else (n.value.id if isinstance(n.value, ast.Name) else '?')
            zero_lines.setdefault(var, []).append((n.lineno, val))
    rets = [n for n in ast.walk(dd) if isinstance(n, ast.Return) and n.value is not None]
    bound_name = next((a.arg for a in dd.args.args if 'bound' in a.arg), 'distance_upper_bound')

    def fixed_before_every_return(pos, want):
        """the `pos`-th returned variable has been assigned `want` under a mask before every return that carries it"""
        ok, seen = True, False
        for rt_ in rets:
            elts = rt_.value.elts if isinstance(rt_.value, ast.Tuple) else [rt_.value]
            if len(elts) <= pos or not isinstance(elts[pos], ast.Name):
                continue
            seen = True
            v = elts[pos].id
            if not any(ln < rt_.lineno and val == want for (ln, val) in zero_lines.get(v, [])):
                ok = False
        return ok and seen

    f['nohit_dist_is_bound'] = fixed_before_every_return(0, bound_name)
    f['nohit_dot_zero_on_all_paths'] = fixed_before_every_return(1, 0)
    f['nohit_alpha_zero'] = fixed_before_every_return(2, 0)
    return f


def extract_blaster_sites(nbl_src: str):
    """Every `NBlaster(...)` construction in nblast_funcs.py: (enclosing function, ordinal inside it, sorted
    (keyword, forwarded expression) pairs); plus the constructor's parameters and which keys of `smat_kwargs` it reads."""
    tree = ast.parse(nbl_src)
    sites = []
    for fn in tree.body:
        if not isinstance(fn, ast.FunctionDef):
            continue
        k = 0
        calls = [n for n in ast.walk(fn) if isinstance(n, ast.Call) and isinstance(n.func, ast.Name) and n.func.id == 'NBlaster']
        for c in sorted(calls, key=lambda n: (n.lineno, n.col_offset)):
            if c.args or any(kw.arg is None for kw in c.keywords):
                raise ValueError(f'{fn.name}: NBlaster(...) called with positional / ** arguments')
            sites.append((fn.name, k, sorted((kw.arg, ast.unparse(kw.value)) for kw in c.keywords)))
            k += 1
    # every `<blaster>.append(<neurons>[<i>], <self hits>[<j>])`: which list, which index
    appends = []
    for fn in tree.body:
        if not isinstance(fn, ast.FunctionDef):
            continue
        for n in ast.walk(fn):
            if isinstance(n, ast.Call) and isinstance(n.func, ast.Attribute) and n.func.attr == 'append' and len(n.args) == 2 \
                    and all(isinstance(a, ast.Subscript) and isinstance(a.value, ast.Name) for a in n.args):
                a, b = n.args
                appends.append((fn.name, a.value.id, ast.unparse(a.slice), b.value.id, ast.unparse(b.slice), n.lineno))
    appends = [x[:5] for x in sorted(appends, key=lambda x: x[5])]
    cls = find_class(tree, 'NBlaster')
    init = find_method(cls, '__init__')
    params = [a.arg for a in init.args.args if a.arg != 'self']
    keys, default = [], None
    for n in ast.walk(init):
        if isinstance(n, ast.Call) and isinstance(n.func, ast.Attribute) and n.func.attr == 'get' \
                and isinstance(n.func.value, ast.Name) and n.func.value.id == 'smat_kwargs' and n.args \
                and isinstance(n.args[0], ast.Constant):
            keys.append(str(n.args[0].value))
            if len(n.args) > 1 and isinstance(n.args[1], ast.Constant) and isinstance(n.args[1].value, int):
                default = n.args[1].value
        if isinstance(n, ast.Subscript) and isinstance(n.value, ast.Name) and n.value.id == 'smat_kwargs' \
                and isinstance(n.slice, ast.Constant):
            keys.append(str(n.slice.value))
    return sites, params, sorted(set(keys)), default, appends


def extract_fcwb_copy(smat_src: str):
    """How `smat_fcwb()` hands out the lru-cached built-in table: ('deep' | 'shallow' | 'none', cached?)."""
    tree = ast.parse(smat_src)
    fns = {n.name: n for n in tree.body if isinstance(n, ast.FunctionDef)}
    pub, priv = fns.get('smat_fcwb'), fns.get('_smat_fcwb')
    if pub is None:
        raise ValueError('smat_fcwb not found')
    cached = False
    if priv is not None:
        for d in priv.decorator_list:
            t = d.func if isinstance(d, ast.Call) else d
            nm = t.id if isinstance(t, ast.Name) else (t.attr if isinstance(t, ast.Attribute) else '')
            if nm in ('lru_cache', 'cache'):
                cached = True
    # names bound by `from copy import …` / `import copy`
    deep_names, shallow_names = {'deepcopy'}, set()
    for n in tree.body:
        if isinstance(n, ast.ImportFrom) and n.module == 'copy':
            for a in n.names:
                if a.name == 'deepcopy':
                    deep_names.add(a.asname or a.name)
                if a.name == 'copy':
                    shallow_names.add(a.asname or a.name)
    rets = [n for n in ast.walk(pub) if isinstance(n, ast.Return) and n.value is not None]
    if len(rets) != 1:
        raise ValueError('smat_fcwb: expected exactly one return')
    e = rets[0].value

    def calls_private(x):
        return any(isinstance(c, ast.Call) and isinstance(c.func, ast.Name) and c.func.id == '_smat_fcwb' for c in ast.walk(x))

    kind = 'none'
    if isinstance(e, ast.Call):
        f = e.func
        nm = f.id if isinstance(f, ast.Name) else (f.attr if isinstance(f, ast.Attribute) else '')
        is_copy_mod = isinstance(f, ast.Attribute) and isinstance(f.value, ast.Name) and f.value.id == 'copy'
        if (isinstance(f, ast.Name) and nm in deep_names) or (is_copy_mod and nm == 'deepcopy'):
            kind = 'deep'
        elif (isinstance(f, ast.Name) and nm in shallow_names) or (is_copy_mod and nm == 'copy') or nm == 'copy':
            kind = 'shallow'
        elif not calls_private(e):
            kind = 'deep'      # builds a fresh table itself (e.g. re-reads the CSV): nothing shared with a cache
            cached = False
    return kind, cached


def generate(repo: Path):
    repo = Path(repo)
    nbl = repo / 'navis' / 'nbl'
    t1 = read_table(nbl / 'score_mats' / 'smat_fcwb.csv')
    t2 = read_table(nbl / 'score_mats' / 'smat_alpha_fcwb.csv')
    side_lean, side_txt, off, clip = extract_digitizer((nbl / 'smat.py').read_text())
    allowed = extract_allowed_scores((nbl / 'nblast_funcs.py').read_text())
    sites, bparams, skeys, sdefault, appends = extract_blaster_sites((nbl / 'nblast_funcs.py').read_text())
    copy_kind, fc_cached = extract_fcwb_copy((nbl / 'smat.py').read_text())
    sf = extract_scoring_facts((nbl / 'nblast_funcs.py').read_text(), (repo / 'navis' / 'core' / 'dotprop.py').read_text())
    b = lambda x: 'true' if x else 'false'
    out = []
    out.append('import NavisModel.Model.Nblast')
    out.append('/-! GENERATED by translator/gen_smat.py from navis/nbl/smat.py, navis/nbl/nblast_funcs.py and\n'
               'navis/nbl/score_mats/*.csv — do not edit.  Numbers are the exact values of the doubles\n'
               '(`dy n k = n / 2^k`). -/')
    out.append('namespace Navis.Gen.Smat')
    out.append('open Navis.Nblast\n')
    out.append('def dy (n : Int) (k : Nat) : Rat := mkRat n (2 ^ k)\n')
    out.append(f'/-- `side=` of `Digitizer.__call__`: `{side_txt}` -/')
    out.append(f'def sideOfRight (right : Bool) : Side := {side_lean}\n')
    out.append('/-- constant subtracted from the `searchsorted` result in `Digitizer.__call__` -/')
    out.append(f'def offset : Int := {off}\n')
    out.append('/-- default `clip` of `Digitizer.__init__` (used by `from_strings`) -/')
    out.append(f'def defaultClip : Bool × Bool := ({b(clip[0])}, {b(clip[1])})\n')
    out.append('/-- `ALLOWED_SCORES` -/')
    out.append('def allowedScores : List String := [' + ', '.join(f'"{s}"' for s in allowed) + ']\n')
    out.append('/-- semantic facts of `NBlaster.single_query_target` and `Dotprops.dist_dots` (see translator/gen_smat.py) -/')
    for k in ('shortcut_on_positions', 'normalises_by_query', 'reverse_swaps_indices', 'dots_scaled_by_sqrt_alpha',
              'nohit_dist_is_bound', 'nohit_dot_zero_on_all_paths', 'nohit_alpha_zero'):
        camel = ''.join(w.capitalize() if i else w for i, w in enumerate(k.split('_')))
        out.append(f'def {camel} : Bool := {b(sf[k])}')
    out.append('')
    q = lambda x: '"' + str(x).replace('\\', '\\\\').replace('"', '\\"') + '"'
    out.append('/-- every `NBlaster(...)` construction site of nblast_funcs.py: (function, ordinal, sorted (keyword, forwarded expression)) -/')
    out.append('def blasterSites : List (String × Nat × List (String × String)) := [')
    out.append(',\n'.join(f'  ({q(f)}, {k}, [' + ', '.join(f'({q(a)}, {q(v)})' for a, v in kws) + '])' for f, k, kws in sites))
    out.append('  ]\n')
    out.append('/-- how `smat_fcwb()` hands out the built-in table (`_smat_fcwb` is `lru_cache`d) -/')
    out.append(f'def fcwbCopy : CopyKind := .{copy_kind}')
    out.append(f'def fcwbCached : Bool := {b(fc_cached)}\n')
    out.append('/-- every `this.append(<neurons>[i], <self hits>[j])`: (function, neuron list, i, self-hit list, j) -/')
    out.append('def appendSites : List (String × String × String × String × String) := [')
    out.append(',\n'.join(f'  ({q(a)}, {q(b)}, {q(c)}, {q(d)}, {q(e)})' for a, b, c, d, e in appends))
    out.append('  ]\n')
    out.append('/-- parameters of `NBlaster.__init__` -/')
    out.append('def blasterParams : List String := [' + ', '.join(q(x) for x in bparams) + ']\n')
    out.append('/-- keys of `smat_kwargs` the constructor reads, and the default of `sigma_scoring` -/')
    out.append('def smatKwargsKeys : List String := [' + ', '.join(q(x) for x in skeys) + ']')
    out.append(f'def sigmaScoringDefault : Option Int := {"none" if sdefault is None else f"some {sdefault}"}\n')
    out.append(lean_intervals('fcwbRows', t1[0]))
    out.append(lean_intervals('fcwbCols', t1[1]))
    out.append(lean_cells('fcwbCells', t1[2]))
    out.append(lean_intervals('fcwbAlphaRows', t2[0]))
    out.append(lean_intervals('fcwbAlphaCols', t2[1]))
    out.append(lean_cells('fcwbAlphaCells', t2[2]))
    out.append('/-- `smat_fcwb(alpha=False)` / `smat_fcwb(alpha=True)` as `Lookup2d.from_dataframe` builds them -/')
    out.append('def fcwb : Option Lookup2d := Lookup2d.fromDataframe fcwbRows fcwbCols fcwbCells')
    out.append('def fcwbAlpha : Option Lookup2d := Lookup2d.fromDataframe fcwbAlphaRows fcwbAlphaCols fcwbAlphaCells\n')
    out.append('end Navis.Gen.Smat\n')
    meta = {
        'source': ['navis/nbl/smat.py', 'navis/nbl/nblast_funcs.py', 'navis/core/dotprop.py', 'navis/nbl/score_mats/smat_fcwb.csv',
                   'navis/nbl/score_mats/smat_alpha_fcwb.csv'],
        'side_expression': side_txt, 'offset': off, 'default_clip': list(clip), 'allowed_scores': allowed,
        'fcwb_shape': [len(t1[0]), len(t1[1])], 'fcwb_alpha_shape': [len(t2[0]), len(t2[1])],
        'fcwb_right_closed': [all(r for _, _, r in t1[0]), all(r for _, _, r in t1[1])],
        'scoring_facts': sf,
        'blaster_sites': [[f, k, kws] for f, k, kws in sites], 'blaster_params': bparams, 'smat_kwargs_keys': skeys, 'fcwb_copy': copy_kind, 'fcwb_cached': fc_cached,
        'append_sites': [list(x) for x in appends],
    }
    return 'Smat.lean', '\n'.join(out), meta
