"""Translator for C06: re-extract the declarative parts of NBLAST scoring from the current navis source.

* both score matrices (`navis/nbl/score_mats/smat_fcwb.csv`, `smat_alpha_fcwb.csv`): interval labels
  (bounds + which side is closed) and cells, every number as the exact rational value of the double
  Python's `float()` gives for the CSV token (navis parses the labels with `float()`; pandas' cell
  parser may differ from `float()` in the last bit, far below the 2^-40 comparison tolerance);
* the `side=` expression and the subtracted offset of `Digitizer.__call__`, the default `clip` of
  `Digitizer.__init__` (what `from_strings` uses), with `ast`;
* `ALLOWED_SCORES` of `nblast_funcs.py`.

Nothing is imported from navis; files are read as text."""
import ast, csv
from pathlib import Path

PROPS = ['C06']


def rat(x: float) -> str:
    n, d = float(x).as_integer_ratio()
    k = d.bit_length() - 1
    assert d == 1 << k
    return f'dy {n} {k}' if n >= 0 else f'dy ({n}) {k}'


def xval(tok: str) -> str:
    v = float(tok)
    if v == float('inf'):
        return '.pinf'
    if v == float('-inf'):
        return '.ninf'
    if v != v:
        raise ValueError(f'NaN boundary {tok!r}')
    return f'.fin ({rat(v)})'


def parse_label(s: str):
    """'(0.75,1.5]' -> (lo, hi, right) with the tokens kept as text."""
    s = s.strip()
    enc = s[0] + s[-1]
    if enc == '[)':
        right = False
    elif enc == '(]':
        right = True
    else:
        raise ValueError(f'label {s!r} is not a half-open interval')
    lo, hi = s[1:-1].split(',')
    return lo.strip(), hi.strip(), right


def read_table(path: Path):
    with open(path, newline='') as f:
        rows = list(csv.reader(f))
    header, body = rows[0], [r for r in rows[1:] if r]
    cols = [parse_label(c) for c in header[1:]]
    rws = [parse_label(r[0]) for r in body]
    cells = [[float(c) for c in r[1:]] for r in body]
    for r in cells:
        if len(r) != len(cols):
            raise ValueError(f'{path.name}: ragged row')
    return rws, cols, cells


def lean_intervals(name, ivs):
    lines = []
    for k, (lo, hi, r) in enumerate(ivs):
        comma = ',' if k + 1 < len(ivs) else ''
        lines.append(f'⟨{xval(lo)}, {xval(hi)}, {"true" if r else "false"}⟩{comma}  -- {"(" if r else "["}{lo},{hi}{"]" if r else ")"}')
    items = '\n  '.join(lines)
    return f'def {name} : List Interval := [\n  {items}\n  ]\n'


def lean_cells(name, cells):
    rows = ',\n  '.join('[' + ', '.join(rat(c) for c in r) + ']' for r in cells)
    return f'def {name} : List (List Rat) := [\n  {rows}\n  ]\n'


# ---------------------------------------------------------------------------------------------
def find_class(tree, name):
    for n in tree.body:
        if isinstance(n, ast.ClassDef) and n.name == name:
            return n
    raise ValueError(f'class {name} not found')


def find_method(cls, name):
    for n in cls.body:
        if isinstance(n, ast.FunctionDef) and n.name == name:
            return n
    raise ValueError(f'method {cls.name}.{name} not found')


def is_self_right(e):
    return isinstance(e, ast.Attribute) and e.attr == 'right' and isinstance(e.value, ast.Name) and e.value.id == 'self'


def side_const(e):
    if isinstance(e, ast.Constant) and e.value in ('left', 'right'):
        return 'Side.' + e.value
    raise ValueError(f'unsupported side constant: {ast.dump(e)}')


def side_expr(e):
    """Lean term for the `side=` expression in terms of `right : Bool`."""
    if isinstance(e, ast.Constant):
        return side_const(e)
    if isinstance(e, ast.IfExp):
        t = e.test
        if is_self_right(t):
            return f'if right then {side_const(e.body)} else {side_const(e.orelse)}'
        if isinstance(t, ast.UnaryOp) and isinstance(t.op, ast.Not) and is_self_right(t.operand):
            return f'if right then {side_const(e.orelse)} else {side_const(e.body)}'
    raise ValueError(f'unsupported side expression: {ast.unparse(e)}')


def extract_digitizer(src: str):
    tree = ast.parse(src)
    cls = find_class(tree, 'Digitizer')
    call = find_method(cls, '__call__')
    rets = [n for n in ast.walk(call) if isinstance(n, ast.Return)]
    if len(rets) != 1:
        raise ValueError('Digitizer.__call__: expected exactly one return')
    e = rets[0].value
    off = 0
    # peel `<expr> - c` / `<expr> + c`
    while isinstance(e, ast.BinOp) and isinstance(e.op, (ast.Sub, ast.Add)) and isinstance(e.right, ast.Constant) \
            and isinstance(e.right.value, int):
        off += e.right.value if isinstance(e.op, ast.Sub) else -e.right.value
        e = e.left
    if not (isinstance(e, ast.Call) and isinstance(e.func, ast.Attribute) and e.func.attr == 'searchsorted'):
        raise ValueError(f'Digitizer.__call__: not a searchsorted call: {ast.unparse(e)}')
    side = None
    for kw in e.keywords:
        if kw.arg == 'side':
            side = kw.value
    if side is None and len(e.args) >= 3:
        side = e.args[2]
    side_lean = side_expr(side) if side is not None else 'Side.left'   # numpy default
    side_txt = ast.unparse(side) if side is not None else "'left' (numpy default)"
    arr_ok = len(e.args) >= 1 and isinstance(e.args[0], ast.Attribute) and e.args[0].attr == 'boundaries'
    if not arr_ok:
        raise ValueError('Digitizer.__call__: searchsorted is not applied to self.boundaries')
    # default clip of __init__
    init = find_method(cls, '__init__')
    names = [a.arg for a in init.args.args]
    defaults = dict(zip(names[len(names) - len(init.args.defaults):], init.args.defaults))
    clip = defaults.get('clip')
    if not (isinstance(clip, ast.Tuple) and len(clip.elts) == 2 and all(isinstance(c, ast.Constant) and isinstance(c.value, bool) for c in clip.elts)):
        raise ValueError('Digitizer.__init__: default clip is not a pair of booleans')
    clipv = tuple(c.value for c in clip.elts)
    # from_strings must not override clip
    fs = find_method(cls, 'from_strings')
    for n in ast.walk(fs):
        if isinstance(n, ast.Call) and isinstance(n.func, ast.Name) and n.func.id == 'cls':
            for kw in n.keywords:
                if kw.arg == 'clip':
                    raise ValueError('Digitizer.from_strings passes an explicit clip')
    return side_lean, side_txt, off, clipv


def extract_allowed_scores(src: str):
    tree = ast.parse(src)
    for n in tree.body:
        if isinstance(n, ast.Assign) and any(isinstance(t, ast.Name) and t.id == 'ALLOWED_SCORES' for t in n.targets):
            v = ast.literal_eval(n.value)
            return [str(x) for x in v]
    raise ValueError('ALLOWED_SCORES not found')


def generate(repo: Path):
    repo = Path(repo)
    nbl = repo / 'navis' / 'nbl'
    t1 = read_table(nbl / 'score_mats' / 'smat_fcwb.csv')
    t2 = read_table(nbl / 'score_mats' / 'smat_alpha_fcwb.csv')
    side_lean, side_txt, off, clip = extract_digitizer((nbl / 'smat.py').read_text())
    allowed = extract_allowed_scores((nbl / 'nblast_funcs.py').read_text())
    b = lambda x: 'true' if x else 'false'
    out = []
    out.append('import NavisModel.Model.Nblast')
    out.append('/-! GENERATED by translator/gen_smat.py from navis/nbl/smat.py, navis/nbl/nblast_funcs.py and\n'
               'navis/nbl/score_mats/*.csv — do not edit.  Numbers are the exact values of the doubles\n'
               '(`dy n k = n / 2^k`). -/')
    out.append('namespace Navis.Gen.Smat')
    out.append('open Navis.Nblast\n')
    out.append('def dy (n : Int) (k : Nat) : Rat := mkRat n (2 ^ k)\n')
    out.append(f'/-- `side=` of `Digitizer.__call__`: `{side_txt}` -/')
    out.append(f'def sideOfRight (right : Bool) : Side := {side_lean}\n')
    out.append('/-- constant subtracted from the `searchsorted` result in `Digitizer.__call__` -/')
    out.append(f'def offset : Int := {off}\n')
    out.append('/-- default `clip` of `Digitizer.__init__` (used by `from_strings`) -/')
    out.append(f'def defaultClip : Bool × Bool := ({b(clip[0])}, {b(clip[1])})\n')
    out.append('/-- `ALLOWED_SCORES` -/')
    out.append('def allowedScores : List String := [' + ', '.join(f'"{s}"' for s in allowed) + ']\n')
    out.append(lean_intervals('fcwbRows', t1[0]))
    out.append(lean_intervals('fcwbCols', t1[1]))
    out.append(lean_cells('fcwbCells', t1[2]))
    out.append(lean_intervals('fcwbAlphaRows', t2[0]))
    out.append(lean_intervals('fcwbAlphaCols', t2[1]))
    out.append(lean_cells('fcwbAlphaCells', t2[2]))
    out.append('/-- `smat_fcwb(alpha=False)` / `smat_fcwb(alpha=True)` as `Lookup2d.from_dataframe` builds them -/')
    out.append('def fcwb : Option Lookup2d := Lookup2d.fromDataframe fcwbRows fcwbCols fcwbCells')
    out.append('def fcwbAlpha : Option Lookup2d := Lookup2d.fromDataframe fcwbAlphaRows fcwbAlphaCols fcwbAlphaCells\n')
    out.append('end Navis.Gen.Smat\n')
    meta = {
        'source': ['navis/nbl/smat.py', 'navis/nbl/nblast_funcs.py', 'navis/nbl/score_mats/smat_fcwb.csv',
                   'navis/nbl/score_mats/smat_alpha_fcwb.csv'],
        'side_expression': side_txt, 'offset': off, 'default_clip': list(clip), 'allowed_scores': allowed,
        'fcwb_shape': [len(t1[0]), len(t1[1])], 'fcwb_alpha_shape': [len(t2[0]), len(t2[1])],
        'fcwb_right_closed': [all(r for _, _, r in t1[0]), all(r for _, _, r in t1[1])],
    }
    return 'Smat.lean', '\n'.join(out), meta
